"""Positive control for rule E4 (module-level state written by a function).
Never imported; only parsed by the checker."""
import numpy as np

_CACHE = {}
_COUNTER = 0
_TABLE = np.zeros(4)


def remember(key, value):
    _CACHE[key] = value          # planted: subscript store into a module-level dict
    return value


def count():
    global _COUNTER              # planted: global statement + rebinding
    _COUNTER += 1
    return _COUNTER


def poison():
    _TABLE.fill(1)               # planted: mutating method on a module-level array
    return _TABLE
