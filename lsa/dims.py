"""Units-of-measure over normal-form terms (engine U, scalar part).

A dimension is a dict base-unit -> Fraction exponent.  ``dims_of`` assigns a
dimension to a term given the dimensions of its atoms; every monomial of a sum
must agree and transcendental functions need a dimensionless argument.
Unknown atoms make the result ``None`` (no verdict) unless ``strict``.
"""
from fractions import Fraction

from . import nf
from .nf import Poly, Tup


class DimClash(Exception):
    def __init__(self, msg):
        super().__init__(msg)
        self.msg = msg


class DimUnknown(Exception):
    pass


def D(**kw):
    return {k: Fraction(v) for k, v in kw.items() if v != 0}


ONE = {}


def mul(a, b, eb=1):
    out = dict(a)
    for k, v in b.items():
        out[k] = out.get(k, 0) + v * eb
        if out[k] == 0:
            del out[k]
    return out


def fmt_dim(d):
    if d is None:
        return '?'
    if not d:
        return '1'
    return '·'.join(f'{k}^{v}' if v != 1 else k for k, v in sorted(d.items()))


DIMLESS_ARG = {'exp', 'sin', 'cos', 'tan', 'sinc', 'log', 'log10', 'deg2rad', 'arctan'}
SAME_AS_ARG = {'abs', 'floor', 'ceil', 'fix', 'round', 'rint', 'conj', 'real', 'imag', 'amax', 'amin',
               'sum', 'copy', 'cast', 'T', 'max', 'min', 'maximum', 'minimum', 'arange_like', 'm:ravel',
               'fft.fftshift', 'fft.ifftshift', 'clip', 'hypot', 'm:astype', 'squeeze'}


class Dims:
    def __init__(self, atom_dims, strict=False, resolver=None):
        self.atom_dims = atom_dims      # atom -> dim dict
        self.strict = strict
        self.resolver = resolver        # callable(atom) -> dim or None

    def of(self, v):
        if isinstance(v, Tup):
            return [self.of(i) for i in v.items]
        if not isinstance(v, Poly):
            raise DimUnknown(repr(v))
        if not v.terms:
            return None     # zero is polymorphic
        res = None
        for m, c in v.terms:
            d = ONE
            poly_mono = False
            for a, e in m:
                ad = self.atom(a)
                d = mul(d, ad, e)
            if not m:
                # pure number: polymorphic in sums only if other terms exist
                if len(v.terms) > 1:
                    continue
            if res is None:
                res = d
            elif res != d:
                raise DimClash(f'terms of a sum have different dimensions: {fmt_dim(res)} vs {fmt_dim(d)} '
                               f'in {nf.fmt(v)}')
        return res if res is not None else ONE

    def atom(self, a):
        if a in self.atom_dims:
            return self.atom_dims[a]
        if self.resolver is not None:
            r = self.resolver(a)
            if r is not None:
                return r
        k = a[0]
        if k in ('I', 'pi', 'num'):
            return ONE
        if k == 'poly':
            return self.of(a[1])
        if k == 'idx':
            # component of a pair whose base has a declared (uniform) dimension
            return self.atom(a[1])
        if k == 'app':
            name, args = a[1], a[2]
            if name in DIMLESS_ARG:
                d = self.of(args[0])
                if d:
                    raise DimClash(f'argument of {name} has dimension {fmt_dim(d)}: {nf.fmt(args[0])}')
                return ONE
            if name in SAME_AS_ARG:
                ds = [self.of(x) for x in args if isinstance(x, Poly) and x.terms]
                ds = [d for d in ds if d is not None]
                if not ds:
                    return ONE
                for d in ds[1:]:
                    if d != ds[0] and name in ('max', 'min', 'maximum', 'minimum', 'hypot', 'clip'):
                        raise DimClash(f'{name} of quantities with different dimensions: '
                                       f'{fmt_dim(ds[0])} vs {fmt_dim(d)}')
                return ds[0]
            if name in ('lt', 'le', 'eq', 'ne'):
                d1, d2 = self.of(args[0]), self.of(args[1])
                if d1 is not None and d2 is not None and d1 != d2:
                    raise DimClash(f'comparison of {fmt_dim(d1)} with {fmt_dim(d2)}')
                return ONE
        raise DimUnknown(nf.fmt_atom(a))


def check(term, atom_dims, want=None, resolver=None):
    """-> (ok, message, dim).  ok is None when undecided (unknown atom)."""
    try:
        d = Dims(atom_dims, resolver=resolver).of(term)
    except DimClash as e:
        return False, e.msg, None
    except DimUnknown as e:
        return None, f'no dimension known for {e}', None
    if want is not None and d is not None:
        if isinstance(d, list):
            oks = [x == w for x, w in zip(d, want)]
            if not all(oks):
                return False, 'dimension is (' + ', '.join(fmt_dim(x) for x in d) + '), expected (' + \
                    ', '.join(fmt_dim(w) for w in want) + ')', d
        elif d != want:
            return False, f'dimension is {fmt_dim(d)}, expected {fmt_dim(want)}', d
    return True, 'dimension ' + (fmt_dim(d) if not isinstance(d, list) else
                                 '(' + ', '.join(fmt_dim(x) for x in d) + ')'), d
