"""Symbolic array-shape inference over normal-form terms (axis part of engine U).

Dimensions are normal-form terms (e.g. ``img.shape[0]``).  A *clash* is only
reported when two dimensions that must agree are both expressed over the shape
of one and the same array and differ as terms (e.g. ``img.shape[1]`` against
``img.shape[0]``): they coincide only for square arrays.
"""
from . import nf
from .nf import Poly, Tup, Const, Slice, NONE

ONE = Poly.const(1)

ELEMENTWISE = {'exp', 'sinc', 'sin', 'cos', 'tan', 'abs', 'real', 'imag', 'conj', 'floor', 'ceil', 'fix', 'round',
               'rint', 'fft.fftshift', 'fft.ifftshift', 'fft.fft2', 'fft.ifft2', 'cast', 'copy', 'clip', 'log',
               'deg2rad', 'angle', 'm:astype', 'm:copy', 'deepcopy', 'negative', 'sign', 'zeros_like', 'ones_like',
               'empty_like', 'bool', 'not', 'invert', 'scipy.ndimage.gaussian_filter'}
BINARY_ELEMENTWISE = {'lt', 'le', 'eq', 'ne', 'maximum', 'minimum', 'hypot', 'and', 'or', 'logical_or', 'logical_and',
                      'where', 'mod', 'pow'}


def kw(args, name):
    for x in args:
        if isinstance(x, Tup):
            for pr in x.items:
                if isinstance(pr, Tup) and len(pr) == 2 and pr.items[0] == Const(name):
                    return pr.items[1]
    return None


def positional(args):
    return [x for x in args if not (isinstance(x, Tup) and x.items and all(
        isinstance(pr, Tup) and len(pr) == 2 and isinstance(pr.items[0], Const) and isinstance(pr.items[0].value, str)
        for pr in x.items))]


class Shapes:
    def __init__(self, declared=None, assume_scalar=False):
        self.declared = declared or {}     # atom -> tuple of Poly
        self.assume_scalar = assume_scalar  # undeclared symbols (and their components) are scalars
        self.clashes = []

    # -------------------------------------------------------------- helpers
    def roots(self, d):
        """Arrays whose .shape a dimension term is expressed over."""
        out = set()
        for a in d.atoms(deep=False):
            if a[0] == 'idx' and a[1][0] == 'attr' and a[1][2] == 'shape':
                out.add(a[1][1])
            elif a[0] in ('sym', 'fresh', 'loop', 'iter') or (a[0] == 'app' and a[1].startswith('call:')):
                out.add(('other', a))
        return out

    def unify(self, d1, d2, where):
        if d1 == d2:
            return d1
        if d1 == ONE:
            return d2
        if d2 == ONE:
            return d1
        r1, r2 = self.roots(d1), self.roots(d2)
        if r1 and r1 == r2 and len(r1) == 1 and not any(r[0] == 'other' for r in r1):
            self.clashes.append(f'{where}: dimension {nf.fmt(d1)} meets {nf.fmt(d2)} '
                                f'(equal only when {nf.fmt_atom(next(iter(r1)))} is square)')
        c1, c2 = d1.const_value(), d2.const_value()
        if c1 is not None and c2 is not None and c1 != c2:
            self.clashes.append(f'{where}: dimension {c1} meets {c2}')
        return d1

    def broadcast(self, s1, s2, where):
        if s1 is None or s2 is None:
            return None
        n = max(len(s1), len(s2))
        a = (ONE,) * (n - len(s1)) + tuple(s1)
        b = (ONE,) * (n - len(s2)) + tuple(s2)
        return tuple(self.unify(x, y, where) for x, y in zip(a, b))

    # ---------------------------------------------------------------- terms
    def of(self, v, where=''):
        if isinstance(v, Const):
            return ()
        if isinstance(v, Tup):
            if v.kind == 'vec' or all(isinstance(i, Poly) and self.of(i) == () for i in v.items):
                return (Poly.const(len(v)),)
            return None
        if not isinstance(v, Poly):
            return None
        total = ()
        unknown = False
        for m, c in v.terms:
            s = ()
            for a, e in m:
                sa = self.atom(a, where)
                if sa is None:
                    unknown = True
                    continue
                s = self.broadcast(s, sa, where or nf.fmt(v)[:80])
            total = self.broadcast(total, s, where or nf.fmt(v)[:80])
        if unknown:
            return None
        return total

    def slice_len(self, s, dim):
        lo = None if s.lo == NONE else s.lo
        hi = None if s.hi == NONE else s.hi
        if s.step != NONE:
            return None
        if lo is None and hi is None:
            return dim
        if not isinstance(lo, (Poly, type(None))) or not isinstance(hi, (Poly, type(None))):
            return None
        if hi is None:
            return dim - lo if dim is not None else None
        if lo is None:
            return hi
        return hi - lo

    def index(self, base, key, where):
        items = list(key.items) if isinstance(key, Tup) and key.kind != 'vec' else [key]
        if any(i == nf.ELLIPSIS for i in items):
            k = items.index(nf.ELLIPSIS)
            n_real = sum(1 for i in items if not (isinstance(i, Const) and i.value is None) and i != nf.ELLIPSIS)
            fill = [Slice(NONE, NONE)] * (len(base) - n_real)
            items = items[:k] + fill + items[k + 1:]
        out, d = [], 0
        for it in items:
            if isinstance(it, Const) and it.value is None:
                out.append(ONE)
                continue
            if d >= len(base):
                return None
            if isinstance(it, Slice):
                ln = self.slice_len(it, base[d])
                if ln is None:
                    return None
                out.append(ln)
                d += 1
            elif isinstance(it, Poly) and (it.const_value() is not None or
                                           (it.single_atom() is not None and it.single_atom()[0] == 'iter')):
                d += 1
            else:
                return None
        out.extend(base[d:])
        return tuple(out)

    def atom(self, a, where=''):
        if a in self.declared:
            return self.declared[a]
        k = a[0]
        if k in ('I', 'pi', 'num'):
            return ()
        if k == 'poly':
            return self.of(a[1], where)
        if self.assume_scalar:
            if k == 'sym':
                return ()
            if k == 'idx' and a[1][0] == 'sym' and a[1] not in self.declared and isinstance(a[2], Poly) \
                    and a[2].const_value() is not None:
                return ()
        if k == 'attr':
            if a[2] == 'T':
                s = self.atom(a[1], where)
                return tuple(reversed(s)) if s is not None else None
            if a[2] in ('real', 'imag'):
                return self.atom(a[1], where)
            if a[2] in ('size', 'ndim'):
                return ()
            return None
        if k == 'idx' and a[1][0] == 'app' and a[1][1] in ('broadcast_arrays', 'numpy.broadcast_arrays') and isinstance(a[2], Poly) \
                and a[2].const_value() is not None:
            # component of broadcast_arrays(x, y, ..): every component has the common broadcast shape
            shp = [self.of(x, where) for x in positional(a[1][2])]
            if any(s_ is None for s_ in shp):
                return None
            r = max(len(s_) for s_ in shp)
            out = [ONE] * r
            for s_ in shp:
                for j, d in enumerate(s_):
                    pos_ = r - len(s_) + j
                    out[pos_] = self.unify(out[pos_], d, where)
            return tuple(out)
        if k == 'idx':
            if a[1][0] == 'attr' and a[1][2] == 'shape':
                return ()
            b = self.atom(a[1], where) if a[1][0] != 'val' else self.of(a[1][1], where)
            if b is None:
                return None
            return self.index(b, a[2], where)
        if k != 'app':
            return None
        name, args = a[1], a[2]
        pos = positional(args)
        g = lambda i: self.of(pos[i], where) if i < len(pos) else None
        if name in ELEMENTWISE:
            return g(0)
        if name in ('m:reshape', 'reshape') and len(pos) >= 2:
            dims_ = list(pos[1].items) if len(pos) == 2 and isinstance(pos[1], Tup) else pos[1:]
            src = g(0)
            if src is not None and len(src) == 1 and len(dims_) == 2 and all(isinstance(d, Poly) for d in dims_):
                m1 = Poly.const(-1)
                if dims_[0] == m1 and dims_[1] == ONE:
                    return (src[0], ONE)            # a column vector
                if dims_[0] == ONE and dims_[1] == m1:
                    return (ONE, src[0])            # a row vector
            return None
        if name == 'T':
            s = g(0)
            return tuple(reversed(s)) if s is not None else None
        if name in BINARY_ELEMENTWISE:
            s = ()
            for x in pos:
                s = self.broadcast(s, self.of(x, where), where or name)
            return s
        if name == 'arange' and len(pos) in (2, 3) and all(isinstance(x, Poly) for x in pos):
            step = pos[2] if len(pos) == 3 else Poly.const(1)
            if step.const_value() == 1:
                return (pos[1] - pos[0],)
            if step.const_value() == -1:
                return (pos[0] - pos[1],)
        if name in ('fft.fftfreq', 'arange') and len(pos) == 1 and isinstance(pos[0], Poly):
            return (pos[0],)
        if name == 'linspace' and len(pos) >= 3 and isinstance(pos[2], Poly):
            return (pos[2],)
        if name == 'meshgrid' and len(pos) == 4:
            la, lb = g(0), g(1)
            if la is None or lb is None or len(la) != 1 or len(lb) != 1:
                return None
            ij = pos[2] == Const('ij')
            return (la[0], lb[0]) if ij else (lb[0], la[0])
        if name in ('ravel', 'm:ravel', 'm:flatten', 'flatten') and pos:
            src = g(0)
            if src is not None and len(src) == 1:
                return src                  # flattening a vector leaves it as it is
            if src is not None and len(src) == 0:
                return (ONE,)
        if name == 'ogrid':
            # open grid: component k has the length of slice k on axis k and 1 on the others
            k_ = pos[-1].const_value() if isinstance(pos[-1], Poly) else None
            dims = []
            for i_, s in enumerate(pos[:-1]):
                if not isinstance(s, Slice) or k_ is None:
                    return None
                ln = self.slice_len(s, None)
                if ln is None:
                    return None
                dims.append(ln if i_ == int(k_) else ONE)
            return tuple(dims)
        if name == 'mgrid':
            dims = []
            for s in pos[:-1]:
                if not isinstance(s, Slice):
                    return None
                ln = self.slice_len(s, None)
                if ln is None:
                    return None
                dims.append(ln)
            return tuple(dims)
        if name in ('outer', 'add_outer', 'sub_outer'):
            la, lb = g(0), g(1)
            if la is None or lb is None or len(la) != 1 or len(lb) != 1:
                return None
            return (la[0], lb[0])
        if name == 'dot':
            sa, sb = g(0), g(1)
            if sa is None or sb is None:
                return None
            if len(sa) == 2 and len(sb) == 2:
                self.unify(sa[1], sb[0], where or 'dot')
                return (sa[0], sb[1])
            if len(sa) == 1 and len(sb) == 1:
                self.unify(sa[0], sb[0], where or 'dot')
                return ()
            return None
        if name in ('zeros', 'ones', 'empty'):
            shp = pos[0] if pos else None
            if isinstance(shp, Tup):
                return tuple(i for i in shp.items) if all(isinstance(i, Poly) for i in shp.items) else None
            if isinstance(shp, Poly):
                sa = shp.single_atom()
                if sa is not None and sa[0] == 'attr' and sa[2] == 'shape' and ('attr', sa[1], 'shape') is not None:
                    base = self.atom(sa[1], where)
                    return base
                if self.of(shp) == ():
                    return (shp,)
            return None
        if name in ('sum', 'amax', 'amin', 'count_nonzero', 'any', 'all', 'len', 'linalg.norm'):
            if kw(args, 'axis') is None and len(pos) == 1:
                return ()
            return None
        if name == 'setitem':
            return g(0)
        if name in ('m:normal', 'm:poisson', 'm:lognormal', 'm:standard_normal', 'm:uniform'):
            size = kw(args, 'size')
            if size is None and name == 'm:standard_normal' and len(pos) > 1:
                size = pos[1]
            if isinstance(size, Tup):
                return tuple(size.items) if all(isinstance(i, Poly) for i in size.items) else None
            if isinstance(size, Poly):
                sa = size.single_atom()
                if sa is not None and sa[0] == 'attr' and sa[2] == 'shape':
                    return self.atom(sa[1], where)
            if name == 'm:poisson' and len(pos) > 1:
                return self.of(pos[1], where)
            if name == 'm:normal':
                loc = kw(args, 'loc')
                if loc is not None and size is None:
                    return self.of(loc, where)
            return None
        if name.startswith('random.') and kw(args, 'size') is None:
            return ()
        if name == 'einsum' and pos and isinstance(pos[0], Const) and isinstance(pos[0].value, str):
            return self.einsum(pos[0].value, pos[1:], where)
        if name == 'scipy.ndimage.zoom' and len(pos) >= 2:
            s = g(0)
            if s is None or not isinstance(pos[1], Poly):
                return None
            return tuple(d * pos[1] for d in s)
        if name == 'kron':
            sa, sb = g(0), g(1)
            if sa is None or sb is None or len(sa) != len(sb):
                return None
            return tuple(x * y for x, y in zip(sa, sb))
        if name == 'tile' and len(pos) == 2 and isinstance(pos[1], Tup):
            s = g(0)
            if s is None or len(s) != len(pos[1]):
                return None
            return tuple(d * r for d, r in zip(s, pos[1].items))
        if name == 'repeat':
            s = g(0)
            ax = kw(args, 'axis')
            if s is None or ax is None or not isinstance(pos[1], Poly) or ax.const_value() is None:
                return None
            k2 = int(ax.const_value())
            return tuple(d * pos[1] if i == k2 else d for i, d in enumerate(s))
        return None

    def einsum(self, spec, ops, where):
        if '->' not in spec:
            return None
        ins, out = spec.replace(' ', '').split('->')
        ins = ins.split(',')
        if len(ins) != len(ops):
            self.clashes.append(f'{where}: einsum {spec!r} has {len(ins)} operands in the subscripts, {len(ops)} given')
            return None
        letters = {}
        for sub, op in zip(ins, ops):
            s = self.of(op, where) if not (isinstance(op, Tup) and op.kind != 'vec') else None
            if s is None:
                continue
            if len(s) != len(sub):
                self.clashes.append(f'{where}: einsum operand with subscripts {sub!r} has {len(s)} axes')
                continue
            for ch, d in zip(sub, s):
                if ch in letters:
                    letters[ch] = self.unify(letters[ch], d, where or 'einsum')
                else:
                    letters[ch] = d
        if all(ch in letters for ch in out):
            return tuple(letters[ch] for ch in out)
        return None


def declare_2d(name):
    """Shape declaration for a 2-D array parameter."""
    sh = nf.attr(nf.sym(name), 'shape')
    return {('sym', name): (nf.index(sh, Poly.const(0)), nf.index(sh, Poly.const(1)))}
