"""Range / sign / integrality interpretation over normal-form terms (engine R)."""
from fractions import Fraction
import math

from . import nf
from .nf import Poly, Tup, Const

INF = math.inf


class Rng:
    __slots__ = ('lo', 'hi', 'integer', 'values')

    def __init__(self, lo=-INF, hi=INF, integer=False, values=None):
        self.lo, self.hi, self.integer = lo, hi, integer
        self.values = values        # frozenset of possible values (finite) or None

    @property
    def binary(self):
        return self.values is not None and self.values <= {0, 1}

    @property
    def nonneg(self):
        return self.lo >= 0

    def within(self, lo, hi):
        return self.lo >= lo and self.hi <= hi

    def __repr__(self):
        s = f'[{self.lo}, {self.hi}]'
        if self.values is not None:
            s += ' values ' + '{' + ', '.join(str(v) for v in sorted(self.values)) + '}'
        elif self.integer:
            s += ' integer'
        return s


TOP = Rng()


def const(c):
    c = Fraction(c)
    return Rng(c, c, c.denominator == 1, frozenset([c]))


def join(a, b):
    vals = a.values | b.values if a.values is not None and b.values is not None else None
    return Rng(min(a.lo, b.lo), max(a.hi, b.hi), a.integer and b.integer, vals)


def _mul_bound(x, y):
    if x == 0 or y == 0:
        return 0
    return x * y


def mul(a, b):
    c = [_mul_bound(a.lo, b.lo), _mul_bound(a.lo, b.hi), _mul_bound(a.hi, b.lo), _mul_bound(a.hi, b.hi)]
    vals = None
    if a.values is not None and b.values is not None and len(a.values) * len(b.values) <= 16:
        vals = frozenset(x * y for x in a.values for y in b.values)
    return Rng(min(c), max(c), a.integer and b.integer, vals)


def add(a, b):
    vals = None
    if a.values is not None and b.values is not None and len(a.values) * len(b.values) <= 16:
        vals = frozenset(x + y for x in a.values for y in b.values)
    return Rng(a.lo + b.lo if not (math.isinf(a.lo) or math.isinf(b.lo)) else -INF if -INF in (a.lo, b.lo) else a.lo + b.lo,
               a.hi + b.hi if not (math.isinf(a.hi) or math.isinf(b.hi)) else INF if INF in (a.hi, b.hi) else a.hi + b.hi,
               a.integer and b.integer, vals)


def power(a, e):
    e = Fraction(e)
    if e.denominator == 1 and e > 0:
        n = int(e)
        if n % 2 == 0:
            m = max(abs(a.lo), abs(a.hi))
            lo = 0 if a.lo <= 0 <= a.hi else min(abs(a.lo), abs(a.hi)) ** n
            vals = frozenset(v ** n for v in a.values) if a.values is not None else None
            return Rng(lo, m ** n if not math.isinf(m) else INF, a.integer, vals)
        vals = frozenset(v ** n for v in a.values) if a.values is not None else None
        return Rng(a.lo ** n if not math.isinf(a.lo) else a.lo, a.hi ** n if not math.isinf(a.hi) else a.hi,
                   a.integer, vals)
    if e.denominator == 2 and e > 0:       # sqrt-like
        return Rng(0, INF if a.hi > 1 or math.isinf(a.hi) else 1)
    if e < 0 and a.lo > 0:
        return Rng(0, INF)
    if e < 0 and a.lo >= 0:
        return Rng(0, INF)
    return TOP


class Ranges:
    def __init__(self, env=None, loops=None, resolver=None, is_complex=None):
        self.env = env or {}          # atom -> Rng
        self.loops = loops or []
        self.resolver = resolver
        self.is_complex = is_complex  # predicate: atom may hold complex numbers
        self._loop_memo = {}
        self.unknown = []             # constructs without a model met on the way (range there is TOP)

    def complex_valued(self, v):
        """May the term be complex?  abs(.) and real(.)/imag(.) results are real."""
        if self.is_complex is None or not isinstance(v, Poly):
            return False
        for m, _ in v.terms:
            for a, _e in m:
                if a == nf.I_ATOM or self.is_complex(a):
                    return True
                if a[0] == 'poly' and self.complex_valued(a[1]):
                    return True
                if a[0] == 'idx' and self.is_complex(a[1]):
                    return True
                if a[0] == 'app' and a[1] not in ('abs', 'real', 'imag', 'angle', 'sum') and \
                        any(self.complex_valued(x) for x in a[2] if isinstance(x, Poly)):
                    return True
                if a[0] == 'app' and a[1] == 'sum' and any(self.complex_valued(x) for x in a[2] if isinstance(x, Poly)):
                    return True
        return False

    def of(self, v):
        if isinstance(v, Const):
            if isinstance(v.value, bool):
                return const(int(v.value))
            return TOP
        if not isinstance(v, Poly):
            return TOP
        if self.complex_valued(v):
            return TOP
        total = None
        for m, c in v.terms:
            r = const(c)
            for a, e in m:
                r = mul(r, power(self.atom(a), e) if e != 1 else self.atom(a))
            total = r if total is None else add(total, r)
        return total if total is not None else const(0)

    def atom(self, a):
        if a in self.env:
            return self.env[a]
        if self.resolver is not None:
            r = self.resolver(a, self)
            if r is not None:
                return r
        k = a[0]
        if k == 'pi':
            return Rng(3, 4)
        if k == 'num':
            return Rng(0, INF)
        if k == 'poly':
            return self.of(a[1])
        if k == 'loop':
            return self.loop_atom(a)
        if k == 'idx':
            if a[1][0] != 'val':
                return self.atom(a[1])
            inner = a[1][1]
            if isinstance(inner, (Poly, Const)):
                return self.of(inner)            # an element of an array expression lies in the array's range
            if isinstance(inner, Tup) and inner.items and all(isinstance(i, (Poly, Const)) for i in inner.items):
                r = self.of(inner.items[0])
                for i in inner.items[1:]:
                    r = join(r, self.of(i))
                return r
            self.unknown.append(nf.fmt_atom(a)[:80])
            return TOP
        if k == 'app':
            return self.app(a[1], a[2])
        self.unknown.append(nf.fmt_atom(a)[:80])
        return TOP

    def app(self, name, args):
        g = lambda i: self.of(args[i]) if i < len(args) and isinstance(args[i], (Poly, Const)) else TOP
        if name in ('abs',):
            r = g(0)
            if r.lo >= 0:
                return r
            m = max(abs(r.lo), abs(r.hi))
            return Rng(0, m, r.integer, frozenset(abs(v) for v in r.values) if r.values is not None else None)
        if name == 'clip':
            lo, hi = g(1), g(2)
            return Rng(lo.lo, hi.hi)
        if name in ('minimum', 'min'):
            rs = [self.of(x) for x in args if isinstance(x, Poly)]
            vals = None
            if all(r.values is not None for r in rs):
                vals = frozenset().union(*[r.values for r in rs])
            return Rng(min(r.lo for r in rs), min(r.hi for r in rs), all(r.integer for r in rs), vals)
        if name in ('maximum', 'max'):
            rs = [self.of(x) for x in args if isinstance(x, Poly)]
            vals = None
            if all(r.values is not None for r in rs):
                vals = frozenset().union(*[r.values for r in rs])
            return Rng(max(r.lo for r in rs), max(r.hi for r in rs), all(r.integer for r in rs), vals)
        if name == 'or' and args and all(isinstance(x, Poly) for x in args):
            # `x or c` is one of its operands
            rs = [self.of(x) for x in args]
            return Rng(min(r.lo for r in rs), max(r.hi for r in rs), all(r.integer for r in rs))
        if name in ('ones', 'ones_like'):
            return const(1)
        if name in ('zeros', 'zeros_like'):
            return const(0)
        if name in ('exp',):
            return Rng(0, INF)
        if name in ('sinc', 'sin', 'cos'):
            return Rng(-1, 1)
        if name in ('floor', 'ceil', 'fix', 'round', 'rint'):
            r = g(0)
            return Rng(math.floor(r.lo) if not math.isinf(r.lo) else r.lo,
                       math.ceil(r.hi) if not math.isinf(r.hi) else r.hi, True,
                       r.values if r.integer and r.values is not None else None)
        if name in ('real', 'imag') and args and isinstance(args[0], Poly) and self.complex_valued(args[0]):
            return TOP
        if name in ('sum', 'amax', 'amin', 'copy', 'cast', 'T', 'm:ravel', 'm:reshape', 'squeeze', 'real',
                    'fft.fftshift', 'fft.ifftshift', 'm:astype', 'deepcopy', 'broadcast_to', 'm:copy', 'tile',
                    'repeat', 'kron'):
            r = g(0)
            if name == 'sum':
                return Rng(0 if r.lo >= 0 else -INF, INF if r.hi > 0 else 0, r.integer)
            if name == 'kron':
                return mul(g(0), g(1))
            if name in ('cast', 'm:astype') and len(args) > 1 and repr(args[1]) in ("('builtin', 'int')", "'int'"):
                return Rng(r.lo, r.hi, True, r.values)
            return r
        if name == 'where' and len(args) == 3:
            ra, rb = g(1), g(2)
            cond = args[0].single_atom() if isinstance(args[0], Poly) else None
            if cond is not None and cond[0] == 'app' and cond[1] in ('lt', 'le', 'eq', 'ne') and len(cond[2]) == 2:
                # the branch that repeats the tested array only takes the values the test lets through
                if isinstance(args[1], Poly):
                    ra = self._restrict(ra, args[1], cond, True)
                if isinstance(args[2], Poly):
                    rb = self._restrict(rb, args[2], cond, False)
            return join(ra, rb)
        if name == 'setitem':
            base, key, val = args[0], args[1], args[2]
            rb = self.of(base) if isinstance(base, Poly) else TOP
            rv = self.of(val) if isinstance(val, (Poly, Const)) else TOP
            rest = rb
            ka = key.single_atom() if isinstance(key, Poly) else None
            if ka is not None and ka[0] == 'app' and ka[1] in ('lt', 'le', 'ne', 'nonzero') and isinstance(base, Poly):
                a0 = ka[2][0]
                a1 = ka[2][1] if len(ka[2]) > 1 else None
                z = lambda t: isinstance(t, Poly) and t.is_zero()
                if ka[1] == 'lt' and z(a0) and a1 == base:          # base > 0 assigned
                    rest = Rng(rb.lo, min(rb.hi, 0), rb.integer, _filt(rb.values, lambda v: v <= 0))
                elif ka[1] == 'lt' and a0 == base and z(a1):        # base < 0 assigned
                    rest = Rng(max(rb.lo, 0), rb.hi, rb.integer, _filt(rb.values, lambda v: v >= 0))
                elif ka[1] == 'ne' and ((a0 == base and z(a1)) or (a1 == base and z(a0))):
                    rest = const(0)
                elif ka[1] == 'nonzero' and a0 == base:
                    rest = const(0)
                elif ka[1] == 'lt' and a1 == base and isinstance(a0, Poly) and a0.const_value() is not None:
                    c = a0.const_value()                            # base > c assigned
                    rest = Rng(rb.lo, min(rb.hi, c), rb.integer, _filt(rb.values, lambda v: v <= c))
            if rest.lo == rest.hi and rest.values is None and not math.isinf(rest.lo):
                rest = const(rest.lo)
            return join(rest, rv)
        if name in ('poisson',) or name.endswith('.poisson') or name == 'm:poisson':
            return Rng(0, INF, True)
        if name.split(':')[-1].split('.')[-1] in ('lognormal', 'gamma', 'exponential', 'chisquare', 'rayleigh', 'weibull', 'pareto',
                                                  'standard_exponential', 'standard_gamma', 'beta', 'random', 'uniform01'):
            return Rng(0, INF)          # distributions supported on the non-negative reals
        if name.split(':')[-1].split('.')[-1] in ('binomial', 'geometric', 'negative_binomial', 'hypergeometric'):
            return Rng(0, INF, True)
        if name == 'functools.reduce' and len(args) >= 2:
            fa = args[0].single_atom() if isinstance(args[0], Poly) else None
            which = None
            if fa is not None and fa[0] == 'val' and isinstance(fa[1], Const) and isinstance(fa[1].value, tuple):
                which = {'numpy.minimum': 'min', 'numpy.maximum': 'max'}.get(fa[1].value[1])
            seq = args[1].single_atom() if isinstance(args[1], Poly) else None
            if which and seq is not None and seq[0] == 'app' and seq[1] == 'listcomp':
                parts = [self.of(seq[2][0])] + ([self.of(args[2])] if len(args) > 2 and isinstance(args[2], Poly) else [])
                f = min if which == 'min' else max
                vals = None
                if all(r.values is not None for r in parts):
                    vals = frozenset().union(*[r.values for r in parts])
                return Rng(f(r.lo for r in parts), f(r.hi for r in parts), all(r.integer for r in parts), vals)
        if name in ('lt', 'le', 'gt', 'ge', 'eq', 'ne', 'not', 'logical_and', 'logical_or', 'logical_not', 'logical_xor',
                    'isfinite', 'isnan', 'isinf', 'isclose', 'greater', 'less', 'greater_equal', 'less_equal', 'equal',
                    'not_equal', 'and', 'or') and (name not in ('and', 'or') or all(
                        isinstance(x, Poly) and self.of(x).binary for x in args)):
            return Rng(0, 1, True, frozenset({0, 1}))       # a truth value (an array of them): 0 or 1 once cast to a number
        self.unknown.append(f'{name}(...)')
        return TOP

    def _restrict(self, r, value, cond, truth):
        """Range of ``value`` where the comparison ``cond`` (an lt/le/eq/ne atom against a constant) has the
        given truth; r unchanged when cond is not about value."""
        op, (x, y) = cond[1], cond[2]
        if not (isinstance(x, Poly) and isinstance(y, Poly)):
            return r
        if x == value and y.const_value() is not None:
            c, rel = y.const_value(), op                    # value <op> c
        elif y == value and x.const_value() is not None:
            c, rel = x.const_value(), {'lt': 'gt', 'le': 'ge', 'eq': 'eq', 'ne': 'ne'}[op]
        else:
            return r
        if not truth:
            rel = {'lt': 'ge', 'le': 'gt', 'gt': 'le', 'ge': 'lt', 'eq': 'ne', 'ne': 'eq'}[rel]
        c = float(c) if not isinstance(c, int) else c
        lo, hi, vals = r.lo, r.hi, r.values
        if rel in ('lt', 'le'):
            hi = min(hi, c)
            vals = _filt(vals, (lambda v: v < c) if rel == 'lt' else (lambda v: v <= c))
        elif rel in ('gt', 'ge'):
            lo = max(lo, c)
            vals = _filt(vals, (lambda v: v > c) if rel == 'gt' else (lambda v: v >= c))
        elif rel == 'eq':
            return const(c) if float(c) == int(c) else Rng(c, c)
        elif rel == 'ne':
            vals = _filt(vals, lambda v: v != c)
        out = Rng(lo, hi, r.integer, vals)
        if out.lo == out.hi and out.values is None and not math.isinf(out.lo) and float(out.lo) == int(out.lo):
            out = const(int(out.lo))
        return out

    def loop_atom(self, a):
        if a in self._loop_memo:
            return self._loop_memo[a]
        label = a[1]
        for lp in self.loops:
            for name, phi in lp['phi'].items():
                if phi.single_atom()[1] == label:
                    pre = lp['pre'].get(name)
                    assumed = self.of(pre) if isinstance(pre, (Poly, Const)) else TOP
                    for _ in range(3):
                        self._loop_memo[('loop', label, 'phi')] = assumed
                        self._loop_memo[('loop', label, 'out')] = assumed
                        new = assumed
                        for ends in lp['ends']:
                            v = ends.get(name)
                            if isinstance(v, (Poly, Const)):
                                new = join(new, self.of(v))
                            else:
                                new = TOP
                        if new.lo >= assumed.lo and new.hi <= assumed.hi and \
                                (assumed.values is None or (new.values is not None and new.values <= assumed.values)):
                            break
                        assumed = new
                    else:
                        assumed = TOP
                    self._loop_memo[('loop', label, 'phi')] = assumed
                    self._loop_memo[('loop', label, 'out')] = assumed
                    return assumed
        return TOP


def _filt(vals, pred):
    return frozenset(v for v in vals if pred(v)) if vals is not None else None
