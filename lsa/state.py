"""State, events and paths of the abstract interpreter."""
import itertools

_ids = itertools.count(1)


def fresh_id():
    return next(_ids)


class Event:
    __slots__ = ('kind', 'node', 'func', 'data', 'in_loop', 'depth')

    def __init__(self, kind, node, func, in_loop=False, depth=0, **data):
        self.kind = kind        # 'write' | 'call' | 'raise' | 'note' | 'global'
        self.node = node
        self.func = func        # FuncInfo in which the event happened
        self.data = data
        self.in_loop = in_loop
        self.depth = depth      # inlining depth (0 = analysed function itself)

    def __getattr__(self, k):
        try:
            return self.data[k]
        except KeyError:
            raise AttributeError(k)

    @property
    def line(self):
        return getattr(self.node, 'lineno', 0)

    def loc(self):
        return f'{self.func.module.relpath}:{self.line}' if self.func else f'?:{self.line}'

    def __repr__(self):
        return f'<{self.kind} {self.loc()} {self.data}>'


class State:
    __slots__ = ('env', 'heap', 'conds', 'events', 'choices', 'loops', 'globals_decl', 'jump')

    def __init__(self):
        self.env = {}
        self.heap = {}        # attr-atom -> value
        self.conds = []       # (value, polarity, node)
        self.events = []
        self.choices = {}     # id(node) -> choice index (IfExp / inlined call forks)
        self.loops = []       # loop info dicts
        self.globals_decl = set()
        self.jump = None      # 'continue' / 'break' until the enclosing loop consumes it

    def fork(self):
        s = State()
        s.env = dict(self.env)
        s.heap = dict(self.heap)
        s.conds = list(self.conds)
        s.events = list(self.events)
        s.choices = dict(self.choices)
        s.loops = list(self.loops)
        s.globals_decl = set(self.globals_decl)
        s.jump = self.jump
        return s


class Path:
    """One syntactic path through a function."""
    __slots__ = ('status', 'ret', 'state', 'exc', 'node')

    def __init__(self, status, ret, state, exc=None, node=None):
        self.status = status   # 'return' | 'raise' | 'fall'
        self.ret = ret
        self.state = state
        self.exc = exc
        self.node = node

    @property
    def events(self):
        return self.state.events

    @property
    def conds(self):
        return self.state.conds

    @property
    def env(self):
        return self.state.env

    def writes(self):
        return [e for e in self.state.events if e.kind == 'write']

    def calls(self, callee=None):
        return [e for e in self.state.events if e.kind == 'call'
                and (callee is None or e.data.get('callee') == callee)]

    def __repr__(self):
        return f'<Path {self.status} ret={self.ret!r}>'


class Fork(Exception):
    """Raised during expression evaluation when ``n`` alternatives exist for
    ``node``; the statement executor forks the state and re-executes."""

    def __init__(self, node, n):
        self.node = node
        self.n = n


class PathLimit(Exception):
    pass
