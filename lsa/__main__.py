import argparse
import importlib
import os
import sys
import traceback

from .model import Repo, AnalysisError
from .report import Check


def main(argv=None):
    ap = argparse.ArgumentParser(prog='lsa')
    ap.add_argument('prop')
    ap.add_argument('--tier', default=os.environ.get('VERIF_TIER', 'quick'), choices=['quick', 'thorough'])
    ap.add_argument('--explain', default=None, help='print every obligation whose key contains this text')
    ap.add_argument('--list', action='store_true', help='print all obligations')
    ap.add_argument('--no-liveness', action='store_true')
    a = ap.parse_args(argv)
    pid = a.prop.upper()
    try:
        mod = importlib.import_module(f'lsa.props.{pid.lower()}')
        repo = Repo()
        chk = Check(pid, a.tier)
        from .resilient import pinned_tree, run_sections
        strict = pinned_tree(repo) and os.environ.get('LSA_LENIENT') != '1'
        chk.strict = strict
        try:
            run_sections(mod, chk, repo, a.tier, strict)
        except AnalysisError as e:
            # a definite violation found before the analysis broke down still stands
            if any(o.ok is False for o in chk.obligations):
                print(f'ANALYSIS-NOTE property={pid}: analysis stopped early: {e}')
                chk.floors = {}
                rc = chk.finish()
                if rc == 1:
                    return 1
            raise
        if a.list or a.explain:
            for o in chk.obligations:
                if a.list or a.explain in o.key:
                    print(('ok  ' if o.ok else 'FAIL' if o.ok is False else 'UNDEC'), o.key, '@', o.loc, '\n      ', o.detail, o.facts or '')
        rc = chk.finish()
        n = len(chk.obligations)
        print(f'{pid}: {n} obligations, {sum(1 for o in chk.obligations if o.ok is True)} discharged, {sum(1 for o in chk.obligations if o.ok is None)} undecided, '
              f'tier={a.tier}, repo={repo.root}')
        if rc == 0 and a.tier == 'thorough' and not a.no_liveness and os.environ.get('LSA_NO_LIVENESS') != '1':
            from . import liveness
            rc = liveness.run(pid, undecided=sorted({o.clause for o in chk.obligations if o.ok is None}))
            # record what the rule-liveness run covered in the evidence file
            import json
            from .report import evidence_dir
            ep = os.path.join(evidence_dir(), f'{pid}.json')
            with open(ep) as fh:
                ev = json.load(fh)
            ev['coverage']['rule_liveness'] = dict(liveness.LAST, note='every variant is applied to a scratch copy of the '
                                                   'current tree; fire variants must be reported by the named clause, silent '
                                                   '(behaviour-preserving) variants must pass')
            with open(ep, 'w') as fh:
                json.dump(ev, fh, indent=1)
        return rc
    except AnalysisError as e:
        print(f'ANALYSIS-ERROR property={pid}: {e}')
        return 2
    except Exception:
        traceback.print_exc()
        print(f'ANALYSIS-ERROR property={pid}: internal exception (see traceback)')
        return 2


if __name__ == '__main__':
    sys.exit(main())
