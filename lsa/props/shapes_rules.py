"""Range rules for drawn shapes (C20-f)."""
from .. import nf
from ..nf import Poly, TRUE, FALSE
from ..model import AnalysisError
from ..ranges import Ranges
from ..rules import run as analyse, returns, fmt, conds_str


def shape_ranges(chk, repo, clause):
    for name in ('circle', 'hexagon', 'rectangle', 'spider'):
        key = f'shape.{name}'
        for aa, label in ((TRUE, 'antialias=True'), (FALSE, 'antialias=False')):
            f, paths, _ = analyse(repo, key, config={'antialias': aa}, inline=['shape.rectangle'])
            rets = returns(paths)
            if not rets:
                raise AnalysisError(f'{key}: no returning path')
            ok, det = True, []
            for p in rets:
                rg = Ranges(loops=p.state.loops)
                r = rg.of(p.ret)
                good = r.within(0, 1) and (aa is TRUE or r.binary)
                if not good and rg.unknown:
                    ok = None if ok is not False else ok      # no verdict: a construct without a range model is involved
                    det.append(f'undecided ({rg.unknown[0]}) [{conds_str(p)}]')
                    continue
                ok = (ok and good) if ok is not None else (False if not good else None)
                det.append(f'{r!r} [{conds_str(p)}]')
            chk.ob(clause, 'R-range', key, f'values in [0,1]' + (', binary' if aa is FALSE else '') + f' [{label}]', ok,
                   'value range ' + '; '.join(det), f.loc())
