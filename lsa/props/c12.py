"""C12 - Zernike fit / compose / remove are mutually inverse for any mode set."""
import ast
from .. import nf, bind
from ..nf import Poly, Tup, Const, NONE, TRUE, FALSE
from ..model import AnalysisError
from ..rules import run as analyse, returns, fmt, is_app, S, C, conds_str

NAMES = {'normalize', 'rho', 'theta', 'modes', 'mask'}
ZFUNCS = ['zernike', 'zernike_compose', 'zernike_basis', 'zernike_fit', 'zernike_remove',
          'zernike_coordinates', 'R', 'zernike_index']


def bound_of(atom):
    return {k.items[0].value: k.items[1] for k in atom[2]}


def binding_rule(chk, repo, clause='C12-a'):
    """every internal call in zernike.py binds normalize/rho/theta/modes/mask to the like-named parameter, and forwards them"""
    for name in ZFUNCS:
        if not repo.has_func(f'zernike.{name}'):
            continue
        caller = repo.func(f'zernike.{name}')
        ords = {}
        for s in sorted(bind.sites(repo, caller), key=lambda s: (s.node.lineno, s.node.col_offset)):
            if s.callee.module.name != 'zernike':
                continue
            mm = bind.b3_mismatches(s, names=NAMES)
            chk.ob(clause, 'B3-binding', caller.key, _ord(s, ords), not mm,
                   '; '.join(f'argument `{a}` is bound to parameter `{p}`' for p, a in mm) or 'like-named binding',
                   s.loc())
            # an option the caller itself takes is handed on, not silently replaced by the callee's default
            own = set(caller.param_names())
            dropped = [n for n in sorted(NAMES & own & set(s.callee.param_names())) if n not in s.binding and not s.star]
            if dropped:
                chk.ob(clause, 'B5-default', caller.key, f'{_ord(s, {})} forwards ' + ', '.join(dropped), False,
                       f'`{", ".join(dropped)}` of {caller.key} is not passed on to {s.callee.key}: the callee falls back on its default',
                       s.loc())



def run(chk, repo, tier):
    from .common import no_hidden_state
    no_hidden_state(chk, repo, 'C12')
    chk.clause('C12-o', 'fit / compose / remove leave their arguments (opd, mask, rho, theta, coefficients) untouched', 5)
    from .common import operands_untouched
    operands_untouched(chk, repo, 'C12-o', ['zernike.zernike', 'zernike.zernike_compose', 'zernike.zernike_basis', 'zernike.zernike_fit', 'zernike.zernike_remove', 'zernike.zernike_coordinates', 'zernike.R'], allow=[])
    chk.clause('C12-a', 'every internal call in zernike.py binds normalize/rho/theta/modes/mask to the like-named parameter', 8)
    chk.clause('C12-b', 'the removed component is synthesised from the fitted mode set (depends on `modes` beyond the coefficients)', 1)
    chk.clause('C12-c', 'analysis and synthesis in zernike_remove use the same normalisation and coordinates', 2)
    from .c11 import bool_coercion_rule
    bool_coercion_rule(chk, repo, 'C12-c')
    chk.clause('C12-d', 'compose maps coefficient k to Noll index k+1; basis row i is mode modes[i]; fit applies the '
                        'pseudo-inverse of the vectorised basis of the same modes', 3)
    chk.clause('C12-e', 'nothing is lost between synthesis and analysis: full-rank pseudo-inverse cut-off, float basis array', 2)
    chk.not_decided += ['exact recovery of coefficients and idempotence (numerical)']

    # ---------------------------------------------------------------- C12-a
    binding_rule(chk, repo)

    # ------------------------------------------------------------ C12-b / c
    frem = repo.func('zernike.zernike_remove')
    _, paths, _ = analyse(repo, frem)
    rets = returns(paths)
    if len(rets) != 1:
        raise AnalysisError('zernike_remove: expected a single path')
    p = rets[0]
    ret = p.ret
    fits = [a for a in nf.value_atoms(ret) if is_app(a, 'call:zernike.zernike_fit')]
    if not fits:
        # the fit is written out in place: the coefficients are the product with the pseudo-inverse / least-squares solution
        fits = [a for a in nf.value_atoms(ret) if is_app(a, ('einsum', 'dot', 'matmul', 'tensordot'))
                and any(is_app(b, ('linalg.pinv', 'linalg.lstsq')) for b in nf.value_atoms(Poly.atom(a)))]
        # the innermost such product is the coefficient vector
        fits = [a for a in fits if not any(b != a and b in fits for b in nf.value_atoms(Poly.atom(a)))]
    if not fits:
        raise AnalysisError('zernike_remove: no fit (zernike_fit call or pseudo-inverse product) found in the result')
    removed = nf.app('asis', S('opd')) * 0 + (S('opd') - ret) if isinstance(ret, Poly) else None
    mapping = {a: S('__coeffs__') for a in fits}
    synth = nf.subst_value(removed, mapping) if removed is not None else None
    dep = synth is not None and ('sym', 'modes') in nf.value_atoms(synth)
    chk.ob('C12-b', 'D-must-depend', frem.key, 'synthesis depends on the fitted mode set', dep,
           f'removed component = {fmt(synth)}: ' + ('mentions `modes`' if dep else
           'does not depend on `modes` except through the coefficients - the coefficients are re-composed as '
           'modes 1..k whatever was fitted'), frem.loc(p.node))
    direct = synth is not None and ('sym', 'opd') in nf.value_atoms(synth)
    chk.ob('C12-b', 'D-must-not-depend', frem.key, 'residual = opd - synthesis (the OPD itself is passed through unchanged)',
           synth is not None and not direct,
           f'opd - residual = {fmt(synth)[:200]}' + (' still contains the OPD itself: the part that is not in the fitted modes is altered'
                                                     if direct else ''), frem.loc(p.node))
    # C12-c: agreement of (normalize, rho, theta) between all zernike calls, and with the caller's own
    zcalls = [e for e in p.events if e.kind == 'call' and e.depth == 0
              and str(e.data.get('callee', '')).startswith('zernike.zernike')]
    if len(zcalls) < 1:
        raise AnalysisError('zernike_remove: expected an analysis and a synthesis call')
    ref = zcalls[0]
    for prm in ('normalize', 'rho', 'theta'):
        vals = [(e, e.bound.get(prm)) for e in zcalls if prm in e.bound]
        same = all(v == vals[0][1] for _, v in vals)
        want = S(prm) if prm in frem.param_names() else None
        right = all(v == want for _, v in vals) if want is not None else \
            all(isinstance(v, Const) for _, v in vals)
        chk.ob('C12-c', 'D-agreement', frem.key, f'`{prm}` of analysis and synthesis', same and right,
               '; '.join(f'{e.data["callee"]}: {prm}={fmt(v)}' for e, v in vals), frem.loc(ref.node))

    # ... and the same mode set: the coefficients that are subtracted are the least-squares coefficients of a fit to exactly
    # the requested modes (fitted jointly with others, the requested ones get different coefficients whenever the modes
    # are not orthogonal over the mask - any mask that is not a full disc)
    mvals = [(e, e.bound.get('modes')) for e in zcalls if 'modes' in e.bound]
    lifted = lambda v: v is not None and nf.strip_apps(v, ('atleast_1d', 'numpy.atleast_1d', 'asarray', 'array', 'cast', 'copy')) == S('modes')
    if mvals:
        okm = all(lifted(v) for _, v in mvals)
        chk.ob('C12-c', 'D-agreement', frem.key, '`modes` of analysis and synthesis are the requested modes', okm,
               '; '.join(f'{e.data["callee"]}: modes={fmt(v)[:60]}' for e, v in mvals), frem.loc(ref.node))

    # ---------------------------------------------------------------- C12-d
    # the coefficient vector is indexed by Noll number: the map from the number to (m, n) is one to one on every row
    from .c11 import noll_rules as _noll_rules
    _noll_rules(chk, repo, 'C12-d')
    # the modes the fit projects onto are the modes `zernike` evaluates: normalisation and azimuthal factor of every case
    from . import c11 as _c11
    from .common import Remap as _Remap12
    from ..resilient import run_nested as _run_nested12
    nd12 = list(chk.not_decided)
    _run_nested12(_c11, _Remap12(chk, {'C11-c': 'C12-d'}), repo, tier)
    chk.not_decided[:] = nd12
    fcomp = repo.func('zernike.zernike_compose')
    _, paths, _ = analyse(repo, fcomp)
    ok, det = False, 'no accumulation of coeff*zernike(...) found'
    for p in returns(paths):
        for e in p.writes():
            if e.data.get('how') == 'augassign' and e.in_loop and isinstance(e.data.get('value'), Poly):
                v = e.data['value']
                zs = [a for a in v.atoms(deep=False) if is_app(a, 'call:zernike.zernike')]
                if len(zs) != 1:
                    continue
                b = bound_of(zs[0])
                coef = v / Poly.atom(zs[0])
                ca = coef.single_atom()
                if ca is None or ca[0] != 'idx' or ca[1] != ('sym', 'coeffs'):
                    det = f'summand is {fmt(v)}'
                    continue
                k = ca[2]
                ok = b.get('index') == k + 1 and b.get('mask') == S('mask') and b.get('normalize') == S('normalize') \
                    and b.get('rho') == S('rho') and b.get('theta') == S('theta')
                det = f'summand coeffs[{fmt(k)}] * zernike(index={fmt(b.get("index"))}, normalize={fmt(b.get("normalize"))}, ' \
                      f'rho={fmt(b.get("rho"))}, theta={fmt(b.get("theta"))})'
    from .c11 import _new_private
    delegated = [str(e.data.get('callee')) for p in returns(paths) for e in p.events
                 if e.kind == 'call' and _new_private(repo, str(e.data.get('callee')))]
    no_acc = not any(e.data.get('how') == 'augassign' and e.in_loop for p in returns(paths) for e in p.writes())
    if not ok and no_acc and delegated:
        ok, det = None, f'undecided: the terms are produced by {delegated[0]}, which is not followed'
    chk.ob('C12-d', 'N-index', fcomp.key, 'coefficient k <-> Noll index k+1', ok, det, fcomp.loc())
    # every term of the composition is a coefficient times the mode as `zernike` evaluates it (boolean support, caller's
    # coordinates and normalisation) - the modes the fit projects onto: a term built some other way (piston as coeff * mask
    # with the mask's raw values) takes composition and fit apart
    other, nterm = [], 0
    for p in returns(paths):
        for e in p.writes():
            if e.data.get('how') == 'augassign' and e.in_loop and isinstance(e.data.get('value'), Poly):
                nterm += 1
                v = e.data['value']
                if not [a for a in nf.value_atoms(v) if is_app(a, 'call:zernike.zernike')]:
                    other.append(f'`+= {fmt(v)[:60]}` at {e.loc()}')
    chk.ob('C12-d', 'D-flow', fcomp.key, 'every term of a composition is coefficient x zernike(mask, index, normalize, rho, theta)',
           (not other) if nterm else None, '; '.join(sorted(set(other))[:2]) or f'{nterm} accumulation(s)', fcomp.loc())

    # ... and the sum starts from nothing: a term written outside the loop (piston as coeffs[0] * mask) by-passes `zernike`
    starts, ns_ = [], 0
    for p in returns(paths):
        for lp in p.state.loops:
            if lp['func'] != fcomp.key:
                continue
            accs = {e.target.single_atom()[1] for bs in lp['states'] for e in bs.events[lp['n_pre_events']:]
                    if e.kind == 'write' and e.data.get('how') == 'augassign' and isinstance(e.target, Poly)
                    and e.target.single_atom() is not None and e.target.single_atom()[0] == 'loop'}
            for nm_, v_ in (lp.get('pre') or {}).items():
                if not any(str(a_).startswith(nm_ + '@') for a_ in accs):
                    continue
                ns_ += 1
                va_ = v_.single_atom() if isinstance(v_, Poly) else None
                zero = (isinstance(v_, Poly) and v_.const_value() == 0) or \
                    (va_ is not None and is_app(va_, ('zeros', 'zeros_like', 'numpy.zeros', 'numpy.zeros_like')))
                if not zero:
                    starts.append(f'`{nm_}` starts as {fmt(v_)[:70]}')
    chk.ob('C12-d', 'D-flow', fcomp.key, 'the composition is accumulated from zero (no term is formed outside the loop over the coefficients)',
           (not starts) if ns_ else None, '; '.join(sorted(set(starts))[:2]), fcomp.loc())
    fbas = repo.func('zernike.zernike_basis')
    _, paths, _ = analyse(repo, fbas)
    ok, det = False, 'no store basis[i] = zernike(mask, modes[i], ...) found'
    oks = []

    def is_modes(a):
        """`modes` itself, or `modes` lifted to one dimension (modes[..., None], atleast_1d, [modes])"""
        v = nf.strip_apps(Poly.atom(a), ('asarray', 'atleast_1d', 'copy', 'cast', 'array'))
        if v == S('modes'):
            return True
        va = v.single_atom() if isinstance(v, Poly) else None
        if va is not None and va[0] == 'idx' and Poly.atom(va[1]) == S('modes'):
            items = va[2].items if isinstance(va[2], Tup) else (va[2],)
            return all(i in (NONE, nf.ELLIPSIS) or (isinstance(i, nf.Slice) and i.lo in (NONE, None) and i.hi in (NONE, None))
                       for i in items)
        if va is not None and va[0] == 'val' and isinstance(va[1], Tup) and len(va[1]) == 1:
            return va[1].items[0] == S('modes')
        return False
    for p in returns(paths):
        for e in p.writes():
            if e.data.get('how') == 'setitem' and e.in_loop:
                v = e.data.get('value')
                a = v.single_atom() if isinstance(v, Poly) else None
                if a is None or not is_app(a, 'call:zernike.zernike'):
                    continue
                b = bound_of(a)
                key = e.data['key']
                kitem = key.items[0] if isinstance(key, Tup) and len(key) == 1 else key
                mode = b.get('index')
                ma = mode.single_atom() if isinstance(mode, Poly) else None
                ok = ma is not None and ma[0] == 'idx' and ma[2] == kitem and b.get('mask') == S('mask') \
                    and b.get('normalize') == S('normalize') and b.get('rho') == S('rho') and b.get('theta') == S('theta')
                if not ok and ma is not None and ma[0] == 'idx' and isinstance(ma[1], tuple) and ma[1][0] == 'attr' and ma[1][2] == 'flat':
                    # walked in step: position k of np.ndindex(*x.shape) is where x.flat[k] sits (both in C order)
                    import re as _re
                    x_ = fmt(Poly.atom(ma[1][1]))
                    want_key = f'numpy.ndindex(starred({x_}.shape))[{fmt(ma[2])}]'
                    if fmt(kitem) == want_key and b.get('mask') == S('mask') and b.get('normalize') == S('normalize') \
                            and b.get('rho') == S('rho') and b.get('theta') == S('theta'):
                        ok = True
                        ma = ('idx', ma[1][1], ma[2])
                det_p = f'basis[{fmt(key)}] = zernike(index={fmt(mode)}, normalize={fmt(b.get("normalize"))}, ' \
                        f'rho={fmt(b.get("rho"))}, theta={fmt(b.get("theta"))})'
                if ok and not is_modes(ma[1]):
                    # the sequence that is walked is not the requested list: a bare integer k means the mode k, not 1..k
                    ok = False
                    det_p += f' - the modes walked are {fmt(Poly.atom(ma[1]))[:60]}, not the requested ones [{conds_str(p)[:60]}]'
                oks.append(ok)
                det = det_p if (not ok or not det or det.startswith('no store')) else det
    ok = bool(oks) and all(oks)
    chk.ob('C12-d', 'N-index', fbas.key, 'row i of the basis is mode modes[i]', ok, det, fbas.loc())

    ffit = repo.func('zernike.zernike_fit')
    _, paths, _ = analyse(repo, ffit)
    rets = returns(paths)
    ok, det = bool(rets), ''
    for p in rets:
        bs = [a for a in nf.value_atoms(p.ret) if is_app(a, 'call:zernike.zernike_basis')]
        inv = [a for a in nf.value_atoms(p.ret) if is_app(a, ('linalg.pinv', 'linalg.lstsq'))]
        if len(bs) != 1 or not inv:
            ok, det = False, f'result {fmt(p.ret)} is not a least-squares solve against zernike_basis(...)'
            continue
        b = bound_of(bs[0])
        vec = b.get('vectorize') == TRUE
        if not vec and b.get('vectorize') in (FALSE, None):
            # the cube flattened by hand: pinv(basis.reshape(basis.shape[0], -1)) is the vectorised basis
            B = Poly.atom(bs[0])
            for a in inv:
                arg = a[2][0].single_atom() if a[2] and isinstance(a[2][0], Poly) else None
                if arg is not None and is_app(arg, 'm:reshape') and arg[2][0] == B and len(arg[2]) == 3 and \
                        arg[2][1] == nf.index(nf.attr(B, 'shape'), C(0)) and isinstance(arg[2][2], Poly) and arg[2][2].const_value() == -1:
                    vec = True
        good = b.get('mask') == S('mask') and b.get('modes') == S('modes') and b.get('normalize') == S('normalize') \
            and b.get('rho') == S('rho') and b.get('theta') == S('theta') and vec \
            and ('sym', 'opd') in nf.value_atoms(p.ret)
        ok = ok and good
        det = f'basis call: ' + ', '.join(f'{k}={fmt(v)}' for k, v in b.items())
    chk.ob('C12-d', 'D-flow', ffit.key, 'pseudo-inverse of the vectorised basis of the same modes', ok, det, ffit.loc())
    # one coefficient per requested mode, as a vector, also for a single mode: zernike_remove / zernike_compose contract it
    # over its only axis
    shape_bad = []
    for p in rets:
        a = p.ret.single_atom() if isinstance(p.ret, Poly) else None
        if a is not None and a[0] == 'idx' and not isinstance(a[2], (nf.Slice, Tup)) and \
                any(is_app(x, ('linalg.pinv', 'linalg.lstsq', 'einsum', 'dot', 'matmul')) for x in nf.value_atoms(Poly.atom(a[1]))):
            shape_bad.append(f'returns the element {fmt(p.ret)[:80]} [{conds_str(p)[:60]}]')
        elif a is not None and is_app(a, ('m:item', 'float', 'squeeze', 'm:squeeze', 'm:tolist')):
            shape_bad.append(f'returns {fmt(p.ret)[:80]} [{conds_str(p)[:60]}]')
    chk.ob('C12-d', 'U-shape', ffit.key, 'the coefficients come back as a vector with one entry per mode (a single mode included)',
           (not shape_bad) if rets else None,
           ('; '.join(shape_bad[:2]) + ': a 0-d result cannot be contracted with the (1, rows, cols) basis - zernike_remove(opd, mask, [k]) '
            'raises') if shape_bad else 'every path returns the solution vector', ffit.loc())
    # the OPD is flattened in the order the basis is flattened in (C order): no order='K'/'F'/'A' anywhere in the module
    odd_order = []
    for fn_ in repo.all_functions():
        if fn_.module.name != 'zernike':
            continue
        for n in ast.walk(fn_.node):
            if isinstance(n, ast.Call) and isinstance(n.func, ast.Attribute) and n.func.attr in ('ravel', 'flatten', 'reshape', 'flat'):
                for k in n.keywords:
                    if k.arg == 'order' and not (isinstance(k.value, ast.Constant) and k.value.value == 'C'):
                        odd_order.append(f'{fn_.key}: {ast.unparse(n)[:60]} at {fn_.loc(n)}')
                if n.func.attr in ('ravel', 'flatten') and n.args and not (isinstance(n.args[0], ast.Constant) and n.args[0].value == 'C'):
                    odd_order.append(f'{fn_.key}: {ast.unparse(n)[:60]} at {fn_.loc(n)}')
    chk.ob('C12-d', 'U-axis', 'zernike', 'arrays are flattened in C order everywhere (OPD samples and basis rows pair up)', not odd_order,
           '; '.join(odd_order[:2]) or 'no non-C flattening', '')
    # compose adds every coefficient: a term may only be skipped when the coefficient is exactly zero
    _, cpaths, _ = analyse(repo, fcomp)
    skip_bad, n_loops = [], 0
    for p in returns(cpaths):
        for lp in p.state.loops:
            if lp['func'] != fcomp.key:
                continue
            n_loops += 1
            for bs, conds in zip(lp['states'], lp['conds']):
                adds = [e for e in bs.events[lp['n_pre_events']:] if e.kind == 'write' and e.data.get('how') == 'augassign']
                if adds:
                    continue
                exact = conds and all(isinstance(c, Poly) and c.single_atom() is not None and is_app(c.single_atom(), 'eq')
                                      and C(0) in c.single_atom()[2] and pol for c, pol, _ in conds)
                if not exact:
                    skip_bad.append('a step adds nothing when ' + ' & '.join(f'{"" if pol else "not "}{fmt(c)[:60]}' for c, pol, _ in conds))
    chk.ob('C12-d', 'D-dominance', fcomp.key, 'every coefficient contributes (a term is skipped only for an exactly zero coefficient)',
           (not skip_bad) if (n_loops and not (no_acc and delegated)) else None,
           '; '.join(sorted(set(skip_bad))[:2]) or f'{n_loops} loop(s), every step accumulates', fcomp.loc())
    # exact recovery for every linearly independent mode set: no singular value is discarded beyond rounding level
    cut_ok, det_c, n_inv = True, '', 0
    for p in rets:
        for a in nf.value_atoms(p.ret):
            if not is_app(a, ('linalg.pinv', 'linalg.lstsq')):
                continue
            n_inv += 1
            cut = None
            pos = [x for x in a[2] if not (isinstance(x, Tup) and x.items and isinstance(x.items[0], Tup))]
            kws = {pr.items[0].value: pr.items[1] for x in a[2] if isinstance(x, Tup) for pr in x.items
                   if isinstance(pr, Tup) and len(pr) == 2 and isinstance(pr.items[0], Const)}
            for k in ('rcond', 'rtol', 'cond'):
                if k in kws:
                    cut = kws[k]
            if cut is None and a[1] == 'linalg.pinv' and len(pos) > 1:
                cut = pos[1]
            if cut is None and a[1] == 'linalg.lstsq' and len(pos) > 2:
                cut = pos[2]
            if cut is None or cut == NONE:
                continue
            cv = cut.const_value() if isinstance(cut, Poly) else None
            if cv is None or cv > 1e-12 or cv < 0 and a[1] == 'linalg.pinv':
                cut_ok, det_c = False, f'{a[1]} cut-off {fmt(cut)}: singular values below it are dropped, so an independent but ' \
                                       'ill-conditioned mode set is not recovered'
    chk.ob('C12-e', 'N-cutoff', ffit.key, 'the least-squares solve keeps every singular value above rounding level', cut_ok and n_inv > 0,
           det_c or 'default cut-off', ffit.loc())
    # the basis holds real-valued polynomials: the array that receives them is a float array whatever the mask's type
    basis_dtype_rule(chk, repo, 'C12-e')
    basis_order_rule(chk, repo, 'C12-e')


def basis_order_rule(chk, repo, clause):
    """Slice i of the cube zernike_basis returns is the mode modes[i]: the cube is filled by walking `modes` itself, or
    what was filled in some other order (np.unique, sorted) is mapped back before it is returned."""
    fbas = repo.func('zernike.zernike_basis')
    _, paths, _ = analyse(repo, fbas)
    ok, det, n = True, '', 0
    for p in returns(paths):
        root = nf.strip_apps(p.ret, ('m:reshape', 'reshape', 'copy', 'asarray', 'squeeze', 'm:squeeze'))
        ra = root.single_atom() if isinstance(root, Poly) else None
        if ra is None or ra[0] != 'loop':
            ok = None if ok is not False else ok
            det = det or f'undecided: returns {fmt(p.ret)[:100]}'
            continue
        name = ra[1].split('@')[0]
        for lp in p.state.loops:
            if lp['func'] != fbas.key or name not in lp['phi']:
                continue
            src = lp['iter']
            sa = src.single_atom() if isinstance(src, Poly) else None
            seq = sa[2][0] if sa is not None and is_app(sa, ('ndenumerate', 'enumerate')) and sa[2] else src
            base = seq
            for _ in range(4):
                ba = base.single_atom() if isinstance(base, Poly) else None
                if ba is not None and ba[0] == 'idx' and all(x in (NONE, nf.ELLIPSIS) for x in (ba[2].items if isinstance(ba[2], Tup) else [ba[2]])):
                    base = Poly.atom(ba[1])        # modes[..., None]: same entries, one more axis
                elif ba is not None and is_app(ba, ('asarray', 'atleast_1d', 'copy', 'm:ravel', 'm:flatten')):
                    base = ba[2][0]
                else:
                    break
            n += 1
            if base != S('modes'):
                reordered = any(is_app(x, ('unique', 'sort', 'sorted', 'argsort', 'numpy.unique', 'numpy.sort', 'm:sort')) or
                                (x[0] == 'idx' and is_app(x[1], ('unique', 'numpy.unique'))) for x in nf.value_atoms(seq))
                if reordered:
                    ok = False
                    det = f'the cube is filled walking {fmt(seq)[:80]} and returned without mapping back to the order of `modes` [{conds_str(p)[:60]}]'
                elif ok:
                    ok, det = None, f'undecided: filled walking {fmt(seq)[:80]}'
    chk.ob(clause, 'D-order', fbas.key, 'slice i of the basis cube is mode modes[i]', (ok and n > 0) if ok is not None else None,
           det or f'{n} path(s) fill the cube walking `modes`', fbas.loc())


def basis_dtype_rule(chk, repo, clause):
    """zernike_basis stores real-valued modes: its array must be a float array whatever the mask's type (C12-e; reused by C11)"""
    fbas = repo.func('zernike.zernike_basis')
    _, paths, _ = analyse(repo, fbas)
    flt_ok, det_f, n_alloc = True, '', 0
    shape_bad = []
    for p in returns(paths):
        for e in p.writes():
            if e.data.get('how') == 'setitem' and e.in_loop:
                from ..rules import alias_root
                from .c09 import view_chain
                root, _ = view_chain(e.target, p.state.loops)
                if root is None or not is_app(root, ('zeros', 'empty', 'ones', 'zeros_like', 'empty_like', 'ones_like', 'full')):
                    continue
                n_alloc += 1
                kws = {pr.items[0].value: pr.items[1] for x in root[2] if isinstance(x, Tup) for pr in x.items
                       if isinstance(pr, Tup) and len(pr) == 2 and isinstance(pr.items[0], Const)}
                dt = kws.get('dtype')
                like = root[1].endswith('_like')
                floatish = dt is None and not like or (isinstance(dt, Const) and str(dt.value) in
                                                       ("('builtin', 'float')", 'float64', 'float', 'complex128', "('builtin', 'complex')"))
                if not floatish:
                    flt_ok, det_f = False, f'basis allocated as {nf.fmt_atom(root)[:120]}: the modes are cast to that type on assignment'
                # one plane per mode, each with the shape of the mask - rows first
                shp_ = root[2][0] if root[2] else None
                if isinstance(shp_, Tup) and len(shp_) >= 2:
                    ms_ = nf.attr(S('mask'), 'shape')
                    tail_ = list(shp_.items[-2:])
                    if tail_ == [nf.index(ms_, C(1)), nf.index(ms_, C(0))]:
                        shape_bad.append(f'basis allocated as {nf.fmt_atom(root)[:100]}: planes of shape (columns, rows) of the mask')
    chk.ob(clause, 'U-shape', fbas.key, 'each plane of the basis has the shape of the mask (rows, columns)', not shape_bad if n_alloc else None,
           '; '.join(shape_bad[:1]), fbas.loc())
    chk.ob(clause, 'T-dtype', fbas.key, 'the basis array is a float array whatever the type of the mask',
           (flt_ok and n_alloc > 0) if (n_alloc > 0 or not flt_ok) else None, det_f or f'{n_alloc} allocation(s)', fbas.loc())


def _ord(s, ords):
    k = ords[s.callee.key] = ords.get(s.callee.key, 0) + 1
    return f'call #{k} of {s.callee.key}'


def _role(s):
    import ast
    return ' '.join(ast.unparse(s.node).split())[:80]
