"""C17 - resampling a plane changes its sampling, not its optics (structural part)."""
import ast
from .. import nf
from ..nf import Poly, Tup, Const, Slice, NONE, TRUE, FALSE
from ..effects import Effects
from ..model import AnalysisError
from ..ranges import Ranges
from ..rules import run as analyse, returns, fmt, is_app, S, C, has_factor, conds_str

SELF = S('self')


def bound_of(atom):
    return {k.items[0].value: k.items[1] for k in atom[2]}


def run(chk, repo, tier):
    from .common import no_hidden_state
    no_hidden_state(chk, repo, 'C17')
    chk.clause('C17-a', 'pixel scale is divided by the scale factor on each axis; resample uses old/new', 4)
    chk.clause('C17-b', 'amplitude carries the 1/scale factor, OPD does not', 2)
    chk.clause('C17-c', 'mask: order-0 interpolation in both branches, re-binarised, cast to int', 4)
    chk.clause('C17-d', 'slice cache refreshed after the mask changes', 1)
    chk.clause('C17-e', 'the original plane is untouched (all writes go to a deep copy)', 2)
    chk.clause('C17-f', 'util.rescale: output shape ceil(n*scale) in all branches; interpolation coordinates in (row, col) order', 7)
    chk.clause('C17-g', 'util.rescale: interpolated image times the power normalisation (iff unitary) times the interpolated mask', 2)
    chk.clause('C17-h', 'util.rescale works for every array type its callers hand it (the integer mask a rescaled plane '
                        'carries included): floating-point-only operations see floating-point arrays', 2)
    chk.not_decided += ['interpolation accuracy, power/PSF preservation, identity at scale 1 (numerical)']
    dtype_closure(chk, repo, 'C17-h')

    from .c03 import mask_cache_rule
    mask_cache_rule(chk, repo, 'C17-d')
    from .extra_rules import rescale_unitary_rule
    rescale_unitary_rule(chk, repo, 'C17-g')
    f = repo.func('plane.Plane.rescale')
    _, paths, _ = analyse(repo, f)
    rets = returns(paths)
    if not rets:
        raise AnalysisError('Plane.rescale: no returning path')
    scale = S('scale')
    oka = okb_amp = okb_opd = okc_order = okc_bin = okc_int = okd = True
    smooth_orders = set()
    n_ps = n_amp = n_opd = n_mask = 0
    copy_ok = True
    opd_masked = False
    bin_unknown = []
    for p in rets:
        cp = p.calls('plane.Plane.copy')
        copy_ok = copy_ok and len(cp) == 1 and cp[0].bound.get('self') == SELF and p.ret == cp[0].result
        if not cp:
            continue
        plane = cp[0].result
        last = {}
        for e in p.events:
            if e.kind == 'write' and e.data.get('how') == 'attrstore' and e.depth == 0 and e.target == plane:
                last.setdefault(e.data['attr'], []).append(e)
        # pixel scale
        if '_pixelscale' in last:
            n_ps += 1
            v = last['_pixelscale'][-1].data['value']
            ps = [nf.index(nf.attr(plane, a), C(k)) for a in ('pixelscale', '_pixelscale') for k in (0, 1)]
            good = isinstance(v, Tup) and len(v) == 2 and v.items[0] in (ps[0] / scale, ps[2] / scale) and \
                v.items[1] in (ps[1] / scale, ps[3] / scale)
            va = v.single_atom() if isinstance(v, Poly) else None
            if not good and va is not None and is_app(va, ('listcomp', 'genexp', 'tuplecomp')) and len(va[2]) == 2:
                # the same expression mapped over every axis of the old pixel scale
                body, seq = va[2]
                sqa = seq.single_atom() if isinstance(seq, Poly) else None
                if sqa is not None and sqa[0] == 'idx' and isinstance(sqa[2], Slice) and sqa[2].lo in (NONE, C(0)) and \
                        sqa[2].hi == C(2) and sqa[2].step in (NONE, None):
                    seq = Poly.atom(sqa[1])          # pixelscale[:2]: both axes of the (row, col) pair
                its = [a for a in nf.value_atoms(body) if a[0] == 'iter']
                good = seq in (nf.attr(plane, 'pixelscale'), nf.attr(plane, '_pixelscale')) and len(its) == 1 and \
                    body == nf.index(seq, Poly.atom(its[0])) / scale
            if not good and v == NONE and any(pol and fmt(c) in (f'is({fmt(nf.attr(plane, a_))}, (None))' for a_ in ('pixelscale', '_pixelscale'))
                                               for c, pol, _ in p.conds):
                n_ps -= 1
                good = True         # a plane without a pixel scale keeps none
            oka = oka and good
        if 'amplitude' in last:
            n_amp += 1
            v = last['amplitude'][-1].data['value']
            rs = [a for a in v.atoms(deep=False) if is_app(a, 'call:util.rescale')] if isinstance(v, Poly) else []
            good = len(rs) == 1 and v == Poly.atom(rs[0]) / scale and bound_of(rs[0]).get('scale') == scale and \
                bound_of(rs[0]).get('unitary') == FALSE
            okb_amp = okb_amp and good
            if len(rs) == 1:
                smooth_orders.add(nf.vkey(bound_of(rs[0]).get('order')))
        if 'opd' in last:
            n_opd += 1
            v = last['opd'][-1].data['value']
            a = v.single_atom() if isinstance(v, Poly) else None
            good = a is not None and is_app(a, 'call:util.rescale') and bound_of(a).get('scale') == scale and \
                bound_of(a).get('unitary') == FALSE
            # (no mask: util.rescale interpolates a supplied mask and multiplies by it - a taper on the outermost samples)
            if good and bound_of(a).get('mask') not in (None, NONE):
                good = False
                opd_masked = True
            okb_opd = okb_opd and good
            if a is not None and is_app(a, 'call:util.rescale'):
                smooth_orders.add(nf.vkey(bound_of(a).get('order')))
        if '_mask' in last:
            n_mask += 1
            evs = last['_mask']
            first = evs[0].data['value']
            calls = [a for a in nf.value_atoms(first) if is_app(a, 'call:util.rescale')]
            okc_order = okc_order and bool(calls) and all(bound_of(a).get('order') == C(0) and bound_of(a).get('scale') == scale
                                                          for a in calls)
            final = evs[-1].data['value']
            rg = Ranges()
            r = rg.of(final)
            fa = final.single_atom() if isinstance(final, Poly) else None
            okc_int = okc_int and fa is not None and is_app(fa, 'm:astype') and fa[2][1] == Const(('builtin', 'int'))
            inner = fa[2][0] if fa is not None and is_app(fa, 'm:astype') else final
            ia = inner.single_atom() if isinstance(inner, Poly) else None
            # value-range argument: whatever the interpolation returned, the stored mask takes values in {0, 1}
            if r.binary:
                pass
            elif [u for u in rg.unknown if 'rescale' not in u and 'listcomp' not in u]:
                bin_unknown.append(rg.unknown[0])
            else:
                okc_bin = False
            sl = last.get('_slice', [])
            okd = okd and bool(sl) and sl[-1].data['value'].single_atom() is not None and \
                is_app(sl[-1].data['value'].single_atom(), 'call:plane._plane_slice') and \
                bound_of(sl[-1].data['value'].single_atom()).get('mask') == final
    chk.ob('C17-a', 'U-scale', f.key, 'new pixel scale = old / scale on both axes', oka and n_ps > 0, '', f.loc())
    # "divides by exactly s": the quotient old/s is one correctly rounded operation; old * (1/s) rounds twice and differs in the
    # last bit for many (old, s) - and pixel scales are compared with == when planes are combined
    recip, n_div = [], 0

    def is_recip(n_):
        return isinstance(n_, ast.BinOp) and isinstance(n_.op, ast.Div) and isinstance(n_.left, ast.Constant) and \
            n_.left.value in (1, 1.0) and isinstance(n_.right, ast.Name) and n_.right.id == 'scale'
    recip_names = {t.id for n_ in ast.walk(f.node) if isinstance(n_, ast.Assign) and is_recip(n_.value)
                   for t in n_.targets if isinstance(t, ast.Name)}
    for n_ in ast.walk(f.node):
        if isinstance(n_, ast.Assign) and any(isinstance(t, ast.Attribute) and t.attr in ('_pixelscale', 'pixelscale') for t in n_.targets):
            n_div += 1
            for x in ast.walk(n_.value):
                if is_recip(x) or (isinstance(x, ast.Name) and x.id in recip_names):
                    recip.append(f.loc(n_))
    chk.ob('C17-a', 'N-rounding', f.key, 'the pixel scale is divided by the factor (not multiplied by a precomputed reciprocal)',
           (not recip) if (n_div or recip) else None,
           (f'1/scale is formed at {sorted(set(recip))[0]} and multiplied in: x*(1/s) and x/s differ in the last bit for many values '
            '(e.g. 1/240 with s = 1.5), so the rescaled plane no longer equals one built at pixelscale/s') if recip
           else f'{n_div} division(s), none forms the reciprocal of the scale factor', f.loc())
    chk.ob('C17-b', 'D-factor', f.key, 'amplitude = rescale(amplitude, scale)/scale', okb_amp and n_amp > 0, '', f.loc())
    chk.ob('C17-b', 'D-factor', f.key, 'OPD = rescale(opd, scale) without extra factor', okb_opd and n_opd > 0,
           'the OPD is interpolated with a mask: the result is multiplied by the (linearly interpolated) mask' if opd_masked else '', f.loc())
    # amplitude and OPD are smooth maps: one interpolation order for both, whatever the scale factor (a lower order for
    # shrinking changes the values off the old sample positions by orders of magnitude more than the spline does)
    chk.ob('C17-b', 'N-sibling', f.key, 'amplitude and OPD are interpolated with one spline order on every path, independent of the scale',
           (len(smooth_orders) == 1) if smooth_orders else None,
           f'orders handed to util.rescale: {sorted(str(o) for o in smooth_orders)}'[:200], f.loc())
    chk.ob('C17-c', 'N-sibling', f.key, 'mask rescaled with order 0 in the monolithic and the segmented branch',
           okc_order and n_mask >= 2, f'{n_mask} mask branch(es)', f.loc())
    mask_rescale_siblings(chk, repo, 'C17-c', rets)
    from .common import mask_index_rule
    mask_index_rule(chk, repo, 'C17-c', ['plane.Plane.rescale', 'plane.Plane.resample', 'util.rescale'])
    chk.ob('C17-c', 'R-binary', f.key, 'mask re-binarised (nonzero -> 1)',
           (okc_bin and n_mask > 0) if (not bin_unknown or not okc_bin) else None,
           f'undecided: no range model for {bin_unknown[0]}' if bin_unknown else 'stored mask has value set {0, 1}', f.loc())
    chk.ob('C17-c', 'R-binary', f.key, 'mask cast to int last', okc_int and n_mask > 0, '', f.loc())
    chk.ob('C17-d', 'D-pairing', f.key, 'plane._slice = _plane_slice(final mask)', okd and n_mask > 0, '', f.loc())
    chk.ob('C17-e', 'E-ownership', f.key, 'works on and returns self.copy()', copy_ok, '', f.loc())
    eff = Effects(repo)
    s = eff.summary(f)
    ws = [w for w in s.writes if w.param == 'self']
    chk.ob('C17-e', 'E-ownership', f.key, 'no write reaches the original plane', not ws,
           '; '.join(f'{w.how} at {w.loc}' for w in ws[:3]), f.loc())
    if repo.has_func('plane.Plane.resample'):
        fr_ = repo.func('plane.Plane.resample')
        ws_ = [w for w in eff.summary(fr_).writes if w.param == 'self']
        chk.ob('C17-e', 'E-ownership', fr_.key, 'no write reaches the original plane', not ws_,
               '; '.join(f'{w.how} on {w.detail} at {w.loc}' for w in ws_[:3]), fr_.loc())
        # ... and what comes back is a plane of its own on every path: the result of rescale (a copy), never the plane itself
        _, rp_, _ = analyse(repo, fr_)
        same = [q for q in returns(rp_) if q.ret == S('self')]
        chk.ob('C17-e', 'E-ownership', fr_.key, 'the resampled plane is a new plane on every path (never the plane itself)',
               (not same) if returns(rp_) else None,
               (f'[{conds_str(same[0])[:80]}] returns self: what is done to the "resampled" plane afterwards (an in-place tilt fit, '
                'an edited OPD) is done to the original') if same else '', fr_.loc())
    # segmented branch: one rescale per segment
    seg_ok = False
    for p in rets:
        for e in p.events:
            if e.kind == 'write' and e.data.get('attr') == '_mask':
                for a in nf.value_atoms(e.data['value']):
                    if is_app(a, 'listcomp'):
                        elt = a[2][0]
                        ea = elt.single_atom() if isinstance(elt, Poly) else None
                        if ea is not None and is_app(ea, 'call:util.rescale'):
                            img = bound_of(ea).get('img')
                            ia = img.single_atom() if isinstance(img, Poly) else None
                            seg_ok = ia is not None and ia[0] == 'idx' and len(a[2]) == 2
    chk.ob('C17-c', 'N-sibling', f.key, 'segmented mask: each segment rescaled on its own (segment structure kept)', seg_ok, '', f.loc())

    fr = repo.func('plane.Plane.resample')
    _, paths, _ = analyse(repo, fr)
    okr = False
    for p in returns(paths):
        rc = p.calls('plane.Plane.rescale')
        if len(rc) == 1:
            sc = rc[0].bound.get('scale')
            ps0 = [nf.index(nf.attr(SELF, a), C(0)) for a in ('pixelscale', '_pixelscale')]
            okr = sc in [x / S('pixelscale') for x in ps0] and p.ret == rc[0].result
    chk.ob('C17-a', 'U-scale', fr.key, 'scale = current pixel scale / requested pixel scale', okr, '', fr.loc())
    nonuni = [p for p in paths if p.status == 'raise' and p.exc == 'NotImplementedError']
    chk.ob('C17-a', 'U-scale', fr.key, 'non-uniform sampling is refused', bool(nonuni), '', fr.loc())

    # ---------------------------------------------------------------- C17-f
    fu = repo.func('util.rescale')
    ish = nf.attr(S('img'), 'shape')
    i0, i1 = nf.index(ish, C(0)), nf.index(ish, C(1))
    for cfg, label, want in (
            ({'shape': NONE, 'mask': NONE}, 'shape=None', (nf.ceil(i0 * scale), nf.ceil(i1 * scale))),
            ({'shape': Tup([S('s0'), S('s1')]), 'mask': NONE}, 'shape pair', (nf.ceil(S('s0') * scale), nf.ceil(S('s1') * scale)))):
        _, paths, _ = analyse(repo, fu, config=cfg, facts={})
        rets = [p for p in returns(paths)]
        if not rets:
            raise AnalysisError(f'util.rescale [{label}]: no path')
        for p in rets:
            if label == 'shape pair' and any(pol and 'isscalar' in fmt(c) for c, pol, _ in p.conds):
                continue
            tag = f'{label}, {conds_str(p)[-60:]}'
            mc = [e for e in p.events if e.kind == 'call' and e.data.get('callee') == 'ext:scipy.ndimage.map_coordinates']
            if not mc:
                raise AnalysisError('util.rescale: map_coordinates calls not found')
            # element [i, j] of the coordinate arrays every map_coordinates call receives, however the grid is built:
            #   rows[i, j] = (i - n_rows_out/2)/scale + n_rows_in/2      cols[i, j] = (j - n_cols_out/2)/scale + n_cols_in/2
            from ..elem import ElemEval, Unsupported
            from ..shapes import Shapes
            i_, j_ = S('@i'), S('@j')
            want_r = (i_ - want[0] / 2) / scale + i0 / 2
            want_c = (j_ - want[1] / 2) / scale + i1 / 2
            okr = okcol = okc = True
            det_r = det_c = ''
            for e in mc:
                coords = e.data['args'][1] if len(e.data['args']) > 1 else (e.data.get('kwargs') or {}).get('coordinates')
                comp = None
                if isinstance(coords, Tup) and len(coords) == 2:
                    comp = list(coords.items)
                elif isinstance(coords, Poly):
                    comp = [nf.index(coords, C(0)), nf.index(coords, C(1))]
                if comp is None:
                    okr = okcol = okc = None
                    det_r = det_c = f'coordinates {fmt(coords)[:100]} not understood'
                    continue
                try:
                    ee = ElemEval(Shapes({}, assume_scalar=True))
                    g0, g1 = ee.at(comp[0], (i_, j_)), ee.at(comp[1], (i_, j_))
                except Unsupported as ex:
                    okr = okcol = okc = None
                    det_r = det_c = f'undecided: {ex}'
                    continue
                good_r, good_c = g0 == want_r, g1 == want_c
                swapped = g0 == nf.subst_value(want_c, {}) and False
                if okr is not None:
                    okr = okr and good_r
                    okcol = okcol and good_c
                    # rows first: component 0 must vary with the row index, component 1 with the column index
                    varies0 = ('sym', '@i') in nf.value_atoms(g0) and ('sym', '@j') not in nf.value_atoms(g0)
                    varies1 = ('sym', '@j') in nf.value_atoms(g1) and ('sym', '@i') not in nf.value_atoms(g1)
                    okc = okc and varies0 and varies1
                det_r = det_r or f'rows[i,j] = {fmt(g0)[:160]}'
                det_c = det_c or f'cols[i,j] = {fmt(g1)[:160]}'
            chk.ob('C17-f', 'N-shape', fu.key, f'column coordinates span ceil(n_cols*scale) samples of the column axis [{tag}]',
                   okcol, det_c, fu.loc(mc[0].node))
            chk.ob('C17-f', 'N-shape', fu.key, f'row coordinates span ceil(n_rows*scale) samples of the row axis [{tag}]',
                   okr, det_r, fu.loc(mc[0].node))
            chk.ob('C17-f', 'U-axis', fu.key, f'all {len(mc)} map_coordinates calls get [row coordinates, column coordinates] [{tag}]',
                   okc, '', fu.loc(mc[0].node))


def dtype_closure(chk, repo, clause):
    """Plane.rescale stores an integer mask and hands plane._mask to util.rescale: a rescaled plane can only be rescaled
    again (or a plane with an integer mask at all) if util.rescale never applies a floating-point-only operation -
    np.finfo of the array type, an in-place update with a floating factor - to an array that still has its input's type."""
    from .. import dtypes
    fr = repo.func('plane.Plane.rescale')
    _, rp, _ = analyse(repo, fr)
    stored_int = passes_mask = False
    for p in returns(rp):
        for e in p.events:
            if e.kind == 'write' and e.data.get('how') == 'attrstore' and e.data.get('attr') == '_mask':
                if 'int' in dtypes.kinds(e.data['value']) and dtypes.kinds(e.data['value']) != dtypes.ANY:
                    stored_int = True
                for a in nf.value_atoms(e.data['value']):
                    if is_app(a, 'call:util.rescale'):
                        img = bound_of(a).get('img')
                        if img is not None and any(x[0] == 'attr' and x[2] in ('_mask', 'mask') for x in nf.value_atoms(img)):
                            passes_mask = True
    fu = repo.func('util.rescale')
    bad_finfo, bad_inplace, n_f, n_i = [], [], 0, 0
    for cfg in ({'mask': NONE}, {'mask': S('mask')}):
        _, paths, _ = analyse(repo, fu, config=cfg)
        for p in returns(paths):
            known = dtypes.constraints(p.conds)
            for e in p.events:
                if e.kind == 'call' and str(e.data.get('callee', '')).endswith('numpy.finfo') and e.data.get('args'):
                    n_f += 1
                    arg = e.data['args'][0]
                    aa = arg.single_atom() if isinstance(arg, Poly) else None
                    if aa is not None and aa[0] == 'attr' and aa[2] == 'dtype':
                        ks = dtypes.kinds(Poly.atom(aa[1]), known)
                        wrong = sorted(ks - dtypes.FLOATING)
                        if wrong and ks != dtypes.ANY or (ks == dtypes.ANY and _inherits_param(aa[1], known)):
                            bad_finfo.append(f'np.finfo of an array that is {"/".join(wrong)} when the input is '
                                             f'[{conds_str(p)[:80]}] @ {e.loc()}')
                if e.kind == 'write' and e.data.get('how') == 'augassign' and e.data.get('op') in ('mul', 'div', 'add', 'sub'):
                    n_i += 1
                    tk = dtypes.kinds(e.target, known) if isinstance(e.target, Poly) else dtypes.ANY
                    rk = dtypes.kinds(e.data.get('value'), known)
                    narrow = {k for k in tk if k in ('bool', 'int')}
                    if narrow and (rk & dtypes.FLOATING) and _inherits_param(e.target.single_atom(), known):
                        bad_inplace.append(f'in-place {e.data.get("op")} of a floating factor into an array that is '
                                           f'{"/".join(sorted(narrow))} when the input is [{conds_str(p)[:80]}] @ {e.loc()}')
    who = 'Plane.rescale stores an integer mask and passes plane._mask as img' if stored_int and passes_mask else \
        'lentil.rescale is public: integer images are legal input'
    chk.ob(clause, 'T-dtype', fu.key, 'np.finfo is only taken of floating-point arrays', (not bad_finfo) if n_f else None,
           ('; '.join(sorted(set(bad_finfo))[:2]) + f' ({who})') if bad_finfo else f'{n_f} finfo call(s) on the paths; {who}', fu.loc())
    chk.ob(clause, 'T-dtype', fu.key, 'in-place updates with floating factors only hit floating-point arrays',
           (not bad_inplace) if n_i else None,
           ('; '.join(sorted(set(bad_inplace))[:2]) + f' ({who})') if bad_inplace else f'{n_i} in-place update(s) on the paths', fu.loc())


def _inherits_param(atom, known):
    """the array still has the type of an (unconstrained) parameter"""
    from .. import dtypes
    seen = [atom]
    for _ in range(12):
        a = seen[-1]
        if a is None:
            return False
        if a[0] == 'sym':
            return known.get(a, dtypes.ANY) - dtypes.FLOATING != frozenset()
        if a[0] == 'app' and a[1] in dtypes.SAME_AS_FIRST | {'real'} and a[2] and isinstance(a[2][0], Poly):
            seen.append(a[2][0].single_atom())
            continue
        return False
    return False


def mask_rescale_siblings(chk, repo, clause, rets=None):
    """The global (2-D) and the per-segment (3-D) mask are interpolated with identical settings, so
    that the rescaled segment masks tile the rescaled global mask."""
    f = repo.func('plane.Plane.rescale')
    if rets is None:
        _, paths, _ = analyse(repo, f)
        rets = returns(paths)
    settings = {}
    for p in rets:
        for e in p.events:
            if e.kind == 'write' and e.data.get('how') == 'attrstore' and e.data.get('attr') == '_mask':
                for a in nf.value_atoms(e.data['value']):
                    if is_app(a, 'call:util.rescale'):
                        b = bound_of(a)
                        key = tuple(sorted((k, nf.vkey(v)) for k, v in b.items() if k != 'img'))
                        seg = any(x[0] == 'iter' for x in nf.value_atoms(b.get('img')))
                        settings.setdefault(key, set()).add('segmented' if seg else 'global')
    kinds = set().union(*settings.values()) if settings else set()
    if kinds != {'segmented', 'global'}:
        chk.undecided(clause, 'N-sibling', f.key, 'global and per-segment masks are interpolated with the same settings',
                      f'mask rescale calls found for: {sorted(kinds)}', f.loc())
        return
    det = '; '.join(f'{sorted(v)}: ' + ', '.join(f'{k}={val}' for k, val in key if k in ('order', 'mode', 'unitary', 'scale'))
                    for key, v in settings.items())
    chk.ob(clause, 'N-sibling', f.key, 'global and per-segment masks are interpolated with the same settings',
           len(settings) == 1, det[:400], f.loc())


def _astype_int(v):
    return v
