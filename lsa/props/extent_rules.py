"""Normal-form identities of the extent / window bookkeeping (shared by C02,
C06, C20)."""
from .. import nf
from ..nf import Poly, Tup, Const, Slice, NONE
from ..model import AnalysisError
from ..rules import run as analyse, returns, fmt, is_app, S, C, pair, quad, conds_str

HALF = lambda x: nf.floor(x / 2)


def extent_inline(repo):
    """The functions of extent.py are small pure index arithmetic: rules about one of them evaluate the
    others it delegates to, however the work is split between them."""
    return [f.key for f in repo.all_functions() if f.module.name == 'extent']


def one_path(repo, key, config=None, inline=(), facts=None, types=None):
    f, paths, ip = analyse(repo, key, config=config, inline=inline, facts=facts, types=types)
    rets = returns(paths)
    if len(rets) != 1:
        raise AnalysisError(f'{key}: expected one returning path under {sorted((config or {}).keys())}, got {len(rets)}')
    return f, rets[0]


def swap_map(pairs=(), quads=(), extra=None):
    """Simultaneous substitution exchanging row and column components."""
    m = {}
    for p in pairs:
        a, b = p.items
        m[a.single_atom()] = b
        m[b.single_atom()] = a
    for q in quads:
        i = q.items
        m[i[0].single_atom()] = i[2]
        m[i[2].single_atom()] = i[0]
        m[i[1].single_atom()] = i[3]
        m[i[3].single_atom()] = i[1]
    m.update(extra or {})
    return m


def swap_result(v):
    if isinstance(v, Tup):
        if len(v) == 2 and all(isinstance(i, Tup) for i in v.items):      # ((arow, acol), (brow, bcol))
            return Tup([swap_result(i) for i in v.items], v.kind)
        if len(v) == 2:
            return Tup([v.items[1], v.items[0]], v.kind)
        if len(v) == 4:
            i = v.items
            return Tup([i[2], i[3], i[0], i[1]], v.kind)
    return v


def equivariant(chk, clause, repo, key, config, pairs=(), quads=(), extra=None, inline=(), facts=None):
    """f(swap(inputs)) == swap(f(inputs)) on every path, compared on normal forms."""
    f, paths, _ = analyse(repo, key, config=config, inline=inline, facts=facts)
    rets = returns(paths)
    if not rets:
        raise AnalysisError(f'{key}: no returning path')
    m = swap_map(pairs, quads, extra)
    # pair up paths by their swapped conditions
    by_cond = {}
    for p in rets:
        k = frozenset((nf.vkey(c), pol) for c, pol, _ in p.conds)
        by_cond[k] = p
    partner = {id(p): by_cond.get(frozenset((nf.vkey(nf.subst_value(c, m)), pol) for c, pol, _ in p.conds)) for p in rets}
    if any(q is None for q in partner.values()):
        # the case split itself is not symmetric (e.g. a row test that returns before the column test): compare the
        # function with its row/column-exchanged self on every ordering of the integers the conditions compare
        from .. import order
        swapped = [order.P([(nf.subst_value(c, m), pol, n) for c, pol, n in p.conds], nf.subst_value(p.ret, m)) for p in rets]
        plain = [order.P(p.conds, swap_result(p.ret)) for p in rets]
        boolean = all(order._is_order_term(p.ret) for p in rets)
        verdict, why = order.compare_paths(swapped, plain, None if boolean else (lambda x, y: x == y))
        chk.ob(clause, 'N-equivariance', key, 'axis swap [all orderings of the compared bounds]', verdict,
               ('exchanging rows and columns of the arguments changes the result for ' + str(why)) if verdict is False else
               (f'not decided: {why}' if verdict is None else f'{len(rets)} paths agree with their exchanged selves'), f.loc())
        return
    for p in rets:
        q = partner[id(p)]
        lhs = nf.subst_value(p.ret, m)
        rhs = swap_result(q.ret)
        chk.ob(clause, 'N-equivariance', key, f'axis swap [{conds_str(p)}]', lhs == rhs,
               f'exchanging rows and columns of the arguments gives {fmt(lhs)}; exchanging them in the result gives {fmt(rhs)}',
               f.loc(p.node))


def extent_identities(chk, repo, clause):
    """C02-f / C06-b: identities of lentil.extent."""
    shape, shift, parent = pair('shape'), pair('shift'), pair('parent_shape')
    for cfg, label in (({'shape': shape, 'shift': shift, 'parent_shape': NONE}, 'no parent'),
                       ({'shape': shape, 'shift': shift, 'parent_shape': parent}, 'with parent')):
        f, p = one_path(repo, 'extent.array_extent', cfg)
        r = p.ret
        if not (isinstance(r, Tup) and len(r) == 4):
            raise AnalysisError('array_extent does not return a 4-tuple')
        rmin, rmax, cmin, cmax = r.items
        for ax, lo, hi in ((0, rmin, rmax), (1, cmin, cmax)):
            chk.ob(clause, 'N-identity', 'extent.array_extent', f'axis {ax} length [{label}]',
                   hi - lo + 1 == shape.items[ax],
                   f'max-min+1 = {fmt(hi - lo + 1)}, expected {fmt(shape.items[ax])}', f.loc(p.node))
            want = shift.items[ax] - HALF(shape.items[ax]) + (HALF(parent.items[ax]) if label == 'with parent' else 0)
            chk.ob(clause, 'N-identity', 'extent.array_extent', f'axis {ax} origin at floor(n/2) [{label}]',
                   lo == want, f'min = {fmt(lo)}, expected {fmt(want)}', f.loc(p.node))
        if label == 'no parent':
            f2, p2 = one_path(repo, 'extent.array_center', {'extent': r})
            chk.ob(clause, 'N-identity', 'extent.array_center', 'array_center(array_extent(shape, shift)) = shift',
                   p2.ret == Tup(shift.items), f'center = {fmt(p2.ret)}, expected {fmt(shift)}', f2.loc(p2.node))
    a, b = quad('a'), quad('b')
    f, p = one_path(repo, 'extent.intersection_extent', {'a': a, 'b': b})
    ie = p.ret
    want = Tup([nf.app('max', a.items[0], b.items[0]), nf.app('min', a.items[1], b.items[1]),
                nf.app('max', a.items[2], b.items[2]), nf.app('min', a.items[3], b.items[3])])
    chk.ob(clause, 'N-identity', 'extent.intersection_extent', 'max of mins, min of maxes', ie == want,
           f'returns {fmt(ie)}; expected {fmt(want)}', f.loc(p.node))
    if not (isinstance(ie, Tup) and len(ie) == 4):
        raise AnalysisError('intersection_extent does not return a 4-tuple')
    irmin, irmax, icmin, icmax = ie.items
    f, p = one_path(repo, 'extent.intersection_shift', {'a': a, 'b': b}, inline=extent_inline(repo))
    f2, p2 = one_path(repo, 'extent.array_center', {'extent': ie})
    chk.ob(clause, 'N-identity', 'extent.intersection_shift', '= array_center(intersection_extent)',
           p.ret == p2.ret, f'{fmt(p.ret)} vs {fmt(p2.ret)}', f.loc(p.node))
    f, spaths, _ = analyse(repo, 'extent.intersection_slices', config={'a': a, 'b': b}, inline=extent_inline(repo))
    # the path on which the slices are built (a version that goes through intersection_shape also has a path for the empty
    # intersection, which returns no window)
    cand = [q for q in returns(spaths) if isinstance(q.ret, Tup) and len(q.ret) == 2 and
            all(isinstance(x, Tup) and len(x) == 2 and all(isinstance(y, Slice) for y in x.items) for x in q.ret.items)]
    if not cand:
        raise AnalysisError('extent.intersection_slices: no path returning ((row, col), (row, col))')
    for p, nm, sa, sb, lo, hi, amin, bmin in [(q, *t) for q in cand for t in (
            ('row', q.ret.items[0].items[0], q.ret.items[1].items[0], irmin, irmax, a.items[0], b.items[0]),
            ('col', q.ret.items[0].items[1], q.ret.items[1].items[1], icmin, icmax, a.items[2], b.items[2]))]:
        la, lb = sa.hi - sa.lo, sb.hi - sb.lo
        from ..rules import identity_holds
        chk.ob(clause, 'N-identity', 'extent.intersection_slices', f'{nm} slices have the intersection length',
               la == lb and identity_holds(la, hi - lo + 1), f'lengths {fmt(la)} / {fmt(lb)}; intersection {fmt(hi - lo + 1)}',
               f.loc(p.node))
        chk.ob(clause, 'N-identity', 'extent.intersection_slices', f'{nm} slices start at the intersection',
               identity_holds(sa.lo + amin, lo) and identity_holds(sb.lo + bmin, lo),
               f'absolute starts {fmt(sa.lo + amin)} / {fmt(sb.lo + bmin)}; intersection starts at {fmt(lo)}',
               f.loc(p.node))
    # intersection_shape
    f, paths, _ = analyse(repo, 'extent.intersection_shape', config={'a': a, 'b': b}, inline=extent_inline(repo))
    rets = returns(paths)
    full = [p for p in rets if isinstance(p.ret, Tup) and len(p.ret) == 2]
    empty = [p for p in rets if isinstance(p.ret, Tup) and len(p.ret) == 0]
    ok = len(full) == 1 and full[0].ret == Tup([irmax - irmin + 1, icmax - icmin + 1]) and len(empty) >= 1
    chk.ob(clause, 'N-identity', 'extent.intersection_shape', 'shape of the intersection, () when empty', ok,
           f'non-empty: {[fmt(p.ret) for p in full]}; empty paths: {len(empty)}', f.loc())
    if full:
        nr, nc = irmax - irmin + 1, icmax - icmin + 1
        wantc = nf.app('or', nf.app('le', nr, C(0)), nf.app('le', nc, C(0)))
        conds = [c for c, pol, _ in full[0].conds if pol is False]
        chk.ob(clause, 'N-identity', 'extent.intersection_shape', 'empty exactly when a length is <= 0',
               len(conds) == 1 and conds[0] == wantc,
               f'non-empty path guarded by not {[fmt(c) for c in conds]}; expected not {fmt(wantc)}', f.loc())
    # intersect
    f, paths, _ = analyse(repo, 'extent.intersect', config={'a': a, 'b': b}, inline=extent_inline(repo))
    rets = returns(paths)
    wantb = nf.app('and', nf.app('le', a.items[0], b.items[1]), nf.app('le', b.items[0], a.items[1]),
                   nf.app('le', a.items[2], b.items[3]), nf.app('le', b.items[2], a.items[3]))
    if len(rets) == 1 and rets[0].ret == wantb:
        chk.ob(clause, 'N-identity', 'extent.intersect', 'overlap predicate', True, f'returns {fmt(wantb)}', f.loc(rets[0].node))
    else:
        # written some other way (early returns, strict comparisons of shifted bounds, De Morgan): a predicate of
        # comparisons is decided by its value on every ordering of the compared integers
        from .. import order
        verdict, why = order.compare(rets, wantb)
        chk.ob(clause, 'N-identity', 'extent.intersect', 'overlap predicate', verdict,
               (f'differs from {fmt(wantb)} for {why}' if verdict is False else
                f'not decided: {why}' if verdict is None else f'{len(rets)} paths, equal to {fmt(wantb)} on every ordering'),
               f.loc())


def extent_equivariance(chk, repo, clause):
    shape, shift, parent = pair('shape'), pair('shift'), pair('parent_shape')
    a, b, ext = quad('a'), quad('b'), quad('extent')
    equivariant(chk, clause, repo, 'extent.array_extent', {'shape': shape, 'shift': shift, 'parent_shape': NONE},
                pairs=[shape, shift])
    equivariant(chk, clause, repo, 'extent.array_extent', {'shape': shape, 'shift': shift, 'parent_shape': parent},
                pairs=[shape, shift, parent])
    equivariant(chk, clause, repo, 'extent.array_center', {'extent': ext}, quads=[ext])
    for fn in ('intersect', 'intersection_extent', 'intersection_shape', 'intersection_slices', 'intersection_shift'):
        equivariant(chk, clause, repo, f'extent.{fn}', {'a': a, 'b': b}, quads=[a, b],
                    inline=extent_inline(repo))
    # propagate._mask_shape / _mask_shift use lentil.boundary(x, threshold)
    for fn in ('_mask_shape', '_mask_shift'):
        if not repo.has_func(f'propagate.{fn}'):
            chk.undecided(clause, 'N-equivariance', f'propagate.{fn}', 'axis swap', 'helper no longer exists under this name', '')
            continue
        f, paths, _ = analyse(repo, f'propagate.{fn}', inline=extent_inline(repo))
        calls = [c for p in paths for c in p.calls('util.boundary')]
        if not calls:
            chk.undecided(clause, 'N-equivariance', f'propagate.{fn}', 'axis swap', 'not computed from lentil.boundary', f.loc())
            continue
        bq = Tup([nf.index(calls[0].result, C(i)) for i in range(4)])
        xs = Tup([nf.index(nf.attr(S('x'), 'shape'), C(0)), nf.index(nf.attr(S('x'), 'shape'), C(1))], 'vec')
        equivariant(chk, clause, repo, f'propagate.{fn}', None, pairs=[xs], quads=[bq], inline=extent_inline(repo))


def _same_items(a, b):
    """equal as sequences of numbers, whether written as a tuple or as a small array"""
    return isinstance(a, Tup) and isinstance(b, Tup) and len(a) == len(b) and all(x == y for x, y in zip(a.items, b.items))


def mask_window_identities(chk, repo, clause):
    """_mask_shape = extent lengths; _mask_shift = array_center(boundary) - floor(shape/2)."""
    f, p = one_path(repo, 'propagate._mask_shape', inline=extent_inline(repo))
    calls = p.calls('util.boundary')
    if not calls:
        # the window has to reach from the first to the last masked row / column: anything that is not derived from the
        # bounding box (e.g. a count of occupied rows) is too small for masks with gaps
        chk.ob(clause, 'N-identity', 'propagate._mask_shape', 'bounding-box lengths', False if 'x' in f.param_names() else None,
               (f'returns {fmt(p.ret)[:160]}, which is not computed from the bounding box of the mask' if 'x' in f.param_names() else
                'undecided: the helper no longer takes the mask (the bounding box is handed in): the window is judged where it is used'),
               f.loc(p.node))
    else:
        bq = [nf.index(calls[0].result, C(i)) for i in range(4)]
        chk.ob(clause, 'N-identity', 'propagate._mask_shape', 'bounding-box lengths',
               _same_items(p.ret, Tup([bq[1] - bq[0] + 1, bq[3] - bq[2] + 1])), f'returns {fmt(p.ret)}', f.loc(p.node))
    f, p = one_path(repo, 'propagate._mask_shift', inline=extent_inline(repo))
    calls = p.calls('util.boundary')
    if not calls:
        chk.ob(clause, 'N-identity', 'propagate._mask_shift', 'centre of the bounding box relative to floor(n/2)',
               False if 'x' in f.param_names() else None,
               (f'returns {fmt(p.ret)[:160]}, which is not computed from the bounding box of the mask' if 'x' in f.param_names() else
                'undecided: the helper no longer takes the mask (the bounding box is handed in): the window is judged where it is used'),
               f.loc(p.node))
        return
    bq = [nf.index(calls[0].result, C(i)) for i in range(4)]
    xs = nf.attr(S('x'), 'shape')
    want = Tup([bq[0] + HALF(bq[1] - bq[0] + 1) - HALF(nf.index(xs, C(0))),
                bq[2] + HALF(bq[3] - bq[2] + 1) - HALF(nf.index(xs, C(1)))])
    chk.ob(clause, 'N-identity', 'propagate._mask_shift', 'centre of the bounding box relative to floor(n/2)',
           _same_items(p.ret, want), f'returns {fmt(p.ret)}; expected {fmt(want)}', f.loc(p.node))
