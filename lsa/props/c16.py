"""C16 - detector chain: right quantum efficiency at every pixel, exact digitisation."""
import ast

from .. import nf, bind
from ..nf import Poly, Tup, Const, Slice, NONE, TRUE, FALSE
from ..effects import Effects
from ..model import AnalysisError
from ..ranges import Ranges
from ..rules import run as analyse, returns, fmt, is_app, S, C, conds_str, none_state
from ..shapes import kw, positional

EXACT_REPLICATORS = ('repeat', 'kron', 'tile')


def einsums(v):
    return [a for a in nf.value_atoms(v) if is_app(a, 'einsum')]


def spec_of(a):
    s = a[2][0]
    return s.value if isinstance(s, Const) else None


def run(chk, repo, tier):
    from .common import no_hidden_state
    no_hidden_state(chk, repo, 'C16')
    chk.clause('C16-o', 'the detector chain leaves the frames and efficiencies it is given untouched', 5)
    from .common import operands_untouched
    operands_untouched(chk, repo, 'C16-o', ['detector.collect_charge', 'detector.collect_charge_bayer', 'detector.adc', 'detector.pixelate', 'detector.pixel', 'detector.qe_asarray'], allow=[])
    chk.clause('C16-a', "charge is the sum over the wavelength axis only: einsum('ijk,i->jk')", 4)
    chk.clause('C16-b', 'every efficiency goes through qe_asarray, which forwards waveunit to Spectrum.sample', 5)
    chk.clause('C16-c', 'the three colour blocks are equal modulo colour; flatten = sum of the three', 4)
    chk.clause('C16-d', 'the mosaic is expanded by an exact integer replicator', 3)
    chk.clause('C16-e', 'the input frame of adc is untouched', 1)
    chk.clause('C16-f', 'gain form <-> einsum subscripts per gain.ndim; scalar gain lifted to 1-D', 4)
    chk.clause('C16-g', 'power cube: row d carries exponent order with d + order = model_order', 1)
    chk.clause('C16-h', 'floor, then clamp at zero, then cast; saturation clip precedes the gain; warning predicate = clip predicate', 4)
    chk.clause('C16-j', 'every given capacity clips; clip and powers happen in a double-precision frame whatever the input type', 4)
    chk.clause('C16-i', 'colour pattern tiled over the native pixel grid (rows, cols of the cube) and replicated oversample x oversample', 3)
    chk.not_decided += ['linearity in photons and QE numerically', 'monotonicity']

    from .extra_rules import bayer_tiling_rule
    with chk.guard('C16-i', 'detector.collect_charge_bayer'):
        bayer_tiling_rule(chk, repo, 'C16-i')
    # ------------------------------------------------------------ C16-a / b
    from .extra_rules import sample_order_rule, bayer_string_rule
    # an efficiency curve is a Spectrum without a value unit: sampling it in another wavelength unit converts the wavelengths
    # and leaves the efficiencies alone (C14-c decides Spectrum.to)
    from . import c14 as _c14
    from .common import Remap as _Remap16
    from ..resilient import run_nested as _run_nested16
    nd16 = list(chk.not_decided)
    _run_nested16(_c14, _Remap16(chk, {'C14-c': 'C16-b'}), repo, tier)
    chk.not_decided[:] = nd16
    sample_order_rule(chk, repo, 'C16-b')
    bayer_string_rule(chk, repo, 'C16-i')
    # the efficiency look-up (qe_asarray or whatever does its job) is evaluated with the function
    spectrum = repo.cls('radiometry.Spectrum')
    inl = ['detector.qe_asarray'] if repo.has_func('detector.qe_asarray') else []
    f, paths, _ = analyse(repo, 'detector.collect_charge', inline=inl)
    for p in returns(paths):
        es = einsums(p.ret)
        ok = len(es) == 1 and spec_of(es[0]) == 'ijk,i->jk'
        imgarg = es[0][2][1] if es else None
        warg = es[0][2][2] if es else None
        ok = ok and imgarg is not None and ('sym', 'img') in nf.value_atoms(imgarg) and \
            warg is not None and ('sym', 'qe') in nf.value_atoms(warg) and ('sym', 'qe') not in nf.value_atoms(imgarg)
        chk.ob('C16-a', 'U-einsum', f.key, f'charge = einsum over wavelength of img with the efficiency [{conds_str(p)[-80:]}]', ok,
               f'{nf.fmt_atom(es[0])[:160]}' if es else 'no einsum', f.loc(p.node))
    f, paths, _ = analyse(repo, 'detector.collect_charge', inline=inl, types={('sym', 'qe'): spectrum})
    oks, n, det = True, 0, ''
    for p in returns(paths):
        smp = p.calls('radiometry.Spectrum.sample')
        if not smp:
            continue
        n += 1
        es = einsums(p.ret)
        e = smp[0]
        good = len(smp) == 1 and len(es) == 1 and es[0][2][2] == e.result and e.bound.get('self') == S('qe') and \
            nf.strip_apps(e.bound.get('wave')) == S('wave') and e.bound.get('waveunit') == S('waveunit') and \
            (e.data.get('kwargs', {}).get('waveunit') is not None or len(e.data.get('args', [])) >= 4)
        if not good:
            oks, det = False, f'sample(wave={fmt(e.bound.get("wave"))[:40]}, waveunit={fmt(e.bound.get("waveunit"))[:40]})'
    chk.ob('C16-b', 'D-flow', f.key, 'a Spectrum efficiency is sampled at `wave` in the caller\'s `waveunit` and weights the planes',
           oks and n > 0, det or f'{n} path(s)', f.loc())
    if repo.has_func('detector.qe_asarray'):
        fq, qp, _ = analyse(repo, 'detector.qe_asarray', types={('sym', 'qe'): spectrum})
        oks, n = True, 0
        for p in returns(qp):
            for e in p.calls('radiometry.Spectrum.sample'):
                n += 1
                oks = oks and e.bound.get('waveunit') == S('waveunit') and e.bound.get('wave') == S('wave') and \
                    e.data.get('kwargs', {}).get('waveunit') is not None
        chk.ob('C16-b', 'B5-default', fq.key, 'waveunit is passed explicitly to Spectrum.sample', oks and n > 0, '', fq.loc())
        # outside the band an efficiency curve is tabulated for nothing is detected: the samples there are the default fill, 0
        okf, detf, nf_ = True, '', 0
        for p in returns(qp):
            for e in p.calls('radiometry.Spectrum.sample'):
                nf_ += 1
                fv = e.bound.get('fill_value')
                if fv is not None and not (isinstance(fv, Poly) and fv.is_zero()):
                    okf, detf = False, f'fill_value = {fmt(fv)[:80]}: wavelengths outside the tabulated range are given an efficiency'
        chk.ob('C16-b', 'B5-default', fq.key, 'an efficiency curve is zero outside the wavelengths it is tabulated for', okf and nf_ > 0,
               detf, fq.loc())

    fb = repo.func('detector.collect_charge_bayer')
    # each colour block is an array of its own: an in-place operation on something taken out of a container that all three
    # channels use (a memo of the spectral sums keyed by the efficiency vector) masks the shared array three times over -
    # equal efficiencies give an all-zero frame
    _, bpaths, _ = analyse(repo, fb, config={'flatten': TRUE})
    shared = []
    for p in returns(bpaths):
        for e in p.events:
            if e.kind == 'write' and e.data.get('how') == 'augassign':
                ta = e.target.single_atom() if isinstance(e.target, Poly) else None
                if ta is not None and ta[0] == 'idx' and is_app(ta[1], ('dict', 'list', 'defaultdict', 'collections.defaultdict', 'OrderedDict')):
                    shared.append(f'in-place {e.data.get("op", "operator")} on {fmt(e.target)[:70]} at {e.loc()}')
    # ... nor is a running total started as another name for one of the blocks (`out = channels[-1]` followed by `out += ...`
    # adds the other channels into the red block that is handed out with flatten=False)
    import ast as _ast
    assigns = {}
    for node in _ast.walk(fb.node):
        if isinstance(node, _ast.Assign) and len(node.targets) == 1 and isinstance(node.targets[0], _ast.Name):
            assigns.setdefault(node.targets[0].id, []).append(node.value)
    for node in _ast.walk(fb.node):
        if isinstance(node, _ast.AugAssign) and isinstance(node.target, _ast.Name):
            for rhs in assigns.get(node.target.id, []):
                src = None
                if isinstance(rhs, _ast.Name):
                    src = rhs.id
                elif isinstance(rhs, _ast.Subscript) and isinstance(rhs.value, _ast.Name):
                    src = rhs.value.id
                if src is None or src == node.target.id:
                    continue
                later = [n_ for n_ in _ast.walk(fb.node) if isinstance(n_, _ast.Name) and n_.id == src and isinstance(n_.ctx, _ast.Load)
                         and (n_.lineno, n_.col_offset) > (node.lineno, node.col_offset)]
                if later:
                    shared.append(f'`{node.target.id}` is another name for `{fb.module.segment(rhs)[:30]}` and is updated in place at {fb.loc(node)}, '
                                  f'`{src}` is used again at {fb.loc(later[0])}')
    # a channel image split into tiles (reshape to (tiles_r, period, tiles_c, period)) is split along its own axes: the row
    # pair is sized from the row count of the frame, the column pair from the column count
    mixed, n_split = [], 0
    for p in returns(bpaths):
        for a_ in nf.value_atoms(p.ret):
            if not (is_app(a_, ('m:reshape', 'reshape')) and len(a_[2]) == 5 and isinstance(a_[2][0], Poly)):
                continue
            eins = [x for x in nf.value_atoms(a_[2][0]) if is_app(x, 'einsum') and len(x[2]) >= 2 and isinstance(x[2][1], Poly)]
            if not eins:
                continue
            cube = eins[0][2][1]
            r_at, c_at = nf.index(nf.attr(cube, 'shape'), C(1)).single_atom(), nf.index(nf.attr(cube, 'shape'), C(2)).single_atom()
            dims = a_[2][1:5]
            n_split += 1
            for k, d in enumerate(dims):
                at = nf.value_atoms(d) if isinstance(d, Poly) else set()
                wrong = c_at if k < 2 else r_at
                right = r_at if k < 2 else c_at
                if wrong in at and right not in at:
                    mixed.append(f'dimension {k} of the tile view is {fmt(d)[:70]}')
    chk.ob('C16-d', 'U-axis', fb.key, 'tiles of a channel image are cut along its own axes (rows from the row count, columns from the column count)',
           not mixed, '; '.join(sorted(set(mixed))[:2]) or f'{n_split} tile view(s)', fb.loc())
    chk.ob('C16-c', 'E-ownership', fb.key, 'the colour blocks do not share storage', not shared,
           '; '.join(sorted(set(shared))[:2]) or 'no in-place operation on an entry of a container', fb.loc())
    with chk.guard(['C16-a', 'C16-b', 'C16-c', 'C16-d'], fb.key, 'colour channels recognisable in the result'):
        chans_by_path = bayer_channels(repo, chk)
        colours = (('red', 'R'), ('green', 'G'), ('blue', 'B'))
        _, fpaths, _ = analyse(repo, fb, config={'flatten': TRUE})
        for chans in chans_by_path:
            frets = [p for p in returns(fpaths) if frozenset((nf.vkey(c), pl) for c, pl, _ in p.conds) == chans['_conds']]
            for col, letter in colours:
                v, es, qc = chans[col]
                ok = spec_of(es) == 'ijk,i->jk' and ('sym', 'img') in nf.value_atoms(es[2][1])
                chk.ob('C16-a', 'U-einsum', fb.key, f'{col} channel = einsum over wavelength with qe_{col}', ok,
                       nf.fmt_atom(es)[:160], fb.loc())
                b = bound_of(qc)
                okb = b.get('waveunit') == S('waveunit') and b.get('wave') == S('wave')
                chk.ob('C16-b', 'D-flow', fb.key, f'qe_{col} through qe_asarray with the caller\'s waveunit', okb, '', fb.loc())
                mosaic = v / Poly.atom(es)
                ma = mosaic.single_atom() if isinstance(mosaic, Poly) else None
                exact = None
                det = f'mosaic = {fmt(mosaic)[:200]}'
                if ma is not None and is_app(ma):
                    if ma[1] in EXACT_REPLICATORS:
                        exact = True
                    elif ma[1] == 'scipy.ndimage.zoom':
                        gm = kw(ma[2], 'grid_mode')
                        exact = gm == TRUE and kw(ma[2], 'order') == C(0)
                        if not exact:
                            det = ('scipy.ndimage.zoom(order=0) without grid_mode maps output index j to '
                                   'round(j*(n-1)/(k*n-1)), which is not j//k: sub-pixels get the wrong colour from '
                                   'oversample 3 upward')
                    elif ma[1] in ('tile', 'where'):
                        exact = False
                        det = 'the colour pattern is not expanded to the oversampled grid at all'
                chk.ob('C16-d', 'API-contract', fb.key, f'{col} mosaic expanded by an exact replicator', exact, det, fb.loc())
                has = any(isinstance(x, Const) and x.value == letter for a2 in nf.value_atoms(v)
                          if is_app(a2, 'eq') for x in _consts(a2))
                others = any(isinstance(x, Const) and x.value in 'RGB' and x.value != letter for a2 in nf.value_atoms(v)
                             if is_app(a2, 'eq') for x in _consts(a2))
                chk.ob('C16-c', 'T-letter', fb.key, f'{col} kernel selects the letter "{letter}"', has and not others, '', fb.loc())

            def recolour(v, frm, to):
                m = {a2: S(f'qe_{to[0]}') for a2 in nf.value_atoms(v) if a2 == ('sym', f'qe_{frm[0]}')}
                return _swap_const(nf.subst_value(v, m), frm[1], to[1])
            ref = chans['red'][0]
            for col, letter in colours[1:]:
                same = recolour(ref, ('red', 'R'), (col, letter)) == chans[col][0]
                chk.ob('C16-c', 'N-sibling', fb.key, f'{col} block = red block with (qe_red, "R") -> (qe_{col}, "{letter}")', same,
                       '' if same else f'{col}: {fmt(chans[col][0])[:200]}', fb.loc())
            tot = chans['red'][0] + chans['green'][0] + chans['blue'][0]
            okf = bool(frets) and all(p.ret == tot for p in frets)
            chk.ob('C16-c', 'N-sibling', fb.key, 'flattened frame = red + green + blue', okf,
                   '' if okf else f'returns {fmt(frets[0].ret)[:200] if frets else "?"}', fb.loc())

    # ---------------------------------------------------------------- C16-e
    eff = Effects(repo)
    fa = repo.func('detector.adc')
    s = eff.summary(fa)
    ws = [w for w in s.writes if w.param == 'img']
    chk.ob('C16-e', 'E1-write', fa.key, 'input frame untouched', not ws,
           '; '.join(f'{w.how} at {w.loc}' for w in ws[:3]), fa.loc())

    # ------------------------------------------------------------ C16-f / g / h
    gain = S('gain')
    want_spec = {0: ('ijk,i->jk', 1), 1: ('ijk,i->jk', 1), 2: ('ijk,jk->jk', 2), 3: ('ijk,ijk->jk', 3)}
    for nd in (0, 1, 2, 3):
        facts = {nf.attr(gain, 'ndim').single_atom(): C(nd)}
        _, paths, _ = analyse(repo, fa, facts=facts, config={'dtype': NONE, 'saturation_capacity': NONE}, literal_tables=True)
        rets = returns(paths)
        if len(rets) != 1:
            raise AnalysisError(f'adc: gain.ndim={nd} does not fold to one path ({len(rets)})')
        p = rets[0]
        es = einsums(p.ret)
        ok = len(es) == 1 and spec_of(es[0]) == want_spec[nd][0]
        lifted = True
        if nd == 0 and es:
            g = es[0][2][2]
            ga = g.single_atom() if isinstance(g, Poly) else None
            lifted = ga is not None and ga[0] == 'idx' and ((isinstance(ga[2], Tup) and ga[2].items[-1] == NONE) or ga[2] == NONE)
        chk.ob('C16-f', 'T-einsum', fa.key, f'gain.ndim={nd}: gain operand has {want_spec[nd][1]} subscript(s)',
               ok and lifted, f'einsum {spec_of(es[0])!r}' if es else 'no einsum', fa.loc(p.node))
        if nd == 1:
            # C16-g
            okg, det = False, 'power loop not found'
            for lp in p.state.loops:
                for bs in lp['states']:
                    for e in bs.events[lp['n_pre_events']:]:
                        if e.kind == 'write' and e.data.get('how') == 'setitem' and isinstance(e.data.get('value'), Poly):
                            key, val = e.data['key'], e.data['value']
                            ta_ = e.target.single_atom() if isinstance(e.target, Poly) else None
                            if (key == nf.ELLIPSIS or (isinstance(key, nf.Slice) and key.lo in (NONE, None) and key.hi in (NONE, None))) \
                                    and ta_ is not None and ta_[0] == 'idx' and isinstance(ta_[2], Poly):
                                key = ta_[2]        # `plane[...] = ...` on the row view cube[k]: row k is written
                            mono = val.terms[0][0] if len(val.terms) == 1 else None
                            if mono and len(mono) == 1 and mono[0][0][0] == 'idx' or (mono and is_app(mono[0][0], 'pow')):
                                pa = mono[0][0]
                                if is_app(pa, 'pow'):
                                    base, order = pa[2]
                                    ba = base.single_atom()
                                    okg = ba is not None and ba[0] == 'idx' and ba[2] == key and \
                                        key + order == nf.index(nf.attr(gain, 'shape'), C(0))
                                    det = f'img_cube[{fmt(key)}] = img_cube[{fmt(ba[2]) if ba else "?"}]**{fmt(order)}'
            if not okg:
                # the loop written over views of the rows (`for plane, order in zip(cube, orders): plane **= order`): the
                # cube at the end of an iteration is the cube with row k replaced by row k ** order(k)
                for lp in p.state.loops:
                    for ends in lp['ends']:
                        for nm, v in ends.items():
                            va = v.single_atom() if isinstance(v, Poly) else None
                            if va is None or not is_app(va, 'setitem') or not isinstance(va[2][2], Poly):
                                continue
                            key, val = va[2][1], va[2][2]
                            pa = val.single_atom()
                            if pa is not None and is_app(pa, 'pow') and isinstance(key, Poly):
                                base, order = pa[2]
                                ba = base.single_atom() if isinstance(base, Poly) else None
                                if ba is not None and ba[0] == 'idx' and ba[2] == key:
                                    okg = key + order == nf.index(nf.attr(gain, 'shape'), C(0))
                                    det = f'cube[{fmt(key)}] = cube[{fmt(key)}]**{fmt(order)}'
            if not okg:
                # `plane **= exponent` on row views handed out by zip(cube[...], exponents[...])
                for lp in p.state.loops:
                    for bs in lp['states']:
                        for e in bs.events[lp['n_pre_events']:]:
                            if not (e.kind == 'write' and e.data.get('how') == 'augassign' and e.data.get('op') == 'pow'):
                                continue
                            ta = e.target.single_atom() if isinstance(e.target, Poly) else None
                            order = e.data.get('value')
                            oa = order.single_atom() if isinstance(order, Poly) else None
                            if ta is None or ta[0] != 'idx' or not isinstance(ta[2], Poly) or oa is None:
                                continue
                            key = ta[2]
                            if oa[0] == 'idx' and is_app(oa[1], 'arange') and len(oa[1][2]) == 3 and isinstance(oa[2], Poly) \
                                    and all(isinstance(x, Poly) for x in oa[1][2]):
                                order = oa[1][2][0] + oa[2] * oa[1][2][2]          # arange(a, b, c)[k] = a + k*c
                            okg = key + order == nf.index(nf.attr(gain, 'shape'), C(0))
                            det = f'cube[{fmt(key)[:40]}] **= {fmt(order)[:80]}'
            chk.ob('C16-g', 'N-identity', fa.key, 'row d of the power cube gets exponent model_order - d', okg, det, fa.loc())
    # C16-h
    cap = S('saturation_capacity')
    for dt, label in ((NONE, 'dtype=None'), (S('dtype'), 'dtype given')):
        facts = {nf.attr(gain, 'ndim').single_atom(): C(1)}
        _, paths, _ = analyse(repo, fa, facts=facts, config={'dtype': dt, 'warn_saturate': TRUE}, literal_tables=True)
        rets = [p for p in returns(paths)]
        sat = [p for p in rets if _clip_events(p, cap) or any(c == cap and pol for c, pol, _ in p.conds)
               or none_state(p, 'saturation_capacity') is False]
        if dt is not NONE:
            sat = [p for p in sat if none_state(p, 'dtype') is False]
        if not sat:
            raise AnalysisError('adc: saturation path not found')
        for p in sat:
            r = p.ret
            a = r.single_atom() if isinstance(r, Poly) else None
            cast_last = True
            if dt is not NONE:
                cast_last = a is not None and is_app(a, 'm:astype') and a[2][1] == S('dtype')
                r = a[2][0] if cast_last else r
                a = r.single_atom() if isinstance(r, Poly) else None
            clamp = a is not None and is_app(a, 'setitem') and isinstance(a[2][2], Poly) and a[2][2].is_zero()
            fl = False
            if clamp:
                base, key = a[2][0], a[2][1]
                ba = base.single_atom()
                fl = ba is not None and is_app(ba, 'floor') and key == nf.app('lt', base, C(0))
                if fl and not (isinstance(ba[2][0], Poly) and ba[2][0].single_atom() is not None and is_app(ba[2][0].single_atom(), 'einsum')):
                    fl = False          # floor of something other than the gain polynomial itself (an offset, a rounding guard)
            elif a is not None and is_app(a, 'where') and len(a[2]) == 3 and isinstance(a[2][1], Poly) and a[2][1].is_zero() \
                    and isinstance(a[2][2], Poly):
                # np.where(x < 0, 0, x): the same clamp, written as a selection
                base = a[2][2]
                ba = base.single_atom()
                clamp = True
                fl = ba is not None and is_app(ba, 'floor') and a[2][0] == nf.app('lt', base, C(0)) and \
                    isinstance(ba[2][0], Poly) and ba[2][0].single_atom() is not None and is_app(ba[2][0].single_atom(), 'einsum')
            tagp = 'saturated frame' if any(pol and is_app(c.single_atom() or ('x',), 'any') for c, pol, _ in p.conds
                                            if isinstance(c, Poly)) else 'unsaturated frame'
            chk.ob('C16-h', 'D-order', fa.key, f'floor -> clamp at zero -> cast [{label}, {tagp}]',
                   bool(clamp and fl and cast_last), f'result {fmt(p.ret)[:160]}', fa.loc(p.node))
            # the frame the function works on (the input or a copy of it)
            frames = [e.target for e in _clip_events(p, cap)] or [S('img'), nf.app('copy', S('img'))]
            clipped = [nf.app('setitem', fr, nf.app('lt', cap, fr), cap) for fr in frames]
            cube_src = None
            for lp in p.state.loops:
                for nm, pre_v in lp['pre'].items():
                    if isinstance(pre_v, Poly) and any(is_app(x, ('repeat', 'tile', 'broadcast_to', 'stack')) for x in nf.value_atoms(pre_v)):
                        cube_src = pre_v      # the cube of electron counts, whatever the variable is called
            es = einsums(p.ret)
            if cube_src is None and es:
                cube_src = es[0][2][1]
            okc = cube_src is not None and any(c.single_atom() in nf.value_atoms(cube_src) for c in clipped)
            chk.ob('C16-h', 'D-order', fa.key, f'saturation clip feeds the gain polynomial [{label}, {tagp}]', okc,
                   f'cube built from {fmt(cube_src)[:160]}', fa.loc(p.node))
            preds = [nf.app('any', nf.app('lt', cap, fr)) for fr in frames]
            warned = [pol for c, pol, _ in p.conds if c in preds]
            chk.ob('C16-h', 'D-order', fa.key, f'warning predicate is the clip predicate [{label}, {tagp}]',
                   len(warned) == 1, '', fa.loc(p.node))
        # the warning is guarded by warn_saturate
        _, paths2, _ = analyse(repo, fa, facts=facts, config={'dtype': dt, 'warn_saturate': FALSE}, literal_tables=True)
        quiet = all(not any(e.kind == 'call' and e.data.get('callee') == 'ext:warnings.warn' for e in p.events)
                    for p in returns(paths2))
        loud = any(any(e.kind == 'call' and e.data.get('callee') == 'ext:warnings.warn' for e in p.events) for p in sat)
        chk.ob('C16-h', 'D-order', fa.key, f'warning only when requested and saturated [{label}]', quiet and loud, '', fa.loc())
    capacity_rules(chk, repo, fa, 'C16-j')


def _is_frame(v):
    return isinstance(v, Poly) and nf.strip_apps(v, ('copy', 'cast', 'asarray', 'array', 'm:astype', 'm:copy', 'deepcopy')) == S('img')


def _clip_events(p, cap):
    """stores of the capacity into (a copy of) the frame"""
    return [e for e in p.events if e.kind == 'write' and e.data.get('how') == 'setitem' and e.data.get('value') == cap
            and _is_frame(e.target)]


def capacity_rules(chk, repo, fa, clause):
    """Every capacity that is given clips the frame (zero included: `if capacity:` reads 0 as "none"), and the frame the
    capacity is stored into and whose powers are taken is a floating-point one whatever the caller's array holds: an
    integer frame truncates a fractional capacity and wraps img**order."""
    from .. import dtypes
    from .c17 import _inherits_param
    gain, cap = S('gain'), S('saturation_capacity')
    facts = {nf.attr(gain, 'ndim').single_atom(): C(1)}
    _, paths, _ = analyse(repo, fa, facts=facts, config={'dtype': NONE, 'warn_saturate': FALSE}, literal_tables=True)
    ok_cap, det_cap, n_cap = True, '', 0
    ok_clip = ok_pow = None
    det_clip = det_pow = 'not found'
    for p in returns(paths):
        clips = _clip_events(p, cap)
        valued = [a for a in nf.value_atoms(p.ret) if is_app(a, ('minimum', 'clip', 'where', 'fmin')) and cap.single_atom() in nf.value_atoms(Poly.atom(a))]
        if not clips and not valued:
            n_cap += 1
            isnone = [True] if none_state(p, 'saturation_capacity') is True else []
            falsy = [pol for c, pol, _ in p.conds if c == cap and not pol]
            if falsy and not (isnone and isnone[0]):
                ok_cap = False
                det_cap = f'the frame is not clipped when the capacity is merely falsy [{conds_str(p)[:80]}]: a capacity of 0 is ' \
                          'read as "no capacity" and every pixel passes unclipped'
            elif not (isnone and isnone[0]) and ok_cap:
                ok_cap, det_cap = None, f'unclipped path [{conds_str(p)[:80]}]'
        known = dtypes.constraints(p.conds)
        for e in clips:
            ks = dtypes.kinds(e.target, known)
            if ks <= dtypes.FLOATING:
                ok_clip = True if ok_clip is None else ok_clip
                det_clip = f'the capacity is stored into {fmt(e.target)[:80]}'
            elif _inherits_param(e.target.single_atom(), known):
                ok_clip = False
                det_clip = f'the capacity is stored into {fmt(e.target)[:80]}, which keeps the element type of the caller\'s array: ' \
                           'in an integer frame a fractional capacity is truncated before the gain is applied'
        for lp in p.state.loops:
            for nm, pre_v in lp['pre'].items():
                if isinstance(pre_v, Poly) and any(is_app(x, ('repeat', 'tile', 'broadcast_to', 'stack')) for x in nf.value_atoms(pre_v)):
                    powered = any(e.kind == 'write' and e.data.get('how') == 'setitem' and isinstance(e.data.get('value'), Poly)
                                  and any(is_app(x, 'pow') for x in nf.value_atoms(e.data['value']))
                                  for bs in lp['states'] for e in bs.events[lp['n_pre_events']:])
                    if not powered:
                        continue
                    src = [x for x in nf.value_atoms(pre_v) if is_app(x, ('repeat', 'tile', 'broadcast_to', 'stack'))][0]
                    base = src[2][0]
                    ba = base.single_atom() if isinstance(base, Poly) else None
                    while ba is not None and (ba[0] == 'idx' or is_app(ba, ('setitem',))):
                        base = Poly.atom(ba[1]) if ba[0] == 'idx' else ba[2][0]
                        ba = base.single_atom() if isinstance(base, Poly) else None
                    ks = dtypes.kinds(pre_v, known)
                    if ks <= dtypes.FLOATING or dtypes.kinds(base, known) <= dtypes.FLOATING:
                        ok_pow = True if ok_pow is None else ok_pow
                        det_pow = f'powers are taken in {fmt(base)[:80]}'
                    elif ba is not None and _inherits_param(ba, known):
                        ok_pow = False
                        det_pow = f'the powers are stored back into a cube of {fmt(base)[:80]}, which keeps the element type of the ' \
                                  'caller\'s array: img**order wraps in a small integer type'
    # the cube the powers are taken in holds one whole copy of the frame per term: the frame repeated along a NEW leading axis
    # (np.repeat of the rows of the frame, reshaped, puts other pixels' counts at a pixel)
    ok_cube, det_cube = None, 'undecided: construction of the power cube not recognised'
    try:
        _fa = repo.func('detector.adc')
        _, _ap, _ = analyse(repo, _fa)
        for p in returns(_ap):
            for lp in p.state.loops:
                for nm, pre_v in lp['pre'].items():
                    if not isinstance(pre_v, Poly):
                        continue
                    for x in nf.value_atoms(pre_v):
                        if not is_app(x, 'repeat') or not x[2] or not isinstance(x[2][0], Poly):
                            continue
                        src = x[2][0].single_atom()
                        new_axis = src is not None and src[0] == 'idx' and (src[2] == NONE or (isinstance(src[2], Tup) and src[2].items and src[2].items[0] == NONE))
                        reshaped = any(is_app(y, ('m:reshape', 'reshape')) and x in nf.value_atoms(y[2][0]) for y in nf.value_atoms(pre_v)
                                       if y[0] == 'app' and y[2] and isinstance(y[2][0], Poly))
                        if new_axis:
                            ok_cube, det_cube = (True if ok_cube is None else ok_cube), det_cube if ok_cube is False else ''
                        elif reshaped:
                            ok_cube = False
                            det_cube = f'{nf.fmt_atom(x)[:80]} repeats each row of the frame, the reshape then deals the rows out to the wrong planes'
    except AnalysisError:
        pass
    chk.ob('C16-g', 'N-identity', 'detector.adc', 'every plane of the power cube is a whole copy of the frame', ok_cube, det_cube, '')
    # ... in double precision: counts squared exceed the 24-bit mantissa of single precision from 4097 electrons on
    narrow, n_cast = [], 0
    for p in returns(paths):
        vals = [e.target for e in _clip_events(p, cap)]
        for lp in p.state.loops:
            vals += [v for v in lp['pre'].values() if isinstance(v, Poly)]
        for v in vals:
            for a in nf.value_atoms(v):
                if is_app(a, ('cast', 'm:astype')) and len(a[2]) > 1 and _is_frame(a[2][0] if isinstance(a[2][0], Poly) else None):
                    n_cast += 1
                    t = repr(a[2][1])
                    if any(k in t for k in ('float32', 'float16', 'half', 'single', 'promote_types', 'result_type', 'min_scalar_type')):
                        narrow.append(f'the frame is converted to {fmt(a[2][1])[:60]}')
                elif is_app(a, ('array', 'asarray', 'full', 'zeros', 'empty')):
                    for x in a[2]:
                        if isinstance(x, Tup) and 'dtype' in repr(x) and any(k in repr(x) for k in ('float32', 'float16', 'promote_types', 'result_type')):
                            narrow.append(f'the frame is built as {fmt(Poly.atom(a))[:60]}')
    chk.ob(clause, 'T-dtype', fa.key, 'the working frame is double precision (exact for every count the gain polynomial squares)',
           (not narrow) if (n_cast or narrow) else None,
           ('; '.join(sorted(set(narrow))[:2]) + ': float32 holds integers exactly only up to 2**24, so 5001**2 comes out as 25010000') if narrow
           else f'{n_cast} conversion(s) of the frame, none to a narrower floating type', fa.loc())
    chk.ob(clause, 'D-guard', fa.key, 'every capacity that is given clips the frame (a capacity of 0 included)',
           ok_cap if n_cap else None, det_cap or f'{n_cap} unclipped path(s), all with the capacity None', fa.loc())
    chk.ob(clause, 'T-dtype', fa.key, 'the capacity is stored into a floating-point frame', ok_clip, det_clip, fa.loc())
    chk.ob(clause, 'T-dtype', fa.key, 'the powers of the gain polynomial are taken in floating point', ok_pow, det_pow, fa.loc())


def bound_of(atom):
    return {k.items[0].value: k.items[1] for k in atom[2]}


def bayer_channels(repo, chk=None):
    """Per returning path of collect_charge_bayer(flatten=False): colour -> (channel term, einsum atom,
    qe_asarray call atom), identified from the *result* by the efficiency each channel image is built with."""
    f, paths, _ = analyse(repo, 'detector.collect_charge_bayer', config={'flatten': FALSE})
    out = []
    for p in returns(paths):
        r = p.ret
        if not (isinstance(r, Tup) and len(r) == 3 and all(isinstance(i, Poly) and len(i.terms) == 1 for i in r.items)):
            raise AnalysisError(f'collect_charge_bayer(flatten=False) does not return three channel images: {fmt(r)[:160]}')
        chans = {}
        dead = False
        for v in r.items:
            es = [a for a in v.atoms(deep=False) if is_app(a, 'einsum')]
            if not es and nf.strip_apps(v, ('zeros', 'zeros_like')) != v or (isinstance(v, Poly) and v.is_zero()):
                # a channel image that is identically zero on this path: only right where the channel cannot collect anything
                # at all (no pixel of that colour, or an efficiency that is zero at every wavelength)
                from ..rules import literals
                exact = any(pol is False and c.single_atom() is not None and is_app(c.single_atom(), ('any', 'm:any', 'count_nonzero'))
                            for c, pol in literals(p.conds))
                if chk is not None and not exact:
                    chk.ob('C16-c', 'N-sibling', f.key, 'no colour channel is dropped', False,
                           f'a channel image is all zeros under [{conds_str(p)[:120]}]: a test other than "no pixel / no response at '
                           f'all" switches the channel off', f.loc(p.node))
                dead = True
                break
            if len(es) != 1:
                raise AnalysisError('channel image is not einsum(...) * mosaic')
            qcs = [a for a in nf.value_atoms(es[0][2][2]) if is_app(a, 'call:detector.qe_asarray')]
            if len(qcs) != 1:
                raise AnalysisError('channel efficiency does not come from qe_asarray')
            q = bound_of(qcs[0]).get('qe')
            qa = q.single_atom() if isinstance(q, Poly) else None
            col = qa[1][3:] if qa is not None and qa[0] == 'sym' and qa[1].startswith('qe_') else None
            if col in chans and chk is not None:
                chk.ob('C16-c', 'N-sibling', f.key, f'each colour channel uses its own efficiency (qe_{col} used twice)', False,
                       f'two channel images are built with qe_{col}', f.loc())
            if col not in ('red', 'green', 'blue') or col in chans:
                raise AnalysisError(f'channel colour not identified ({fmt(q)})')
            chans[col] = (v, es[0], qcs[0])
        if dead:
            continue
        if set(chans) != {'red', 'green', 'blue'}:
            raise AnalysisError('not all three colour channels found')
        chans['_conds'] = frozenset((nf.vkey(c), pl) for c, pl, _ in p.conds)
        out.append(chans)
    if not out:
        raise AnalysisError('collect_charge_bayer: no returning path')
    return out


def _consts(a):
    out = []
    for x in a[2]:
        if isinstance(x, Const):
            out.append(x)
        elif isinstance(x, Poly):
            sa = x.single_atom()
            if sa is not None and sa[0] == 'val' and isinstance(sa[1], Const):
                out.append(sa[1])
    return out


def _swap_const(v, frm, to):
    """Replace the string constant `frm` by `to` everywhere in a value."""
    if isinstance(v, Const):
        return Const(to) if v.value == frm else v
    if isinstance(v, Poly):
        total = nf.ZERO
        for m, c in v.terms:
            t = Poly.const(c)
            for a, e in m:
                t = t * Poly.atom(_swap_const(a, frm, to)).pow(e)
            total = total + t
        return total
    if isinstance(v, Tup):
        return Tup([_swap_const(i, frm, to) for i in v.items], v.kind)
    if isinstance(v, Slice):
        return Slice(_swap_const(v.lo, frm, to), _swap_const(v.hi, frm, to), _swap_const(v.step, frm, to))
    if isinstance(v, tuple):
        out = tuple(_swap_const(i, frm, to) for i in v)
        if len(out) == 3 and out[0] == 'app' and out[1] in nf.COMMUTATIVE_APPS:
            out = ('app', out[1], tuple(sorted(out[2], key=nf.vkey)))
        return out
    return v
