"""C20 - array geometry helpers share the floor(n/2) centre convention."""
import ast

from .. import nf
from ..nf import Poly, Tup, Const, Slice, NONE, TRUE, FALSE
from ..model import AnalysisError, dotted
from ..rules import run as analyse, returns, fmt, is_app, S, C, pair, quad, conds_str, seg, identity_holds
from . import extent_rules as X

HALF = X.HALF


def unwrap_setitem(v):
    a = v.single_atom() if isinstance(v, Poly) else None
    if a is None or not is_app(a, 'setitem'):
        return None
    return a[2]   # (base, key, value)


def pad_rules(chk, repo):
    f = repo.func('util.pad')
    shape = pair('shape')
    arr = S('array')
    ashape = nf.attr(arr, 'shape')
    n_a = n_b = 0
    for ndim, off in ((2, 0), (3, 1)):
        facts = {nf.attr(arr, 'ndim').single_atom(): C(ndim)}
        _, paths, _ = analyse(repo, f, config={'shape': shape}, facts=facts)
        # growing or shrinking is decided axis by axis: among the conditions that select the slices there is one about the row
        # lengths and one about the column lengths (a column branch chosen by the row difference is wrong whenever one axis
        # grows while the other shrinks or stays)
        ax_atoms = [{nf.index(ashape, C(k + off)).single_atom(), shape.items[k].single_atom()} for k in (0, 1)]
        seen_ax = [False, False]
        for p in returns(paths):
            for c, _pol, _n in p.conds:
                va_ = nf.value_atoms(c)
                for k in (0, 1):
                    if va_ & ax_atoms[k] == ax_atoms[k]:
                        seen_ax[k] = True
        for k in (0, 1):
            if not seen_ax[k]:
                # an axis without a branch of its own is fine when its slices are the same on every path (written with
                # max / min instead of a branch): the per-axis identities below then decide them
                keys = set()
                for p in returns(paths):
                    si_ = unwrap_setitem(p.ret)
                    va_ = si_[2].single_atom() if si_ is not None and isinstance(si_[2], Poly) else None
                    if si_ is None or not isinstance(si_[1], Tup) or va_ is None or va_[0] != 'idx' or not isinstance(va_[2], Tup) \
                            or len(si_[1]) != ndim or len(va_[2]) != ndim:
                        continue
                    keys.add((nf.vkey(si_[1].items[k + off]), nf.vkey(va_[2].items[k + off])))
                if len(keys) == 1:
                    seen_ax[k] = True
        if any(seen_ax) and len(returns(paths)) > 1:
            chk.ob('C20-a', 'D-guard', f.key, f'each axis is padded or cropped according to its own lengths [ndim={ndim}]', all(seen_ax),
                   '' if all(seen_ax) else f'no branch compares the {"row" if not seen_ax[0] else "column"} length of the array with the requested '
                   'one: that axis follows the decision taken for the other axis', f.loc())
        for p in returns(paths):
            if nf.strip_apps(p.ret, ('copy', 'm:copy', 'asarray', 'array')) == arr:
                # the input handed back (copied) as it is: right only when it already has the requested shape on both axes
                from .. import linear
                A_ = [nf.index(ashape, C(k + off)) for k in (0, 1)]
                same = None
                try:
                    same = True
                    for alt in _dnf(p, linear):
                        lits = [(c, pol) for c, pol in alt if isinstance(c, Poly) and c.single_atom() is not None
                                and is_app(c.single_atom(), ('lt', 'le', 'eq', 'ne'))]
                        for cons in linear.conj_constraints(lits):
                            for k in (0, 1):
                                d_ = linear.linearise(A_[k]) - linear.linearise(shape.items[k])
                                if not (linear.entails_with_axioms(cons, d_, _atoms(lits)) and
                                        linear.entails_with_axioms(cons, d_.scale(-1), _atoms(lits))):
                                    same = False
                except linear.NotLinear:
                    same = None
                chk.ob('C20-a', 'D-guard', f.key, f'the array is handed back unchanged only when it has the requested shape [ndim={ndim}, {conds_str(p)[:70]}]',
                       same, '' if same else 'the early return is also taken when only one axis already has its requested length: the other axis is '
                       'neither padded nor cropped and the result has the wrong shape', f.loc(p.node))
                continue
            si = unwrap_setitem(p.ret)
            if si is None:
                raise AnalysisError(f'util.pad: result is not zeros(...)[dest] = array[src]: {fmt(p.ret)}')
            base, dkey, val = si
            va = val.single_atom() if isinstance(val, Poly) else None
            if va is None or va[0] != 'idx' or va[1] != ('sym', 'array'):
                raise AnalysisError('util.pad: copied value is not a slice of the input array')
            skey = va[2]
            dks = [k for k in dkey.items] if isinstance(dkey, Tup) else None
            sks = [k for k in skey.items] if isinstance(skey, Tup) else None
            if dks is None or sks is None or len(dks) != ndim or len(sks) != ndim:
                raise AnalysisError(f'util.pad: slices have the wrong rank for ndim={ndim}')
            tag = f'ndim={ndim}, {conds_str(p)}'
            # output shape
            ba = base.single_atom()
            oshape = ba[2][0] if is_app(ba, 'zeros') else None
            want_shape = Tup(([nf.index(ashape, C(0))] if ndim == 3 else []) + list(shape.items))
            chk.ob('C20-a', 'N-identity', f.key, f'output shape [{tag}]',
                   isinstance(oshape, Tup) and Tup(oshape.items) == want_shape,
                   f'allocates {fmt(oshape)}; expected {fmt(want_shape)}', f.loc(p.node))
            # ... of the element type of the input: a complex cube padded into a float array loses its imaginary part
            dt_ok = None
            if is_app(ba, ('zeros', 'empty', 'full', 'zeros_like')):
                dts = [x.items[1] for x in ba[2] if isinstance(x, Tup) and len(x) == 2 and isinstance(x.items[0], Const) and x.items[0].value == 'dtype']
                dts += [z.items[1] for x in ba[2] if isinstance(x, Tup) for z in x.items if isinstance(z, Tup) and len(z) == 2
                        and isinstance(z.items[0], Const) and z.items[0].value == 'dtype']
                dt_ok = bool(dts) and dts[0] == nf.attr(arr, 'dtype') or is_app(ba, 'zeros_like')
            chk.ob('C20-a', 'T-dtype', f.key, f'the padded array has the element type of the input [{tag}]', dt_ok,
                   '' if dt_ok else f'allocated as {nf.fmt_atom(ba)[:100]}: the default float64 drops the imaginary part of a complex array',
                   f.loc(p.node))
            for ax in (0, 1):
                d, s = dks[ax + off], sks[ax + off]
                if not isinstance(d, Slice) or not isinstance(s, Slice):
                    raise AnalysisError('util.pad: non-slice index')
                A = nf.index(ashape, C(ax + off))
                Sz = shape.items[ax]
                n_a += 1
                chk.ob('C20-a', 'N-identity', f.key, f'axis {ax} origin sample lands on the new origin [{tag}]',
                       identity_holds(d.lo + HALF(A) - s.lo, HALF(Sz)),
                       f'source origin floor(A/2) is copied to index {fmt(d.lo + HALF(A) - s.lo)}; '
                       f'the new origin is {fmt(HALF(Sz))}', f.loc(p.node))
                chk.ob('C20-a', 'N-identity', f.key, f'axis {ax} copied extents have equal length [{tag}]',
                       identity_holds((d.hi - d.lo) - (s.hi - s.lo), nf.ZERO),
                       f'destination {fmt(d)} vs source {fmt(s)}', f.loc(p.node))
                if ndim == 3:
                    # C20-b: bounds on axis k of a cube derive from array.shape[k+1] and shape[k]
                    used = set()
                    for bound in (d.lo, d.hi, s.lo, s.hi):
                        for a in nf.value_atoms(bound):
                            if a[0] == 'idx' and a[1] == ashape.single_atom():
                                used.add(('array', int(a[2].const_value())))
                            if a[0] == 'idx' and a[1] == ('sym', 'shape'):
                                used.add(('shape', int(a[2].const_value())))
                    bad = sorted(u for u in used if u not in (('array', ax + 1), ('shape', ax)))
                    n_b += 1
                    chk.ob('C20-b', 'U-axis', f.key, f'cube axis {ax} bounds derive from that axis [{conds_str(p)}]',
                           not bad, f'bounds on image axis {ax} of a cube use ' +
                           ', '.join(f'{w}.shape[{i}]' if w == 'array' else f'shape[{i}]' for w, i in bad)
                           if bad else 'array.shape[k+1] / shape[k] only', f.loc(p.node))
            if ndim == 3:
                chk.ob('C20-b', 'U-axis', f.key, f'cube depth axis copied whole [{conds_str(p)}]',
                       dks[0] == Slice(NONE, NONE, NONE) and sks[0] == Slice(NONE, NONE, NONE),
                       f'{fmt(dks[0])} / {fmt(sks[0])}', f.loc(p.node))
    if n_a < 4 or n_b < 2:
        raise AnalysisError(f'util.pad: analysed {n_a} origin instances and {n_b} cube instances (need both axes for 2-D and 3-D)')


def window_refusal_rule(chk, repo, clause):
    """util.subarray refuses exactly the windows that leave the array: start < 0 or stop > size, each axis against its own
    size.  Decided in the linear domain (floor-half and min/max axioms): every returning path excludes each of the four
    ways out, and every alternative of the refusing test implies one of them; failing a proof, small shapes and shifts are
    searched for a window on which the code and the reference disagree."""
    import itertools
    from .. import linear
    shape, shift = pair('shape'), pair('shift')
    ash = pair('a_shape', nf.attr(S('a'), 'shape'))
    f, paths, _ = analyse(repo, 'util.subarray', config={'shape': shape, 'shift': shift},
                          facts={nf.attr(S('a'), 'shape').single_atom(): ash})
    lo = [HALF(ash.items[k]) - HALF(shape.items[k]) + shift.items[k] for k in (0, 1)]
    want = [nf.app('lt', lo[k], C(0)) for k in (0, 1)] + [nf.app('lt', ash.items[k], lo[k] + shape.items[k]) for k in (0, 1)]
    sizes = [linear.le(linear.Lin({}, 1), linear.linearise(x)) for x in list(ash.items) + list(shape.items)]
    rets = [p for p in paths if p.status == 'return']
    refusals = [p for p in paths if p.status == 'raise']
    ok, det = None, ''
    try:
        proved = bool(rets) and bool(refusals)
        for p in rets:                                   # nothing that leaves the array is let through
            for alt in _dnf(p, linear):
                for w in want:
                    for cons in linear.conj_constraints(alt + [(w, True)]):
                        if linear.satisfiable(cons + sizes, _atoms(alt + [(w, True)])):
                            proved = False
        for p in refusals:                               # nothing that fits is refused
            for alt in _dnf(p, linear):
                for cons in linear.conj_constraints(alt + [(w, False) for w in want]):
                    if linear.satisfiable(cons + sizes, _atoms(alt + [(w, False) for w in want])):
                        proved = False
        if proved:
            ok, det = True, 'returning paths exclude all four ways out of the array; every refusal implies one of them'
    except linear.NotLinear as ex:
        det = f'guard not linear ({ex})'
    if ok is None:
        atoms = [x.single_atom() for x in list(ash.items) + list(shape.items) + list(shift.items)]
        try:
            for vals in itertools.product(range(1, 5), range(1, 5), range(1, 4), range(1, 4), range(-3, 4), range(-3, 4)):
                env = dict(zip(atoms, vals))
                should = any(linear.holds(w, env) for w in want)
                taken = [p for p in paths if all(linear.holds(c, env) == bool(pol) for c, pol, _ in p.conds)]
                if len(taken) != 1:
                    continue
                if (taken[0].status == 'raise') != should:
                    ok = False
                    a0, a1, s0, s1, h0, h1 = vals
                    det = (f'array {(a0, a1)}, window {(s0, s1)} at shift {(h0, h1)}: the window '
                           + ('leaves the array but is not refused (a truncated array comes back)' if should else
                              'fits but is refused'))
                    break
        except linear.NotLinear as ex:
            det = det or f'guard not evaluable ({ex})'
    chk.ob(clause, 'R-bounds', f.key, 'a window is refused exactly when it leaves the array (each axis against its own size)', ok,
           det or 'not decided', f.loc())


def _dnf(p, linear):
    alts = [[]]
    for c, pol, _ in p.conds:
        alts = [x + y for x in alts for y in linear.disjuncts(c, pol)]
    return alts


def _atoms(lits):
    out = set()
    for c, _ in lits:
        out |= set(c.atoms(deep=True))
    return out


def norm_dim_early(shp, d):
    """(expr).shape[k] -> dimension k of expr, when the shape of expr is known"""
    da = d.single_atom() if isinstance(d, Poly) else None
    if da is not None and da[0] == 'idx' and da[1][0] == 'attr' and da[1][2] == 'shape' \
            and isinstance(da[2], Poly) and da[2].const_value() is not None and da[1][1][0] != 'sym':
        base = da[1][1]
        inner = shp.of(base[1]) if base[0] == 'val' else shp.atom(base)
        if inner is not None and int(da[2].const_value()) < len(inner):
            return norm_dim_early(shp, inner[int(da[2].const_value())])
    return d


def helper_rules(chk, repo):
    shape, shift = pair('shape'), pair('shift')
    # subarray ≡ array_extent(shape, shift, parent=a.shape)
    f, paths, _ = analyse(repo, 'util.subarray', config={'shape': shape, 'shift': shift})
    rets = returns(paths)
    ash = nf.attr(S('a'), 'shape')
    for p in rets:
        ra = p.ret.single_atom() if isinstance(p.ret, Poly) else None
        if ra is None or ra[0] != 'idx' or not isinstance(ra[2], Tup):
            raise AnalysisError('util.subarray: result is not a[rows, cols]')
        for ax, s in enumerate(ra[2].items):
            want = HALF(nf.index(ash, C(ax))) - HALF(shape.items[ax]) + shift.items[ax]
            chk.ob('C20-d', 'N-identity', f.key, f'axis {ax} window = array_extent(shape, shift, parent=a.shape)',
                   s.lo == want and s.hi - s.lo == shape.items[ax],
                   f'slice {fmt(s)}; expected start {fmt(want)}, length {fmt(shape.items[ax])}', f.loc(p.node))
    window_refusal_rule(chk, repo, 'C20-d')
    # slice_offset: array_extent(slice_shape, offset, parent=shape).min == slice.start
    sl = Tup([Slice(S('r0'), S('r1')), Slice(S('c0'), S('c1'))])
    f, paths, _ = analyse(repo, 'helper.slice_offset', config={'slice': sl, 'shape': shape})
    gen = [p for p in returns(paths) if isinstance(p.ret, Tup) and len(p.ret) == 2 and
           not all(isinstance(i, Poly) and i.is_zero() for i in p.ret.items)]
    if not gen:
        raise AnalysisError('helper.slice_offset: general path not found')
    for p in gen:
        for ax, (lo, hi) in enumerate(((S('r0'), S('r1')), (S('c0'), S('c1')))):
            off = p.ret.items[ax]
            n = hi - lo
            lhs = HALF(shape.items[ax]) + off - HALF(n)      # array_extent(...).min
            chk.ob('C20-d', 'N-identity', f.key, f'axis {ax}: extent of the slice at its offset starts at slice.start',
                   lhs == lo, f'array_extent(slice_shape, offset, parent=shape).min = {fmt(lhs)}; slice.start = {fmt(lo)}',
                   f.loc(p.node))
    # mesh
    f, paths, _ = analyse(repo, 'helper.mesh', config={'shape': shape, 'shift': shift})
    from ..elem import ElemEval, Unsupported
    from ..shapes import Shapes
    for p in returns(paths):
        # element [i, j] of the two returned grids, however they are built (meshgrid, broadcasting of a column against a
        # row, mgrid): r[i, j] = x*cos + y*sin, c[i, j] = -x*sin + y*cos with x = i - floor(nr/2) - shift[0],
        # y = j - floor(nc/2) - shift[1]
        i_, j_ = S('@i'), S('@j')
        x = i_ - HALF(shape.items[0]) - shift.items[0]
        y = j_ - HALF(shape.items[1]) - shift.items[1]
        ang = nf.app('deg2rad', S('angle'))
        want = [x * nf.app('cos', ang) + y * nf.app('sin', ang), -x * nf.app('sin', ang) + y * nf.app('cos', ang)]
        ok, det = None, ''
        if isinstance(p.ret, Tup) and len(p.ret) == 2:
            try:
                ee = ElemEval(Shapes({}, assume_scalar=True))
                got = [ee.at(p.ret.items[k], (i_, j_)) for k in (0, 1)]
                ok = got[0] == want[0] and got[1] == want[1]
                det = f'r[i,j] = {fmt(got[0])[:150]}; c[i,j] = {fmt(got[1])[:150]}'
            except Unsupported as e:
                det = f'undecided: {e}'
        chk.ob('C20-d', 'N-identity', f.key, 'grid element [i, j] = rotation of (i - floor(nr/2) - shift[0], j - floor(nc/2) - shift[1])',
               ok, det, f.loc(p.node))
    # boundary_slice
    f, paths, _ = analyse(repo, 'helper.boundary_slice', config={'pad': pair('pad')})
    for p in returns(paths):
        calls = p.calls('util.boundary')
        if not calls or not (isinstance(p.ret, Tup) and len(p.ret) == 2):
            raise AnalysisError('helper.boundary_slice: not understood')
        thr = calls[0].bound.get('threshold')
        chk.ob('C20-d', 'D-flow', f.key, 'the bounding box is taken at the threshold the caller gave',
               thr == S('threshold'), f'lentil.boundary is called with threshold = {fmt(thr) if thr is not None else "its default"}: '
               'the `threshold` argument is accepted and ignored' if thr != S('threshold') else '', f.loc(calls[0].node))
        b = [nf.index(calls[0].result, C(i)) for i in range(4)]
        xs = nf.attr(S('x'), 'shape')
        pd = pair('pad')
        for ax in (0, 1):
            s = p.ret.items[ax]
            want = Slice(nf.app('max', b[2 * ax] - pd.items[ax], C(0)),
                         nf.app('min', b[2 * ax + 1] + pd.items[ax] + 1, nf.index(xs, C(ax))))
            chk.ob('C20-d', 'N-identity', f.key, f'axis {ax}: [min-pad, max+pad+1) clipped to the array',
                   s == want, f'{fmt(s)}; expected {fmt(want)}', f.loc(p.node))


def reduce_rules(chk, repo):
    boundary_axis_rule(chk, repo)
    _reduce_rules(chk, repo)


def boundary_axis_rule(chk, repo):
    # util.boundary: rows reduce over axis 1, columns over axis 0
    f, paths, _ = analyse(repo, 'util.boundary')
    for p in returns(paths):
        if not (isinstance(p.ret, Tup) and len(p.ret) == 4):
            raise AnalysisError('util.boundary does not return a 4-tuple')
        for k, want_axis in ((0, 1), (1, 1), (2, 0), (3, 0)):
            anys = [a for a in nf.value_atoms(p.ret.items[k]) if is_app(a, 'any')]
            axes = set()
            for a in anys:
                for extra in a[2]:
                    if isinstance(extra, Tup):
                        for pr in extra.items:
                            if isinstance(pr, Tup) and pr.items[0] == Const('axis'):
                                axes.add(int(pr.items[1].const_value()))
                if len(a[2]) >= 2 and isinstance(a[2][1], Poly) and a[2][1].const_value() is not None:
                    axes.add(int(a[2][1].const_value()))
            chk.ob('C20-e', 'U-axis', f.key, f'component {k} reduces over axis {want_axis}', axes == {want_axis},
                   f'{"row" if k < 2 else "column"} bound computed from any(x, axis={sorted(axes)})', f.loc(p.node))
            # ... and a bound counted back from the end of an axis is counted from the length of that axis
            other = 1 if k < 2 else 0
            lens = {int(a[2].const_value()) for a in nf.value_atoms(p.ret.items[k])
                    if a[0] == 'idx' and isinstance(a[1], tuple) and a[1][0] == 'attr' and a[1][2] == 'shape'
                    and isinstance(a[2], Poly) and a[2].const_value() is not None}
            if lens:
                chk.ob('C20-e', 'U-axis', f.key, f'component {k} uses the length of its own axis', other not in lens,
                       f'{"row" if k < 2 else "column"} bound computed from shape[{sorted(lens)}]', f.loc(p.node))


def _reduce_rules(chk, repo):
    # rebin
    f, paths, _ = analyse(repo, 'util.rebin', facts={nf.attr(S('img'), 'ndim').single_atom(): C(2)})
    fac = S('factor')
    sh = nf.attr(S('img'), 'shape')
    for p in returns(paths):
        want = nf.app('sum', nf.app('sum', nf.app('m:reshape', S('img'), HALFN(nf.index(sh, C(0)), fac), fac,
                                                  HALFN(nf.index(sh, C(1)), fac), fac), axis=C(3)), axis=C(1))
        chk.ob('C20-e', 'U-axis', f.key, 'reshape to (n0//f, f, n1//f, f) and sum the two factor axes',
               p.ret == want, f'returns {fmt(p.ret)}', f.loc(p.node))
    # cubes: the same block sums for every slice, accumulated in numpy's accumulator type (not the type of the input:
    # boolean and small integer cubes would wrap / saturate and lose the sum)
    f, paths, _ = analyse(repo, 'util.rebin', facts={nf.attr(S('img'), 'ndim').single_atom(): C(3)})
    n1, n2 = HALFN(nf.index(sh, C(1)), fac), HALFN(nf.index(sh, C(2)), fac)
    for p in returns(paths):
        whole = nf.app('sum', nf.app('sum', nf.app('m:reshape', S('img'), nf.index(sh, C(0)), n1, fac, n2, fac), axis=C(4)), axis=C(2))
        ok_v, ok_t, det, det_t = None, None, f'returns {fmt(p.ret)[:200]}', ''
        if p.ret == whole:
            ok_v, ok_t, det_t = True, True, 'the sums are returned as numpy accumulates them'
        else:
            # the same construction with other block counts: the row blocks are counted from the row count of a slice, the column
            # blocks from its column count (and the depth is the first axis, spelled out or as -1)
            rs = [a_ for a_ in nf.value_atoms(p.ret) if is_app(a_, 'm:reshape') and len(a_[2]) == 6 and a_[2][0] == S('img')]
            if len(rs) == 1:
                d = rs[0][2][1:]
                depth_ok = d[0] in (nf.index(sh, C(0)), C(-1))
                if not (depth_ok and d[1] == n1 and d[3] == n2 and d[2] == fac and d[4] == fac):
                    ok_v = False
                    det = f'reshape to ({", ".join(fmt(x)[:30] for x in d)}): not (depth, n1//f, f, n2//f, f)'
        ra = p.ret.single_atom() if isinstance(p.ret, Poly) else None
        if ra is not None and ra[0] == 'loop':
            for lp in p.state.loops:
                if lp['func'] != f.key:
                    continue
                its = [x for x in nf.value_atoms(lp['iter']) if x[0] == 'sym'] if isinstance(lp['iter'], Poly) else []
                for ends in lp['ends']:
                    for nm, v in ends.items():
                        va = v.single_atom() if isinstance(v, Poly) else None
                        if va is None or not is_app(va, 'setitem') or len(va[2]) != 3:
                            continue
                        k = va[2][1]
                        ka = k.single_atom() if isinstance(k, Poly) else None
                        if ka is None or ka[0] != 'iter':
                            continue
                        one = nf.app('sum', nf.app('sum', nf.app('m:reshape', nf.index(S('img'), k), n1, fac, n2, fac), axis=C(3)), axis=C(1))
                        ok_v = va[2][2] == one
                        det = f'slice i <- {fmt(va[2][2])[:160]}'
                        pre = lp['pre'].get(nm)
                        from .. import dtypes
                        pa = pre.single_atom() if isinstance(pre, Poly) else None
                        inherits = pa is not None and (is_app(pa, ('zeros_like', 'empty_like', 'ones_like')) or any(
                            x == nf.attr(S('img'), 'dtype').single_atom() for x in nf.value_atoms(pre)))
                        ok_t = not inherits
                        det_t = f'the sums are stored into {fmt(pre)[:120]}' + (', which has the type of the input' if inherits else '')
        if ok_t is None:
            # whatever is written into it: an array created with the type of the input cannot hold the sums
            root = p.ret
            for _ in range(6):
                ra_ = root.single_atom() if isinstance(root, Poly) else None
                if ra_ is not None and is_app(ra_, ('setitem', 'copy', 'asarray')) and isinstance(ra_[2][0], Poly):
                    root = ra_[2][0]
                    continue
                if ra_ is not None and ra_[0] == 'loop':
                    pre = [lp['pre'].get(ra_[1].split('@')[0]) for lp in p.state.loops if ra_[1].split('@')[0] in lp['pre']]
                    if pre and isinstance(pre[0], Poly):
                        root = pre[0]
                        continue
                break
            ra_ = root.single_atom() if isinstance(root, Poly) else None
            if ra_ is not None and is_app(ra_, ('zeros', 'empty', 'ones', 'full', 'zeros_like', 'empty_like', 'ones_like', 'cast', 'm:astype')) and \
                    (is_app(ra_, ('zeros_like', 'empty_like', 'ones_like')) and ra_[2][0] == S('img') or
                     nf.attr(S('img'), 'dtype').single_atom() in nf.value_atoms(root)):
                ok_t, det_t = False, f'the result is {fmt(root)[:120]}: it has the type of the input'
        chk.ob('C20-e', 'U-axis', f.key, 'cubes: every slice is reshaped to (n1//f, f, n2//f, f) and summed over the two factor axes',
               ok_v, det, f.loc(p.node))
        chk.ob('C20-e', 'T-dtype', f.key, 'cubes: block sums are not stored back in the type of the input', ok_t, det_t, f.loc(p.node))
    # centroid
    centroid_rule(chk, repo, 'C20-e')


def centroid_rule(chk, repo, clause):
    """centroid component k = sum(img * index along axis k) / sum(img): the weight grid is evaluated
    element-wise, however it is built (mgrid, meshgrid, broadcast aranges, the mesh helper)."""
    from ..elem import ElemEval, Unsupported
    from ..shapes import Shapes, declare_2d

    def uses_outside_shape(v, name):
        """does v depend on the *values* of `name` (not only on the shape of something derived from it)?"""
        def walk(x):
            if isinstance(x, Poly):
                return any(walk(a) for m, _ in x.terms for a, _e in m)
            if isinstance(x, Tup):
                return any(walk(i) for i in x.items)
            if isinstance(x, Slice):
                return walk(x.lo) or walk(x.hi) or walk(x.step)
            if isinstance(x, tuple):
                if x == ('sym', name):
                    return True
                if len(x) == 3 and x[0] == 'attr' and x[2] in ('shape', 'dtype', 'ndim', 'size'):
                    return False
                return any(walk(i) for i in x)
            return False
        return walk(v)
    f, paths, _ = analyse(repo, 'util.centroid', inline=['helper.mesh'])
    for p in returns(paths):
        if not (isinstance(p.ret, Tup) and len(p.ret) == 2):
            raise AnalysisError('util.centroid does not return a pair')
        i_, j_ = S('@i'), S('@j')
        density = {}
        for ax in (0, 1):
            comp = p.ret.items[ax]
            ok, det = None, 'undecided: component is not a weighted sum over an index grid'
            prods = sorted([a for a in nf.value_atoms(comp) if is_app(a, ('dot', 'sum', 'vdot', 'inner'))], key=nf.akey)
            cands = []
            for a in prods:
                if a[1] in ('dot', 'vdot', 'inner', 'matmul') and len(a[2]) >= 2:
                    cands += [(a[2][0], a[2][1], a, 0), (a[2][1], a[2][0], a, 1)]
                elif a[1] == 'sum' and isinstance(a[2][0], Poly) and len(a[2][0].terms) == 1:
                    mono = a[2][0].terms[0][0]
                    for at, e in mono:
                        if not uses_outside_shape(Poly.atom(at), 'img'):
                            cands.append((Poly.atom(at).pow(e), a[2][0] / Poly.atom(at).pow(e), a, None))
            for W, V, src, pos in sorted(cands, key=lambda t: nf.vkey(t[0])):
                if uses_outside_shape(W, 'img') or not uses_outside_shape(V, 'img'):
                    continue
                Wg = nf.strip_apps(W, ('m:ravel', 'm:flatten', 'copy', 'cast'))
                try:
                    shp = Shapes(declare_2d('img'), assume_scalar=True)
                    wshape = shp.of(Wg)
                    ishape = shp.of(S('img'))
                    if pos is not None and wshape is not None and len(wshape) == 1 and ishape is not None and len(ishape) == 2:
                        # a vector times the image as a matrix product: dot(w, M) weights row i with w[i] (contracts the rows),
                        # dot(M, w) weights column j with w[j]; the vector left over is summed by the enclosing sum
                        vshape = shp.of(V)
                        if vshape is not None and len(vshape) == 2:
                            idx_ = i_ if pos == 0 else j_
                            el = ElemEval(shp).at(Wg, (idx_,))
                            wshape = tuple(ishape[k] if k == pos else ishape[k] for k in (0, 1)) if \
                                norm_dim_early(shp, wshape[0]) == norm_dim_early(shp, ishape[pos]) else wshape
                        else:
                            el = ElemEval(shp).at(Wg, (i_, j_))
                    else:
                        el = ElemEval(shp).at(Wg, (i_, j_))
                except Unsupported as ex:
                    det = f'undecided: weight grid not understood element-wise ({ex})'
                    continue
                # the remaining factor (offsets added outside the sum) must vanish: component = sum(V*index)
                want = i_ if ax == 0 else j_
                def norm_dim(d):
                    # (expr).shape[k] -> dimension k of expr
                    da = d.single_atom() if isinstance(d, Poly) else None
                    if da is not None and da[0] == 'idx' and da[1][0] == 'attr' and da[1][2] == 'shape' \
                            and isinstance(da[2], Poly) and da[2].const_value() is not None and da[1][1][0] != 'sym':
                        base = da[1][1]
                        inner = shp.of(base[1]) if base[0] == 'val' else shp.atom(base)
                        if inner is not None and int(da[2].const_value()) < len(inner):
                            return norm_dim(inner[int(da[2].const_value())])
                    return d
                same_shape = wshape is not None and ishape is not None and len(wshape) == 2 and \
                    all(norm_dim(a) == norm_dim(b) for a, b in zip(wshape, ishape))
                whole = comp == Poly.atom(src) or (pos is not None and comp in (nf.app('sum', Poly.atom(src)), nf.app('m:sum', Poly.atom(src))))
                ok = el == want and whole and same_shape
                det = f'weight[i, j] = {fmt(el)[:80]}, grid shape {tuple(map(fmt, wshape)) if wshape else "?"}' + \
                    ('' if ok else f'; image shape {tuple(map(fmt, ishape)) if ishape else "?"}; component = {fmt(comp)[:100]}')
                # what is weighted is the image as given, divided by its total: a pedestal taken off first (img - img.min())
                # turns an image without a zero sample - a mask that fills its array - into 0/0
                Vs = nf.strip_apps(V, ('m:ravel', 'm:flatten', 'copy'))
                stats = [a_ for a_ in nf.value_atoms(Vs) if is_app(a_, ('amin', 'amax', 'min', 'max', 'mean', 'median', 'm:min', 'm:max', 'm:mean'))]
                okv = None
                if isinstance(Vs, Poly):
                    if stats or len(Vs.terms) > 1:
                        okv = False
                    elif Vs == S('img') * nf.app('sum', S('img')).pow(-1):
                        okv = True
                density[ax] = (okv, fmt(Vs)[:120])
                break
            chk.ob(clause, 'U-axis', f.key, f'component {ax} weights the axis-{ax} index grid', ok, det, f.loc(p.node))
            if ax in density:
                chk.ob(clause, 'N-formula', f.key, f'component {ax}: the weights are the image as given over its total', density[ax][0],
                       ('' if density[ax][0] else f'weights: {density[ax][1]}'), f.loc(p.node))


def HALFN(n, f):
    return nf.floor(n / f)


def segment_rules(chk, repo):
    f = repo.func('segmented.hex_ring')
    _, rpaths, _ = analyse(repo, f)
    ok, det = None, 'undecided: not two nested loops over the six sides and the ring radius'
    for p in returns(rpaths):
        lps = [lp for lp in p.state.loops if lp['func'] == f.key]
        if len(lps) != 2:
            continue
        counts = [nf.iter_count(lp['iter']) if isinstance(lp['iter'], (Poly, Tup)) else None for lp in lps]
        # the inner loop is recorded first (it finishes first)
        inner, outer = lps[0], lps[1]
        appends = [[e for e in bs.events[inner['n_pre_events']:] if e.kind == 'write' and e.data.get('how') == 'method:append']
                   for bs in inner['states']]
        six = counts[1] == C(6)
        it_outer = outer['iter'].single_atom() if isinstance(outer['iter'], Poly) else None
        if counts[1] is None and it_outer is not None and it_outer[0] == 'sym':
            g = f.module.globals.get(it_outer[1].split('.')[-1])
            six = isinstance(g, (ast.List, ast.Tuple)) and len(g.elts) == 6
        unconditional = len(inner['states']) == 1 and not inner['conds'][0] and len(outer['states']) == 1 and not outer['conds'][0]
        ok = bool(six) and counts[0] == S('radius') and all(len(a) == 1 for a in appends) and unconditional
        det = f'outer loop runs {fmt(counts[1]) if counts[1] is not None else "?"} times, inner {fmt(counts[0]) if counts[0] is not None else "?"} ' \
              f'times, {[len(a) for a in appends]} append(s) per step' + ('' if unconditional else ', conditional')
    chk.ob('C20-g', 'structural', f.key, 'exactly one hexagon per (side, step): 6*radius per ring', ok, det, f.loc())
    f = repo.func('segmented.hex_segments')
    _, paths, _ = analyse(repo, f)
    ok_r = ok_s = None
    for p in returns(paths):
        lps = [lp for lp in p.state.loops if lp['func'] == f.key]
        if len(lps) != 2:
            continue
        inner, ring = lps[0], lps[1]
        ra = ring['iter'].single_atom() if isinstance(ring['iter'], Poly) else None
        ia = inner['iter'].single_atom() if isinstance(inner['iter'], Poly) else None
        if not (ra is not None and is_app(ra, ('range', 'arange'))) and not (ia is not None and is_app(ia, 'call:segmented.hex_ring')):
            continue            # two loops, but not rings x segments of a ring (the rings are walked some other way)
        ring_ok = ra is not None and is_app(ra, ('range', 'arange')) and len(ra[2]) == 2 and ra[2][0] == C(1) and \
            ra[2][1] == S('rings') + 1
        via = ia is not None and is_app(ia, 'call:segmented.hex_ring') and \
            any(a[0] == 'iter' for a in nf.value_atoms(dict((k.items[0].value, k.items[1]) for k in ia[2]).get('radius')))
        ok_r = (ok_r is not False) and ring_ok and via
        # the running segment number: incremented by one in every inner step, drawn unless it is in `drop`
        good_s = True
        for bs, conds in zip(inner['states'], inner['conds']):
            incs = [e for e in bs.events[inner['n_pre_events']:] if e.kind == 'write' and e.data.get('how') == 'augassign'
                    and e.data.get('op') == 'add' and e.data.get('value') == C(1)]
            draws = [e for e in bs.events[inner['n_pre_events']:] if e.kind == 'call' and e.data.get('callee') == 'shape.hexagon']
            guard = [(c, pol) for c, pol, _ in conds]
            in_drop = [pol for c, pol in guard if isinstance(c, Poly) and c.single_atom() is not None
                       and is_app(c.single_atom(), ('in', 'notin')) and S('drop') in c.single_atom()[2]]
            if len(incs) != 1:
                good_s = False
            if len(guard) > 1 or (guard and not in_drop):
                good_s = False
            kept = (not guard) or (guard and ((is_app(guard[0][0].single_atom(), 'notin') and guard[0][1]) or
                                              (is_app(guard[0][0].single_atom(), 'in') and not guard[0][1])))
            if bool(draws) != bool(kept):
                good_s = False
        ok_s = (ok_s is not False) and good_s
    hx = []
    for p in paths:
        for e in p.calls('shape.hexagon'):
            if id(e.node) not in {id(x.node) for x in hx}:
                hx.append(e)
    sib = None
    det = f'undecided: {len(hx)} hexagon call site(s) visible'
    if len(hx) == 2:
        sib = True
        for e in hx:
            b = e.bound
            good = b.get('rotate') == S('rotate') and b.get('antialias') == S('antialias') and b.get('radius') == S('seg_radius')
            sib = sib and good and b.get('shape') == hx[0].bound.get('shape')
            if not good:
                det = f'hexagon(rotate={fmt(b.get("rotate"))}, antialias={fmt(b.get("antialias"))}, radius={fmt(b.get("radius"))}) at {e.loc()}'
    elif len(hx) == 1:
        b = hx[0].bound
        sib = b.get('rotate') == S('rotate') and b.get('antialias') == S('antialias') and b.get('radius') == S('seg_radius')
        det = 'single hexagon call site'
    chk.ob('C20-g', 'N-sibling', f.key, 'centre and ring segments are drawn with the same radius, orientation and antialiasing',
           sib, det, f.loc())
    chk.ob('C20-g', 'structural', f.key, 'rings 1..k are visited, each through hex_ring(ring)', ok_r,
           '' if ok_r else ('ring loop is not range(1, rings+1) over hex_ring(ring)' if ok_r is False else
                            'undecided: ring/segment loops not in the expected nested form'), f.loc())
    chk.ob('C20-g', 'structural', f.key, 'running index incremented once per hexagon; only `drop` skips a segment', ok_s,
           '' if ok_s else ('segment counter / drop guard not of the expected form' if ok_s is False else
                            'undecided: ring/segment loops not in the expected nested form'), f.loc())


def array_holds_aperture(chk, repo, clause):
    """The array hex_segments allocates is at least as wide as the widest row of segments (flat to flat) and, for one ring
    or more, as high as the aperture from vertex to vertex, plus the requested padding on both sides - for every
    ring count, segment radius and non-negative gap.  Centre spacing and hexagon size are those of the grid map (C20-h):
    neighbours are sqrt(3)*(seg_radius + seg_gap/2) apart, rows 3/2*(seg_radius + seg_gap/2)."""
    from fractions import Fraction
    f = repo.func('segmented.hex_segments')
    _, paths, _ = analyse(repo, f)
    k, R, g, pad = S('rings'), S('seg_radius'), S('seg_gap'), S('pad')
    s3 = C(3).pow(Fraction(1, 2))
    width = (2 * k + 1) * s3 * R + 2 * k * (s3 / 2) * g + 2 * pad
    height1 = 3 * (k + 1) * (R + g / 2) + 2 * R + 2 * pad        # with rings = k + 1 >= 1
    sizes = set()
    for p in returns(paths):
        for e in p.calls('shape.hexagon'):
            shp = e.bound.get('shape')
            for it in (shp.items if isinstance(shp, Tup) else []):
                v = nf.strip_apps(it, ('m:astype', 'cast', 'copy', 'int'))
                a = v.single_atom() if isinstance(v, Poly) else None
                while a is not None and (a[0] == 'idx' or is_app(a, ('m:astype', 'cast', 'broadcast_to', 'asarray'))):
                    v = Poly.atom(a[1]) if a[0] == 'idx' else a[2][0]
                    a = v.single_atom() if isinstance(v, Poly) else None
                if a is not None and is_app(a, 'ceil') and isinstance(a[2][0], Poly):
                    sizes.add(a[2][0])
                elif isinstance(v, Poly):
                    sizes.add(v)

    def nonneg(d):
        """every coefficient of d (a polynomial in non-negative quantities, sqrt(3) evaluated) is >= 0; else a witness"""
        approx = Fraction(17320508075688772, 10 ** 16)
        acc = {}
        for mono, c in d.terms:
            c = Fraction(c)
            rest = []
            for a_, e_ in mono:
                if a_[0] == 'num':
                    # an irrational constant such as 3**(1/2): its numerical value (16 digits)
                    if Fraction(e_).denominator == 1:
                        c = c * Fraction(a_[1]) ** int(e_)
                    elif a_[1] == 3 and Fraction(e_) * 2 == int(Fraction(e_) * 2):
                        c = c * approx ** int(Fraction(e_) * 2)
                    else:
                        c = c * Fraction(repr(float(a_[1]) ** float(e_)))
                    continue
                if a_[0] != 'sym':
                    return None, f'unexpected quantity {nf.fmt_atom(a_)[:40]}'
                rest.append((a_, e_))
            key = tuple(sorted(rest, key=repr))
            acc[key] = acc.get(key, Fraction(0)) + c
        bad = {m_: c_ for m_, c_ in acc.items() if c_ < -Fraction(1, 10 ** 9)}
        if not bad:
            return True, ''
        m_, c_ = sorted(bad.items(), key=repr)[0]
        names = {a_[1] for a_, _ in m_}
        # witness: the quantities of that monomial at 1, everything else at 0
        val = sum(c2 for m2, c2 in acc.items() if {a_[1] for a_, _ in m2} <= names)
        if val < 0:
            return False, 'e.g. ' + ', '.join(f'{n} = 1' for n in sorted(names)) + ' and the other quantities 0: short by ' + f'{float(-val):.3f}'
        return None, f'coefficient {float(c_):.3f} on {sorted(names)}'
    if len(sizes) != 1:
        chk.undecided(clause, 'N-bounds', f.key, 'the array holds the whole aperture plus the padding',
                      f'{len(sizes)} different array sizes handed to hexagon()', f.loc())
        return
    P_ = next(iter(sizes))
    v1, d1 = nonneg(P_ - width)
    chk.ob(clause, 'N-bounds', f.key, 'array width >= widest row of segments (flat to flat) + 2*pad', v1,
           f'size = ceil({fmt(P_)[:120]}); needed {fmt(width)[:120]}' + (f'; {d1}' if d1 else ''), f.loc())
    P1 = nf.subst_value(P_, {('sym', 'rings'): k + 1})
    v2, d2 = nonneg(P1 - height1)
    chk.ob(clause, 'N-bounds', f.key, 'array height >= aperture from vertex to vertex + 2*pad (one ring or more)', v2,
           f'needed {fmt(height1)[:120]} at rings = k + 1' + (f'; {d2}' if d2 else ''), f.loc())


def non_overlap_rule(chk, repo, clause):
    """Non-antialiased hexagons are closed on all six sides and neighbours are pitched so that, with no gap, they share
    an edge - which runs through the origin row (or column, when rotated) of samples.  The segments can only be disjoint
    if the hexagon's edge tests are half open or hex_segments takes the samples an earlier segment claimed out of the
    later ones."""
    fh = repo.func('shape.hexagon')
    _, hp, _ = analyse(repo, fh, config={'antialias': FALSE})
    closed = None
    for p in returns(hp):
        for lp in p.state.loops:
            if lp['func'] != fh.key:
                continue
            for ends in lp['ends']:
                for nm, v in ends.items():
                    a = v.single_atom() if isinstance(v, Poly) else None
                    if a is not None and is_app(a, 'setitem') and len(a[2]) == 3 and a[2][2] == C(0):
                        base = a[2][0].single_atom() if isinstance(a[2][0], Poly) else None
                        k = a[2][1].single_atom() if isinstance(a[2][1], Poly) else None
                        if base is not None and is_app(base, ('ones', 'ones_like')) and k is not None and is_app(k, ('lt', 'le')):
                            # zeroed where inner < rho (strict): the edge itself stays inside -> closed
                            strict = k[1] == 'lt'
                            closed = strict if closed is None else (closed and strict)
    fs = repo.func('segmented.hex_segments')
    _, sp, _ = analyse(repo, fs, config={'antialias': FALSE})
    excl, other = None, False
    forgets = False
    for p in returns(sp):
        found = False
        stack = nf.strip_apps(p.ret, ('asarray', 'copy', 'array', 'sum'))
        for lp in p.state.loops:
            if lp['func'] != fs.key:
                continue
            for bs in lp['states']:
                for e in bs.events[lp['n_pre_events']:]:
                    if e.kind != 'write' or e.data.get('how') != 'setitem':
                        continue
                    ta = e.target.single_atom() if isinstance(e.target, Poly) else None
                    if ta is None or ta[0] != 'idx' or not any(x[0] == 'iter' for x in nf.value_atoms(ta[2])):
                        continue
                    key = e.data.get('key')
                    carried = [x for x in nf.value_atoms(key) if x[0] == 'loop'] if key is not None else []
                    zero = e.data.get('value') == C(0)
                    feeds = False
                    for ends in lp['ends']:
                        for nm, v in ends.items():
                            if any(x[0] == 'loop' and x[1].split('@')[0] == nm for x in carried) and \
                                    any(x == ta or (x[0] == 'idx' and x[1] == ta[1]) for x in nf.value_atoms(v)):
                                feeds = True
                                # ... on top of what was claimed before: the set of claimed samples only grows
                                def joins_old(v_):
                                    for x in [v_.single_atom()] + list(nf.value_atoms(v_)) if isinstance(v_, Poly) else []:
                                        if x is not None and is_app(x, ('bitor', 'or', 'logical_or', 'maximum', 'add', 'numpy.logical_or')) and \
                                                any(isinstance(y, Poly) and y.single_atom() is not None and y.single_atom()[0] == 'loop'
                                                    and y.single_atom()[1].split('@')[0] == nm for y in x[2]):
                                            return True
                                    return False
                                if not joins_old(v):
                                    forgets = True
                    if zero and carried and feeds:
                        found = True
                    else:
                        other = True
        # a vectorised exclusion (no loop): some store into the collected stack / a view of it between collection and return
        if not found:
            for e in p.events:
                if e.kind == 'write' and e.data.get('how') == 'setitem' and not e.in_loop and e.depth == 0:
                    other = True
        excl = found if excl is None else (excl and found)
    if closed and forgets:
        verdict, det = False, ('the record of claimed samples is replaced by the samples of the current segment instead of being added to: '
                               'only collisions with the segment just before are resolved')
    elif closed is False:
        verdict, det = True, 'the non-antialiased hexagon is open on its edges: neighbours cannot share a sample'
    elif closed and excl:
        verdict, det = True, 'hexagon edges are closed; hex_segments removes the samples claimed by earlier segments from later ones'
    elif closed and excl is False and not other:
        verdict, det = False, ('hexagon(antialias=False) keeps the samples on its six edges and neighbours at pitch seg_radius + '
                               'seg_gap/2 share an edge when seg_gap = 0 (it runs through the origin row / column of samples): '
                               'nothing in hex_segments keeps such a sample out of the second segment')
    else:
        verdict, det = None, f'edge tests closed: {closed}; exclusion step recognised: {excl}'
    chk.ob(clause, 'structural', fs.key, 'non-antialiased segments are disjoint for every gap >= 0 (shared edge samples go to one segment)',
           verdict, det, fs.loc())


def run(chk, repo, tier):
    from .common import no_hidden_state
    no_hidden_state(chk, repo, 'C20')
    chk.clause('C20-o', 'the geometry helpers leave their arguments untouched', 10)
    from .common import operands_untouched
    operands_untouched(chk, repo, 'C20-o', ['util.pad', 'util.boundary', 'util.centroid', 'util.rebin', 'util.rescale', 'helper.boundary_slice', 'helper.slice_offset', 'helper.mesh', 'shape.circle', 'shape.hexagon', 'shape.rectangle', 'shape.spider'], allow=[])
    chk.clause('C20-a', 'pad keeps the origin sample at the new origin on every path; copied extents equal', 8)
    chk.clause('C20-b', 'cubes: every bound on image axis k derives from array.shape[k+1] and shape[k]', 2)
    chk.clause('C20-d', 'subarray, slice_offset, mesh and boundary_slice agree with array_extent', 7)
    chk.clause('C20-e', 'boundary reduces rows over axis 1 and columns over axis 0; rebin sums exactly the factor axes; centroid axes', 7)
    chk.clause('C20-f', 'drawn shapes lie in [0,1] and are binary without antialiasing', 8)
    chk.clause('C20-g', 'hex_ring yields 6*radius hexagons; hex_segments counts 1+3k(k+1)-|drop|', 3)
    # samples shared by two drawn segments are taken from the later one through a claim map: a boolean one
    from .common import mask_index_rule
    mask_index_rule(chk, repo, 'C20-g', ['segmented.hex_segments'], config=[{'antialias': FALSE}, None])
    chk.clause('C20-h', 'hexagonal grid: axial -> cartesian map, (row, col) = (-y, x), pitch seg_radius + seg_gap/2', 4)
    chk.clause('C20-j', 'hexagonal segments are mutually non-overlapping, also with no gap between them', 1)
    non_overlap_rule(chk, repo, 'C20-j')
    chk.clause('C20-k', 'the segments are clear of the array border: the array is as large as the aperture plus padding', 2)
    array_holds_aperture(chk, repo, 'C20-k')
    chk.clause('C20-s', 'no helper mixes two different axes of one array (package-wide shape inference over util/helper/shape/segmented)', 1)
    fw = repo.func('util.window')
    from ..interp import known_functions as _kfw
    _, wpaths, _ = analyse(repo, fw, config={'slice': NONE, 'shape': S('shape')})
    okw, nw, detw = True, 0, ''
    for p in returns(wpaths):
        if nf.strip_apps(p.ret) == S('img'):
            def _excused(c):
                a_ = c.single_atom() if isinstance(c, Poly) else None
                if a_ is not None and is_app(a_, 'or'):
                    return all(isinstance(x, Poly) and _excused(x) for x in a_[2])
                return fmt(c) in ('is(shape, (None))', 'eq(img.size, 1)')
            if any(pol and _excused(c) for c, pol, _ in p.conds):
                continue                    # nothing requested / a single value: returned as it is
            # handed back unchanged although a shape was requested: right only if the frame axes - the last two, a cube is
            # (depth, rows, cols) - already have that shape
            last_two = any(pol and 'img.shape[-2:' in fmt(c) for c, pol, _ in p.conds)
            okw = okw and (None if last_two else False) if okw is not False else okw
            if not last_two:
                okw, detw = False, (f'[{conds_str(p)[-90:]}] returns img unchanged: decided without comparing the requested shape with the '
                                    'last two axes (for a cube the first two are depth and rows)')
            continue
        nw += 1
        a = p.ret.single_atom() if isinstance(p.ret, Poly) else None
        good = a is not None and is_app(a, 'call:util.pad') and \
            nf.strip_apps(dict((k.items[0].value, k.items[1]) for k in a[2]).get('array')) == S('img') and \
            dict((k.items[0].value, k.items[1]) for k in a[2]).get('shape') == S('shape')
        if not good and a is not None and is_app(a, 'setitem') and not repo.has_func('util.pad') or \
                (not good and a is not None and is_app(a, 'setitem') and any(is_app(x, 'zeros') for x in nf.value_atoms(p.ret))
                 and any(g_.key not in _kfw() for g_ in repo.all_functions() if g_.module.name == 'util')):
            # the padding is carried out by a helper introduced later (pad's own body moved): its alignment is what C20-a decides
            okw = None if okw is not False else okw
            detw = detw or 'undecided: the trim is done by a helper that is not `pad`'
            continue
        if not good:
            okw, detw = False, f'a path returns {fmt(p.ret)[:100]} [{conds_str(p)[-80:]}]'
    chk.ob('C20-b', 'D-flow', fw.key, 'window(shape) trims about the centre with pad (which handles cubes) on every path',
           (okw and nw > 0) if okw is not None else None, detw or f'{nw} path(s)', fw.loc())
    chk.clause('C20-i', 'a drawn shape honours the shift it is given exactly (fractional shifts reach the coordinate mesh unrounded)', 3)
    for key in ('shape.circle', 'shape.hexagon', 'shape.rectangle'):
        sf, sp, _ = analyse(repo, key, config={'shift': pair('shift')}, inline=['shape.rectangle'] if key != 'shape.rectangle' else [])
        oks, ns, dets = True, 0, ''
        shift_atoms = {a for i in pair('shift').items for a in nf.value_atoms(i)}
        for p in returns(sp):
            ns += 1
            vals = [p.ret] + [v for e in p.events if e.kind == 'call' for v in (e.data.get('bound') or {}).values()]
            for v in vals:
                if v is None:
                    continue
                for a in nf.value_atoms(v):
                    if is_app(a, ('cast', 'm:astype', 'floor', 'ceil', 'round', 'fix', 'int', 'rint', 'trunc')) and a[2] \
                            and shift_atoms & nf.value_atoms(a[2][0]):
                        dt = repr(a[2][1]) if len(a[2]) > 1 else ''
                        if a[1] in ('cast', 'm:astype') and 'int' not in dt:
                            continue
                        oks, dets = False, f'{nf.fmt_atom(a)[:100]} rounds the shift'
        chk.ob('C20-i', 'D-flow', key, 'the shift is used as given: never rounded or cast to an integer', oks and ns > 0,
               dets or f'{ns} path(s)', sf.loc())
    # ... and component by component: the coordinate mesh of every shape is shifted by (shift[0] + a, shift[1] + b) with
    # a, b independent of the shift - rows move with shift[0], columns with shift[1] (exact translation under integer shifts)
    for key in ('shape.circle', 'shape.hexagon', 'shape.rectangle', 'shape.spider'):
        sf, sp, _ = analyse(repo, key, config={'shift': pair('shift')}, inline=['shape.rectangle'] if key != 'shape.rectangle' else [])
        sh_ = pair('shift')
        okm, nm, detm = True, 0, ''
        sh_atoms = [i.single_atom() for i in sh_.items]
        for p in returns(sp):
            for e in p.calls('helper.mesh'):
                ms = e.bound.get('shift')
                if isinstance(ms, Tup) and len(ms) == 2 and all(isinstance(i, Poly) and i.is_zero() for i in ms.items):
                    # the mesh is centred and the shift is applied to its components afterwards: grid k minus shift[k]
                    res = e.data.get('result')
                    comps = [nf.index(res, C(0)).single_atom(), nf.index(res, C(1)).single_atom()]
                    for v in [p.ret] + [x for a in nf.value_atoms(p.ret) if a[0] == 'app' for x in a[2] if isinstance(x, Poly)] + \
                            [a[1] for a in nf.value_atoms(p.ret) if a[0] == 'poly']:
                        if not isinstance(v, Poly):
                            continue
                        tops = set(v.atoms(deep=False))
                        for mm, cc in v.terms:
                            here = {a_ for a_, _ in mm}
                            for k in (0, 1):
                                for j in (0, 1):
                                    if comps[k] in here and sh_atoms[j] in here:      # cross term of (grid_k - shift_j)**2
                                        nm += 1
                                        if j != k:
                                            okm = False
                                            detm = f'grid component {k} is combined with shift[{j}] in {fmt(v)[:100]}'
                        for k in (0, 1):
                            for j in (0, 1):
                                if comps[k] in tops and sh_atoms[j] in tops:
                                    lin = {mm[0][0]: cc for mm, cc in v.terms if len(mm) == 1 and mm[0][1] == 1}
                                    if comps[k] in lin and sh_atoms[j] in lin:
                                        nm += 1
                                        if j != k or lin[comps[k]] != -lin[sh_atoms[j]]:
                                            okm = False
                                            detm = f'grid component {k} is combined with shift[{j}] in {fmt(v)[:100]}'
                    continue
                if not (isinstance(ms, Tup) and len(ms) == 2):
                    okm, detm = None if okm is not False else okm, f'mesh shift {fmt(ms)[:80]} is not a (row, col) pair'
                    continue
                nm += 1
                for k in (0, 1):
                    rest = ms.items[k] - sh_.items[k] if isinstance(ms.items[k], Poly) else None
                    if rest is None or any(a in nf.value_atoms(rest) for i in sh_.items for a in nf.value_atoms(i)):
                        okm = False
                        detm = f'mesh shift component {k} = {fmt(ms.items[k])[:100]}: not shift[{k}] plus something independent of the shift'
        if okm and not nm:
            okm = None
            detm = detm or 'undecided: neither a shifted mesh nor grid - shift found'
        chk.ob('C20-i', 'D-flow', key, 'rows move with shift[0], columns with shift[1]', okm,
               detm or f'{nm} mesh call(s)', sf.loc())
    # half-turn symmetry about the origin sample: the value of a circle / rectangle at grid point (r, c) is its value at
    # (-r, -c) - the drawing depends on the centred grid only through expressions that are even under that exchange (a test
    # that is closed on one side and open on the other is not)
    for key in ('shape.circle', 'shape.rectangle'):
        for aa, label in ((TRUE, 'antialias=True'), (FALSE, 'antialias=False')):
            sf, sp, _ = analyse(repo, key, config={'antialias': aa, 'shift': Tup([C(0), C(0)])})
            verdict, dets, nn = True, '', 0
            for p in returns(sp):
                meshes = p.calls('helper.mesh')
                if len(meshes) != 1 or p.state.loops:
                    verdict = None if verdict is not False else verdict
                    dets = dets or 'undecided: not a closed expression of one centred grid'
                    continue
                res = meshes[0].data.get('result')
                comps = [nf.index(res, C(0)), nf.index(res, C(1))]
                flipped = nf.subst_value(p.ret, {comps[0].single_atom(): -comps[0], comps[1].single_atom(): -comps[1]})
                nn += 1
                if flipped != p.ret:
                    verdict = False
                    dets = f'value at (-r, -c) is {fmt(flipped)[:140]}, at (r, c) {fmt(p.ret)[:140]}'
            chk.ob('C20-f', 'N-symmetry', key, f'unchanged by a half-turn about the origin sample [{label}]',
                   (verdict and nn > 0) if verdict is not None else None, dets or f'{nn} path(s)', sf.loc())
    # a circle drawn without helper.mesh (index vectors per axis): the distance is zero at the origin sample of each axis,
    # index floor(n_axis/2) + shift_axis - rows counted from the row count, columns from the column count
    sf, sp, _ = analyse(repo, 'shape.circle', config={'shift': pair('shift'), 'shape': pair('shape')})
    oko, deto, no_ = None, 'drawn on helper.mesh', 0
    for p in returns(sp):
        if p.calls('helper.mesh'):
            oko = True if oko is None else oko
            continue
        def radicands(v, out):
            """the expressions under a square root anywhere inside v"""
            if isinstance(v, Poly):
                for mono, _c in v.terms:
                    for a_, e_ in mono:
                        if e_.denominator == 2:
                            out.append(a_[1] if a_[0] == 'poly' else Poly.atom(a_))
                        radicands(a_, out)
            elif isinstance(v, Tup):
                for i_ in v.items:
                    radicands(i_, out)
            elif isinstance(v, tuple):
                for x_ in (v[1:] if v and isinstance(v[0], str) else v):
                    if isinstance(x_, (Poly, Tup, tuple)):
                        radicands(x_, out)
            return out
        roots = [('poly', q_) for q_ in {nf.vkey(x_): x_ for x_ in radicands(p.ret, [])}.values()]
        ar = {a for a in nf.value_atoms(p.ret) if is_app(a, 'arange') and len(a[2]) == 1 and isinstance(a[2][0], Poly)
              and a[2][0].single_atom() is not None and a[2][0].single_atom()[0] == 'idx' and a[2][0].single_atom()[1] == ('sym', 'shape')}
        if not roots or not ar:
            oko, deto = (None if oko is not False else oko), 'undecided: neither helper.mesh nor per-axis index vectors found'
            continue
        mapping = {}
        for a in ar:
            k = a[2][0].single_atom()[2]
            mapping[a] = HALF(a[2][0]) + nf.index(S('shift'), k)
        for r in roots:
            q = nf.subst_value(r[1], mapping)
            for _ in range(3):
                outer = {x: (x[2][0] + x[2][1]) for x in nf.value_atoms(q) if is_app(x, 'add_outer') and len(x[2]) == 2
                         and all(isinstance(y, Poly) for y in x[2])}
                idxs = {x: Poly.atom(x[1]) for x in nf.value_atoms(q) if x[0] == 'idx' and isinstance(x[2], Tup)
                        and all(i == NONE or isinstance(i, Slice) for i in x[2].items) and x[1][0] in ('val', 'poly')}
                if not outer and not idxs:
                    break
                q = nf.subst_value(q, {**outer, **idxs})
            if not isinstance(q, Poly):
                continue
            no_ += 1
            if q.is_zero():
                oko = True if oko is None else oko
            elif not any(x[0] == 'app' and x[1] in ('arange', 'add_outer') for x in nf.value_atoms(q)):
                oko = False
                deto = f'squared distance at the origin sample (floor(n/2) + shift on each axis) is {fmt(q)[:140]}, not 0'
    chk.ob('C20-f', 'N-origin', sf.key, 'the circle is centred on the origin sample floor(n/2) + shift of each axis', oko,
           deto if oko is not True or not no_ else f'{no_} distance expression(s) vanish at the origin', sf.loc())
    chk.not_decided += ['translation symmetry of drawn shapes numerically, equal areas']
    pad_rules(chk, repo)
    helper_rules(chk, repo)
    reduce_rules(chk, repo)
    from .shapes_rules import shape_ranges
    shape_ranges(chk, repo, 'C20-f')
    from . import common
    common.shape_scan(chk, repo, 'C20-s', ['util', 'helper', 'shape', 'segmented'])
    from .extra_rules import hex_grid_rules
    hex_grid_rules(chk, repo, 'C20-h')
    segment_rules(chk, repo)
