"""C09 - FFT propagation agrees with DFT propagation; scratch space is transparent."""
from fractions import Fraction
from .. import nf, dims, bind
from ..nf import Poly, Tup, Const, Slice, NONE, TRUE, FALSE
from ..model import AnalysisError, dotted
from ..rules import run as analyse, returns, fmt, is_app, S, C, pair, root_sym, none_state, conds_str
from .prop_flow import wf_attr, WF


def bound_of(atom):
    return {k.items[0].value: k.items[1] for k in atom[2]}


def fft_paths(repo, cfg):
    return analyse(repo, 'propagate.propagate_fft', types={('sym', 'wavefront'): repo.cls('wavefront.Wavefront')},
                   config=cfg)


def cmp_atoms(v):
    return [a for a in nf.value_atoms(v) if is_app(a, ('lt', 'le'))]


def accepted_at_equality(cond, pol, fft_shape_atoms):
    """For the ValueError guard on the scratch buffer: does a buffer of exactly
    fft_shape pass?  -> True / False / None (form not recognised)."""
    a = cond.single_atom() if isinstance(cond, Poly) else None
    negated = False
    while a is not None and is_app(a, 'not'):
        negated = not negated
        a = a[2][0].single_atom()
    if a is None or not is_app(a, ('all', 'any', 'min', 'max')):
        return None
    quant = a[1]
    cmps = cmp_atoms(Poly.atom(a))
    if len(cmps) != 1:
        return None
    op, (lhs, rhs) = cmps[0][1], cmps[0][2]
    # value of the comparison when scratch.shape == fft_shape
    at_eq = (op == 'le')
    inner = at_eq           # all(...) / any(...) of identical components
    raises = (inner != negated) == pol      # the raise path is taken when its condition holds
    raises = (inner if not negated else not inner) if pol else not (inner if not negated else not inner)
    return not raises


def refused_when_one_axis_short(cond, pol, scratch_shape):
    """Same guard: is a buffer refused that is too small along one axis and exactly large enough along the other?
    -> True / False / None (form not recognised)."""
    a = cond.single_atom() if isinstance(cond, Poly) else None
    negated = False
    while a is not None and is_app(a, 'not'):
        negated = not negated
        a = a[2][0].single_atom()
    if a is None or not is_app(a, ('all', 'any', 'min', 'max')):
        return None
    quant = 'all' if a[1] in ('all', 'min') else 'any'
    cmps = cmp_atoms(Poly.atom(a))
    if len(cmps) != 1:
        return None
    op, (lhs, rhs) = cmps[0][1], cmps[0][2]
    strip = lambda v: nf.vkey(nf.strip_apps(v, ('asarray', 'array', 'cast', 'tuple', 'list')))
    if strip(lhs) == nf.vkey(scratch_shape):
        short, equal = True, op == 'le'         # scratch < fft ; scratch == fft
    elif strip(rhs) == nf.vkey(scratch_shape):
        short, equal = False, op == 'le'        # fft < scratch is false on the short axis
    else:
        return None
    inner = (short and equal) if quant == 'all' else (short or equal)
    value = (not inner) if negated else inner
    return value == bool(pol)


class _Transform:
    """the centred FFT of a path: through propagate._fft2, or written in place as fftshift(fft2(ifftshift(x)))"""
    def __init__(self, x, result, pos):
        self.x, self.result, self.pos = x, result, pos


def transforms(p):
    out = []
    for i, e in enumerate(p.events):
        if e.kind != 'call':
            continue
        if e.data.get('callee') == 'propagate._fft2':
            out.append(_Transform(e.bound.get('x'), e.result, i))
        elif e.depth == 0 and str(e.data.get('callee')) in ('ext:numpy.fft.fft2', 'ext:scipy.fft.fft2') and e.data.get('args'):
            arg = e.data['args'][0]
            aa = arg.single_atom() if isinstance(arg, Poly) else None
            x = aa[2][0] if aa is not None and is_app(aa, ('fft.ifftshift', 'scipy.fft.ifftshift')) else arg
            res = e.data.get('result')
            out.append(_Transform(x, nf.app('fft.fftshift', res) if res is not None else None, i))
    return out


def _same_pair(v, base):
    """v is `base`, tuple(base) or (base[0], base[1])"""
    v = nf.strip_apps(v, ('copy', 'cast', 'tuple', 'list'))
    if v == base:
        return True
    return isinstance(v, Tup) and len(v) == 2 and v.items[0] == nf.index(base, C(0)) and v.items[1] == nf.index(base, C(1))


def view_chain(v, loops):
    """(root atom, [index keys from the root outwards]) of a value that denotes an array or a basic-index
    view of it; stores into it (setitem / loop-carried versions) are the same buffer."""
    keys = []
    a = v.single_atom() if isinstance(v, Poly) else None
    for _ in range(32):
        if a is None:
            return None, keys
        if a[0] == 'idx':
            keys.insert(0, a[2])
            a = a[1]
        elif a[0] == 'app' and (a[1] == 'setitem' or a[1].startswith('mut:')) and a[2] and isinstance(a[2][0], Poly):
            a = a[2][0].single_atom()
        elif a[0] == 'app' and a[1] in ('call:field.insert', 'call:wavefront.Wavefront.insert'):
            # insert(field, out) accumulates into `out` and hands that same buffer back (C06-e / C07-b)
            b_ = {k.items[0].value: k.items[1] for k in a[2] if isinstance(k, Tup) and len(k) == 2}
            o_ = b_.get('out')
            a = o_.single_atom() if isinstance(o_, Poly) else None
        elif a[0] == 'loop':
            pre = None
            for lp in loops:
                for n, phi in lp['phi'].items():
                    if phi.single_atom()[1] == a[1]:
                        pre = lp['pre'].get(n)
            a = pre.single_atom() if isinstance(pre, Poly) else None
        else:
            return a, keys
    return None, keys


def full_key(k):
    items = k.items if isinstance(k, Tup) and k.kind != 'vec' else [k]
    for it in items:
        if it == nf.ELLIPSIS:
            continue
        if isinstance(it, Slice) and it.lo in (NONE, C(0)) and it.hi == NONE and it.step == NONE:
            continue
        return False
    return True


def corner_key(k, region):
    """k == (0:region[0], 0:region[1])"""
    if not (isinstance(k, Tup) and len(k) == 2):
        return False
    return all(isinstance(it, Slice) and it.lo in (NONE, C(0)) and it.hi == hi and it.step == NONE
               for it, hi in zip(k.items, region))


def _assembled_field(p, v):
    """v is what Wavefront.field computes, written out: every field of wavefront.data inserted (complex, weight 1) into
    zeros of the wavefront's shape"""
    a = v.single_atom() if isinstance(v, Poly) else None
    if a is None or a[0] != 'loop':
        return False
    name = str(a[1]).split('@')[0]
    for lp in p.state.loops:
        pre = lp['pre'].get(name)
        if pre is None or lp.get('iter') not in (nf.attr(WF, 'data'), nf.attr(WF, '_data')):
            continue
        pa = pre.single_atom() if isinstance(pre, Poly) else None
        if pa is None or not is_app(pa, 'zeros') or pa[2][0] not in (nf.attr(WF, 'shape'), nf.attr(WF, '_shape')) or 'complex' not in repr(pa[2]):
            continue
        good = bool(lp['ends'])
        for ends in lp['ends']:
            e = ends.get(name)
            ea = e.single_atom() if isinstance(e, Poly) else None
            if ea is None or not is_app(ea, 'call:field.insert'):
                good = False
                continue
            b = {k.items[0].value: k.items[1] for k in ea[2]}
            fa = b.get('field').single_atom() if isinstance(b.get('field'), Poly) else None
            oa = b.get('out').single_atom() if isinstance(b.get('out'), Poly) else None
            good = good and fa is not None and fa[0] == 'idx' and Poly.atom(fa[1]) in (nf.attr(WF, 'data'), nf.attr(WF, '_data')) and \
                oa is not None and oa[:2] == a[:2] and b.get('intensity') in (FALSE, None) and \
                (b.get('weight') is None or (isinstance(b.get('weight'), Poly) and b.get('weight').const_value() == 1))
        if good:
            return True
    return False


def run(chk, repo, tier):
    from .common import no_hidden_state
    no_hidden_state(chk, repo, 'C09')
    chk.clause('C09-a', 'tilt is refused first; _has_tilt inspects every field', 2)
    chk.clause('C09-b', 'shapes larger than the FFT grid are refused', 1)
    chk.clause('C09-c', 'a scratch buffer of exactly the advertised scratch_shape is accepted, for every wavelength of a band', 3)
    chk.clause('C09-d', 'scratch transparency: the region is zeroed before any insert; inserts and transform use the same region', 4)
    chk.clause('C09-e', 'grid = round(1/alpha); reported wavelength has the dimension of a length; crossed arguments excused by a symmetry proof', 3)
    chk.clause('C09-f', 'both branches transform the same centred embedding of the field', 2)
    chk.clause('C09-g', 'output metadata', 3)
    chk.clause('C09-h', 'centred-FFT nesting fftshift(fft2(ifftshift(x))), orthonormal', 2)
    from .c02 import field_accumulation as _field_accumulation
    from .common import Remap as _Remap
    _field_accumulation(_Remap(chk, {'C02-g': 'C09-f'}), repo, 'C02-g')
    chk.not_decided += ['numerical agreement with propagate_dft']
    # what reaches either propagator: tilt attached before or after a plane survives every product (else the refusal below
    # never sees it), and the DFT it is compared with is a function of its arguments (memoised coordinate vectors untouched)
    chk.clause('C09-i', 'tilt metadata survives every product of fields; the DFT reference keeps no state between calls', 2)
    from .common import mul_concat as _mul_concat9, cache_untouched as _cache_untouched9
    _mul_concat9(chk, repo, 'C09-i')
    _cache_untouched9(chk, repo, 'C09-i', modules=['fourier'])

    cfg = {'shape': pair('shape')}
    f, paths, _ = fft_paths(repo, cfg)
    # ---------------------------------------------------------------- C09-a
    # the refusal sees a fitted tilt only if the fit booked it on the plane it handed back
    from .c04 import fit_tilt_rule as _fit_tilt_rule9
    with chk.guard(['C09-a'], 'plane.Plane.fit_tilt'):
        _fit_tilt_rule9(chk, repo, 'C09-a')
    data = nf.attr(WF, 'data')

    def tilt_any(v):
        """any(<field>.tilt for <field> in wavefront.data) -> True / False (some other sequence) / None (not that form)"""
        va = v.single_atom() if isinstance(v, Poly) else None
        if va is None or not is_app(va, 'any') or not isinstance(va[2][0], Poly):
            return None
        ia = va[2][0].single_atom()
        if ia is None or not is_app(ia, ('listcomp', 'genexp')) or len(ia[2]) != 2:
            return None
        body, seq = ia[2]
        ba = body.single_atom() if isinstance(body, Poly) else None
        return seq == data and ba is not None and ba[0] == 'attr' and ba[2] == 'tilt' and ba[1][0] == 'idx' \
            and ba[1][1] == data.single_atom()
    if repo.has_func('propagate._has_tilt'):
        first_ok, det = True, ''
        n_tilt = 0
        for p in paths:
            c0 = p.conds[0][0] if p.conds else None
            a = c0.single_atom() if isinstance(c0, Poly) else None
            if a is None or not is_app(a, 'call:propagate._has_tilt') or bound_of(a).get('wavefront') != WF:
                first_ok, det = False, f'a path starts with {fmt(c0)} instead of the tilt test'
            if p.status == 'raise' and p.exc == 'NotImplementedError':
                n_tilt += 1
                pre = [e for e in p.events if e.kind in ('write',) or (e.kind == 'call' and e.data['callee'] not in
                                                                       ('propagate._has_tilt',))]
                if pre or p.conds[0][1] is not True:
                    first_ok, det = False, 'work is done before the tilt refusal'
        chk.ob('C09-a', 'D-dominance', f.key, 'tilt refusal precedes everything', first_ok and n_tilt == 1,
               det or 'NotImplementedError is raised before any other step when _has_tilt(wavefront)', f.loc())
        fh, hp, _ = analyse(repo, 'propagate._has_tilt', types={('sym', 'wavefront'): repo.cls('wavefront.Wavefront')})
        rets = returns(hp)
        data = nf.attr(WF, 'data')
        whole = None
        if len(rets) == 1 and isinstance(rets[0].ret, Poly) and rets[0].ret.single_atom() is not None \
                and is_app(rets[0].ret.single_atom(), 'any'):
            # any(<tilt of f> for f in wavefront.data)
            inner = rets[0].ret.single_atom()[2][0]
            ia = inner.single_atom() if isinstance(inner, Poly) else None
            if ia is not None and is_app(ia, ('listcomp', 'genexp')) and len(ia[2]) == 2:
                body, seq = ia[2]
                ba = body.single_atom() if isinstance(body, Poly) else None
                whole = seq == data and ba is not None and ba[0] == 'attr' and ba[2] == 'tilt' and ba[1][0] == 'idx' \
                    and ba[1][1] == data.single_atom() and not rets[0].conds
        if whole is not None:
            ok = whole
        else:
            t_in = [p for p in rets if p.ret == TRUE]
            t_out = [p for p in rets if p.ret == FALSE]
            ok = len(t_out) == 1 and not t_out[0].conds and len(t_in) >= 1
            for p in t_in:
                good = len(p.conds) == 1 and p.conds[0][1] is True
                c = p.conds[0][0].single_atom() if p.conds and isinstance(p.conds[0][0], Poly) else None
                good = good and c is not None and c[0] == 'attr' and c[2] == 'tilt' and c[1][0] == 'idx' and \
                    c[1][1] == data.single_atom()
                ok = ok and good
            lps = [lp for p in rets for lp in p.state.loops]
            ok = ok and any(lp['iter'] == data for lp in lps) if lps else False
            if not lps and not t_in:
                ok = None        # neither a loop over the fields nor any(...) over them
        chk.ob('C09-a', 'D-dominance', fh.key, 'every field of the wavefront is inspected for tilt', ok,
               '' if ok is not None else f'undecided: result {fmt(rets[0].ret)[:120] if rets else "?"}', fh.loc())
    else:
        # the test is written into propagate_fft itself: the first thing every path decides is whether any field carries tilt
        first_ok, det, n_tilt, whole = True, '', 0, None
        for p in paths:
            c0 = p.conds[0][0] if p.conds else None
            t = tilt_any(c0) if c0 is not None else None
            whole = t if whole is None else (whole and t)
            if t is None:
                first_ok, det = None, f'a path starts with {fmt(c0)[:100]}: not recognised as the tilt test'
                break
            if p.status == 'raise' and p.exc == 'NotImplementedError':
                n_tilt += 1
                from ..interp import known_functions as _kf
                pre = [e for e in p.events if e.kind == 'write' or (e.kind == 'call' and str(e.data.get('callee')) not in
                                                                    ('builtin:any', 'ext:numpy.any', 'any', 'ext:any')
                                                                    and not (repo.has_func(str(e.data.get('callee'))) and
                                                                             str(e.data.get('callee')) not in _kf()))]
                if pre or p.conds[0][1] is not True:
                    first_ok, det = False, 'work is done before the tilt refusal: ' + ', '.join(str(e.data.get('callee') or e.data.get('how')) for e in pre[:3])
        chk.ob('C09-a', 'D-dominance', f.key, 'tilt refusal precedes everything',
               (first_ok and n_tilt == 1) if first_ok is not None else None,
               det or 'NotImplementedError is raised before any other step when a field carries tilt', f.loc())
        chk.ob('C09-a', 'D-dominance', f.key, 'every field of the wavefront is inspected for tilt', whole,
               'any(field.tilt for field in wavefront.data)' if whole else '', f.loc())

    # ---------------------------------------------------------------- C09-b / c
    fs_call = None
    for p in paths:
        for e in p.calls('propagate._fft_shape'):
            fs_call = e
    if fs_call is None:
        raise AnalysisError('propagate_fft does not call _fft_shape')
    fft_shape = nf.index(fs_call.result, C(0))
    prop_wl = nf.index(fs_call.result, C(1))
    osf = S('oversample')
    shp = cfg['shape']
    refusals = [p for p in paths if p.status == 'raise' and p.exc == 'ValueError']
    shape_ref = [p for p in refusals if not any(('sym', 'scratch') in nf.value_atoms(c) for c, _, _ in p.conds)]
    okb = False
    detb = 'no ValueError for shape > fft_shape/oversample'
    for p in shape_ref:
        c, pol, _ = p.conds[-1]
        from ..npmodel import P
        want = nf.app('any', nf.app('lt', fft_shape / osf, P(Tup(shp.items))))
        want2 = nf.app('any', nf.app('lt', fft_shape / osf, P(Tup(shp.items, 'vec'))))
        okb = pol is True and (c == want or c == want2)
        detb = f'refusal condition: {fmt(c)[-160:]}'
    chk.ob('C09-b', 'D-guard', f.key, 'ValueError when shape exceeds fft_shape/oversample on either axis', okb, detb, f.loc())
    scr_ref = [p for p in refusals if p not in shape_ref]
    if len(scr_ref) != 1:
        raise AnalysisError(f'propagate_fft: expected one scratch refusal path, found {len(scr_ref)}')
    c, pol, node = scr_ref[0].conds[-1]
    acc = accepted_at_equality(c, pol, None)
    sides = cmp_atoms(c)
    mentions = sides and {nf.vkey(x) for x in sides[0][2]} == {nf.vkey(fft_shape), nf.vkey(nf.attr(S('scratch'), 'shape'))}
    if acc is None or not mentions:
        # a guard on one number per array (`min(scratch.shape) < max(fft_shape)`) instead of axis by axis: with two different
        # reductions the buffer scratch_shape() advertises for a non-square grid is refused
        REDS = ('min', 'max', 'amin', 'amax')
        ca = c.single_atom() if isinstance(c, Poly) else None
        if ca is not None and is_app(ca, ('lt', 'le')) and len(ca[2]) == 2:
            ra, rb = [x.single_atom() if isinstance(x, Poly) else None for x in ca[2]]
            if ra is not None and rb is not None and is_app(ra, REDS) and is_app(rb, REDS) and \
                    {nf.vkey(nf.strip_apps(ra[2][0], ('asarray', 'array', 'cast'))), nf.vkey(nf.strip_apps(rb[2][0], ('asarray', 'array', 'cast')))} == \
                    {nf.vkey(fft_shape), nf.vkey(nf.attr(S('scratch'), 'shape'))}:
                kind = lambda a_: 'min' if a_[1] in ('min', 'amin') else 'max'
                differ = kind(ra) != kind(rb)
                chk.ob('C09-c', 'T-comparison', f.key, 'scratch guard accepts a buffer of exactly fft_shape', False if differ else None,
                       f'guard `{fmt(c)[-100:]}` compares {kind(ra)} of one shape with {kind(rb)} of the other: for a non-square FFT grid '
                       'the buffer of exactly that shape is refused' if differ else 'undecided: the guard compares one number per shape',
                       f.loc(node))
                acc = 'done'
    if acc is None and acc != 'done':
        ca2 = c.single_atom() if isinstance(c, Poly) else None
        if ca2 is not None and is_app(ca2, ('lt', 'le')) and len(ca2[2]) == 2 and \
                any(x in (nf.attr(S('scratch'), 'size'), nf.app('prod', nf.attr(S('scratch'), 'shape'))) for x in ca2[2]):
            # enough elements is not enough rows and columns: a buffer with the right size and the wrong shape passes
            chk.ob('C09-c', 'T-comparison', f.key, 'scratch guard refuses a buffer that is too small along one axis only', False,
                   f'guard `{fmt(c)[-100:]}` compares the number of elements: a (2n, n/2) buffer has enough of them for an (n, n) grid',
                   f.loc(node))
            acc = 'done'
    if acc is None or (not mentions and acc != 'done'):
        raise AnalysisError(f'propagate_fft: scratch guard not understood: {fmt(c)[-200:]}')
    if acc != 'done':
        chk.ob('C09-c', 'T-comparison', f.key, 'scratch guard accepts a buffer of exactly fft_shape', acc,
               f'guard `{"" if pol else "not "}{fmt(c)[-120:]}` ' + ('accepts' if acc else 'refuses') +
               ' scratch.shape == fft_shape, which is what scratch_shape() advertises', f.loc(node))
    if acc != 'done':
        ref = refused_when_one_axis_short(c, pol, nf.attr(S('scratch'), 'shape'))
        chk.ob('C09-c', 'T-comparison', f.key, 'scratch guard refuses a buffer that is too small along one axis only', ref,
               f'guard `{"" if pol else "not "}{fmt(c)[-120:]}` ' +
               ('refuses' if ref else 'lets through' if ref is False else 'undecided: form not recognised for') +
               ' a buffer with one axis below fft_shape and the other equal to it', f.loc(node))
    fss, sp, _ = analyse(repo, 'propagate.scratch_shape')
    oks = False
    for p in returns(sp):
        e = p.calls('propagate._fft_shape')
        oks = len(e) == 1 and _same_pair(p.ret, nf.index(e[0].result, C(0))) and e[0].bound.get('z') == S('z') \
            and e[0].bound.get('oversample') == S('oversample')
        wl = e[0].bound.get('wavelength') if e else None
        oks = oks and wl is not None and ('sym', 'wavelength') in nf.value_atoms(wl)
    if not oks and not any(p.calls('propagate._fft_shape') for p in returns(sp)):
        oks = None          # the grid is not obtained through a helper of that name: how it is computed is not followed here
    moved = repo.signature_moved('propagate._fft_shape') or repo.signature_moved('propagate._dft_alpha')
    if moved:
        oks = None          # the helper takes other things than the rule names: decided end to end below
    # end to end, whatever the helpers are handed: the advertised shape is round(max(wavelength)*z*oversample/(dx*du)) per axis
    inl_ = [k_ for k_ in ('propagate._fft_shape', 'propagate._dft_alpha') if repo.has_func(k_)]
    _, sp2, _ = analyse(repo, 'propagate.scratch_shape', inline=inl_)
    want_adv = [nf.app('round', nf.app('amax', S('wavelength')) * S('z') * S('oversample') /
                       (nf.index(S('dx'), C(k_)) * nf.index(S('du'), C(k_)))) for k_ in (0, 1)]
    r2 = returns(sp2)
    oke = None
    if r2 and all(isinstance(nf.strip_apps(p.ret, ('tuple',)), Tup) for p in r2):
        oke = all(list(nf.strip_apps(p.ret, ('tuple',)).items) == want_adv for p in r2)
    chk.ob('C09-c', 'N-formula', fss.key, 'advertised shape = round(max(wavelength)*z*oversample/(dx*du)) per axis (helpers inlined)', oke,
           (f'{fmt(r2[0].ret)[:200]}' if r2 else 'no returning path') if not oke else '', fss.loc())
    chk.ob('C09-c', 'D-flow', fss.key, 'advertised shape is the FFT grid of _fft_shape', oks,
           '' if oks is not None else 'undecided: scratch_shape does not call _fft_shape', fss.loc())
    # the grid has round(wavelength*z*oversample/(dx*du)) samples: it grows with the wavelength, so a band of wavelengths
    # needs the buffer of its *longest* one
    okw, detw = None, 'wavelength argument not understood'
    for p in returns(sp):
        e = p.calls('propagate._fft_shape')
        wl = e[0].bound.get('wavelength') if e else None
        if wl is None:
            continue
        reducers = [a for a in nf.value_atoms(wl) if is_app(a, ('amax', 'amin', 'max', 'min', 'mean', 'median', 'nanmax', 'nanmin'))
                    or (a[0] == 'idx' and a[1] == ('sym', 'wavelength'))]
        if wl == S('wavelength'):
            okw, detw = None, 'the wavelength is passed on as it is (a band would give one grid per wavelength)'
        elif len(reducers) == 1 and is_app(reducers[0], ('amax', 'max', 'nanmax')) and wl == Poly.atom(reducers[0]):
            okw, detw = True, 'the longest wavelength of the band sizes the buffer'
        elif reducers:
            okw = False
            detw = f'the buffer is sized for {fmt(wl)[:60]}: every longer wavelength of the band needs a larger FFT grid than the ' \
                   'advertised shape and propagate_fft refuses the buffer'
    chk.ob('C09-c', 'D-flow', fss.key, 'the advertised shape is the grid of the longest wavelength', okw, detw, fss.loc())

    # ---------------------------------------------------------------- C09-d / f / g
    scr = [p for p in returns(paths) if none_state(p, 'scratch') is False]
    nos = [p for p in returns(paths) if none_state(p, 'scratch') is True]
    if len(scr) != 1 or len(nos) != 1:
        raise AnalysisError('propagate_fft: scratch / no-scratch paths not identified')
    ps, pn = scr[0], nos[0]
    region = (nf.index(fft_shape, C(0)), nf.index(fft_shape, C(1)))
    loops = ps.state.loops

    def in_region(v, key=None):
        """Is (a write to / a read of) ``v[key]`` exactly the [0:fft_shape[0], 0:fft_shape[1]] part of scratch?"""
        root, keys = view_chain(v, loops)
        if key is not None:
            keys = keys + [key]
        keys = [k for k in keys if not full_key(k)]
        return root == ('sym', 'scratch') and len(keys) == 1 and corner_key(keys[0], region)

    def on_scratch(v):
        return view_chain(v, loops)[0] == ('sym', 'scratch')

    ins = [e for e in ps.events if e.kind == 'call' and e.data.get('callee') == 'field.insert']
    if not ins:
        raise AnalysisError('propagate_fft: no field.insert call on the scratch path')
    first_ins = ps.events.index(ins[0])
    before = [e for e in ps.events[:first_ins] if e.kind == 'write' and e.data.get('how') == 'setitem' and on_scratch(e.target)]
    zero_ok = bool(before) and not before[-1].in_loop and in_region(before[-1].target, before[-1].data.get('key')) and \
        isinstance(before[-1].data.get('value'), Poly) and before[-1].data.get('value').is_zero()
    chk.ob('C09-d', 'D-dominance', f.key, 'the used region of scratch is zeroed before the first insert', zero_ok,
           (f'last store to scratch before the inserts: scratch-view[{fmt(before[-1].data.get("key"))[:100]}] = '
            f'{fmt(before[-1].data.get("value"))[:60]}') if before else 'scratch is not written before the inserts',
           f.loc(ins[0].node))
    ok_ins = len(ins) == 1 and ins[0].in_loop and in_region(ins[0].bound.get('out')) and ins[0].bound.get('intensity') == FALSE
    fa = ins[0].bound.get('field').single_atom() if isinstance(ins[0].bound.get('field'), Poly) else None
    ok_ins = ok_ins and fa is not None and fa[0] == 'idx' and fa[1] == nf.attr(WF, 'data').single_atom() and \
        isinstance(fa[2], Poly) and fa[2].single_atom() is not None and fa[2].single_atom()[0] == 'iter'
    chk.ob('C09-d', 'N-region', f.key, 'every field of the wavefront is inserted into that region', ok_ins,
           f'insert(out={fmt(ins[0].bound.get("out"))[:120]})', f.loc(ins[0].node))
    st = [e for e in ps.events[first_ins:] if e.kind == 'write' and e.data.get('how') == 'setitem' and on_scratch(e.target)]
    if st:
        ok_st = all(in_region(e.target, e.data.get('key')) and e.data.get('value') == ins[0].result for e in st)
        det_st = '; '.join(f'scratch-view[{fmt(e.data.get("key"))[:80]}] = {fmt(e.data.get("value"))[:40]}' for e in st)
    else:
        # nothing stored back: the insert must accumulate into its ``out`` argument in place
        from ..effects import Effects
        sm = Effects(repo).summary(repo.func('field.insert'))
        ok_st = any(getattr(w, 'param', None) == 'out' for w in sm.writes)
        det_st = 'no store-back; field.insert ' + ('writes' if ok_st else 'does not write') + ' its out argument in place'
    chk.ob('C09-d', 'N-region', f.key, 'the insert result lands in the same region (stored back there or accumulated in place)',
           ok_st, det_st, f.loc())
    f2s = transforms(ps)
    last_ins = max(i for i, e in enumerate(ps.events) if e in ins)
    ok_t = len(f2s) == 1 and in_region(f2s[0].x) and f2s[0].pos > last_ins
    chk.ob('C09-d', 'N-region', f.key, 'the transform reads exactly that region, after the inserts', ok_t,
           f'_fft2({fmt(f2s[0].x)[:120]})' if f2s else '', f.loc())
    pads = pn.calls('util.pad')
    f2n = transforms(pn)
    ok_p = len(pads) == 1 and (pads[0].bound.get('array') in (nf.attr(WF, 'field'),) or _assembled_field(pn, pads[0].bound.get('array'))) \
        and pads[0].bound.get('shape') == fft_shape and len(f2n) == 1 and f2n[0].x == pads[0].result
    chk.ob('C09-f', 'N-embedding', f.key, 'without scratch: pad(wavefront.field, fft_shape) is transformed', ok_p, '', f.loc())
    from .common import Remap
    from .c20 import pad_rules
    pad_rules(Remap(chk, {'C20-a': 'C09-f'}), repo)
    chk.ob('C09-f', 'N-embedding', f.key, 'with scratch: the same fields inserted into zeros(fft_shape) (floor(n/2) convention '
           'of insert, see C06-c / C20-a)', ok_ins and zero_ok, '', f.loc())
    du = pair('pixelscale')
    du_os = Tup([du.items[0] / osf, du.items[1] / osf], 'vec')
    for p, label in ((ps, 'scratch'), (pn, 'no scratch')):
        em = p.calls('wavefront.Wavefront.empty')
        fl = [e for e in p.events if e.kind == 'call' and e.data.get('new') == 'field.Field']
        f2 = transforms(p)
        ok = len(em) == 1 and em[0].bound.get('wavelength') == prop_wl and em[0].bound.get('pixelscale') == du_os and \
            em[0].bound.get('focal_length') == nf.attr(WF, 'focal_length') and \
            em[0].bound.get('shape') == Tup([shp.items[0] * osf, shp.items[1] * osf])
        def is_result(d_, t_):
            if t_.result is not None and d_ == t_.result:
                return True
            da_ = d_.single_atom() if isinstance(d_, Poly) else None        # written in place: fftshift(fft2(ifftshift(x)))
            return da_ is not None and is_app(da_, ('fft.fftshift', 'scipy.fft.fftshift')) and \
                any(is_app(y_, ('fft.fft2', 'scipy.fft.fft2')) and y_[2] and nf.strip_apps(y_[2][0], ('fft.ifftshift', 'scipy.fft.ifftshift')) == t_.x
                    for y_ in nf.value_atoms(d_))
        ok = ok and len(fl) == 1 and fl[0].bound.get('pixelscale') == du_os and len(f2) == 1 and is_result(fl[0].bound.get('data'), f2[0])
        chk.ob('C09-g', 'D-flow', f.key, f'wavelength=prop_wavelength, sampling=du/oversample, focal length forwarded [{label}]',
               ok, '', f.loc())
    # shape=None: the whole period of the FFT grid is returned
    _, dpaths, _ = fft_paths(repo, {'shape': NONE})
    okd, nd, detd = True, 0, ''
    for p in returns(dpaths):
        fsd = p.calls('propagate._fft_shape')
        em = p.calls('wavefront.Wavefront.empty')
        if len(fsd) != 1 or len(em) != 1:
            continue
        nd += 1
        grid = nf.index(fsd[0].result, C(0))
        if not _same_pair(em[0].bound.get('shape'), grid):
            okd, detd = False, f'output shape {fmt(em[0].bound.get("shape"))[:120]}; the FFT grid is {fmt(grid)[:60]}'
    chk.ob('C09-g', 'D-flow', f.key, 'without a requested shape the whole FFT grid is returned', (okd and nd > 0) if (nd or not okd) else None,
           detd or f'{nd} path(s)', f.loc())
    fc = fs_call.bound
    ok = fc.get('dx') in wf_attr('pixelscale') and fc.get('du') == du and fc.get('z') == nf.attr(WF, 'focal_length') and \
        fc.get('wavelength') in wf_attr('wavelength') and fc.get('oversample') == osf
    if moved:
        ok = None
    chk.ob('C09-g', 'D-flow', f.key, '_fft_shape(dx, du, z, wavelength, oversample) gets the like-named quantities', ok,
           ', '.join(f'{k}={fmt(v)}' for k, v in fc.items()), f.loc(fs_call.node))

    # ---------------------------------------------------------------- C09-e
    dx, du2 = pair('dx'), pair('du')
    if moved:
        # decided through the public entry points instead: the grid the propagation uses (shape=None returns all of it)
        _, ip_, _ = analyse(repo, 'propagate.propagate_fft', config={'shape': NONE, 'scratch': NONE}, inline=inl_,
                            types={('sym', 'wavefront'): repo.cls('wavefront.Wavefront')})
        okm, nm_, detm = True, 0, ''
        for p in returns(ip_):
            for e in p.calls('wavefront.Wavefront.empty'):
                nm_ += 1
                sh_ = nf.strip_apps(e.bound.get('shape'), ('tuple',))
                wants_ = [[nf.app('round', wv * nf.attr(WF, 'focal_length') * osf / (nf.index(px, C(k_)) * nf.index(S('pixelscale'), C(k_))))
                           for k_ in (0, 1)] for wv in wf_attr('wavelength') for px in wf_attr('pixelscale')]
                if not (isinstance(sh_, Tup) and list(sh_.items) in wants_):
                    okm, detm = False, f'grid {fmt(sh_)[:200]}'
        chk.ob('C09-e', 'N-formula', f.key, 'fft_shape = round(1/alpha) per axis (helpers inlined)', (okm and nm_ > 0) if (nm_ or not okm) else None,
               detm, f.loc())
        chk.undecided('C09-e', 'N-formula', 'propagate._fft_shape', 'reported wavelength = min over axes of fft_shape/oversample*dx*du/z',
                      'undecided: the helper no longer takes (dx, du, z, wavelength, oversample)', repo.func('propagate._fft_shape').loc())
    if not moved:
        ff, fp, _ = analyse(repo, 'propagate._fft_shape', config={'dx': dx, 'du': du2}, inline=['propagate._dft_alpha'])
        rets = returns(fp)
        if len(rets) != 1 or not isinstance(rets[0].ret, Tup) or len(rets[0].ret) != 2:
            raise AnalysisError('_fft_shape does not return (shape, wavelength)')
        shape_t, wl_t = rets[0].ret.items
        z, wl = S('z'), S('wavelength')
        want_shape = Tup([nf.app('round', wl * z * osf / (dx.items[k] * du2.items[k])) for k in (0, 1)], 'vec')
        chk.ob('C09-e', 'N-formula', ff.key, 'fft_shape = round(1/alpha) per axis', shape_t == want_shape,
               f'{fmt(shape_t)}; expected {fmt(want_shape)}', ff.loc())
        want_wl = nf.app('min', *[want_shape.items[k] / osf * dx.items[k] * du2.items[k] / z for k in (0, 1)])
        chk.ob('C09-e', 'N-formula', ff.key, 'reported wavelength = min over axes of fft_shape/oversample*dx*du/z', wl_t == want_wl,
               f'{fmt(wl_t)[:200]}; expected {fmt(want_wl)[:200]}', ff.loc())
        ad = {('sym', 'z'): dims.D(m=1), ('sym', 'wavelength'): dims.D(m=1), ('sym', 'oversample'): dims.D(os=1)}
        for k, (a, u) in enumerate((('xr', 'ur0'), ('xc', 'uc0'))):
            ad[dx.items[k].single_atom()] = dims.D(m=1, **{a: -1})
            ad[du2.items[k].single_atom()] = dims.D(m=1, **{u: -1})
        okd, msg, _ = dims.check(wl_t, ad, want=dims.D(m=1))
        chk.ob('C09-e', 'U-dims', ff.key, 'reported propagation wavelength is a length', okd is True, msg, ff.loc())
        # crossed positional arguments z <-> wavelength: excused only by a symmetry proof of the callee
        for s in bind.sites(repo, repo.func('propagate._fft_shape')):
            if s.callee.key != 'propagate._dft_alpha':
                continue
            mm = bind.b3_mismatches(s)
            if not mm:
                chk.ob('C09-e', 'B3-binding', ff.key, 'call of _dft_alpha binds like-named arguments', True, '', s.loc())
                continue
            fa_, ap, _ = analyse(repo, 'propagate._dft_alpha', config={'dx': dx, 'du': du2})
            r = returns(ap)[0].ret
            names = {x for pr in mm for x in pr}
            sym_ok = False
            if names == {'z', 'wavelength'}:
                m = {('sym', 'z'): S('wavelength'), ('sym', 'wavelength'): S('z')}
                sym_ok = nf.subst_value(r, m) == r
            chk.ob('C09-e', 'B3-binding', ff.key, 'crossed arguments of _dft_alpha are interchangeable in the callee', sym_ok,
                   '; '.join(f'`{a}` bound to `{p}`' for p, a in mm) + (': callee proved symmetric in them' if sym_ok else
                                                                      ': callee is NOT symmetric in them'), s.loc())

    # ---------------------------------------------------------------- C09-h
    f2, p2, _ = analyse(repo, 'propagate._fft2')
    rets = returns(p2)
    FFT2 = ('fft.fft2', 'scipy.fft.fft2', 'scipy.fftpack.fft2', 'fft.fftn', 'scipy.fft.fftn')
    SHIFTS = ('fft.fftshift', 'fft.ifftshift', 'scipy.fft.fftshift', 'scipy.fft.ifftshift')
    if len(rets) > 1:
        # a special case next to the shifted transform: whatever stands in for the two shifts acts on both axes, so the test
        # that selects it has to look at both axes of the array (a parity shortcut that asks the row count only is wrong for
        # even x odd grids, which per-axis pixel scales produce)
        xs_ = nf.attr(S('x'), 'shape').single_atom()
        general = [p for p in rets if any(is_app(a_, SHIFTS) for a_ in nf.value_atoms(p.ret))]
        for p in rets:
            if p in general:
                continue
            axes_ = set()
            for c_, _pol, _n in p.conds:
                for a_ in nf.value_atoms(c_):
                    if a_[0] == 'idx' and a_[1] == xs_ and isinstance(a_[2], Poly) and a_[2].const_value() is not None:
                        axes_.add(int(a_[2].const_value()))
            chk.ob('C09-h', 'N-nesting', f2.key, 'a path without the two shifts is selected by looking at both axes',
                   False if len(axes_) == 1 else None,
                   f'[{conds_str(p)[:100]}] returns {fmt(p.ret)[:100]}: chosen by the size of axis {sorted(axes_)} only'
                   if len(axes_) == 1 else f'undecided: [{conds_str(p)[:100]}] is not the shifted transform', f2.loc(p.node))
        rets = general
    if len(rets) != 1:
        raise AnalysisError('_fft2: expected a single path')
    r = rets[0].ret
    nest = None
    norm = None
    ffts = [x for x in nf.value_atoms(r) if is_app(x, FFT2)]
    if len(ffts) != 1:
        raise AnalysisError(f'_fft2: expected exactly one fft2 in the result, found {len(ffts)}')
    for extra in ffts[0][2][1:]:
        if isinstance(extra, Tup):
            for pr in extra.items:
                if isinstance(pr, Tup) and pr.items[0] == Const('norm'):
                    norm = pr.items[1]
    # the transform may carry a scalar factor (a normalisation applied by hand)
    outers = [x for x in (r.atoms(deep=False) if isinstance(r, Poly) else []) if is_app(x, SHIFTS)]
    a = outers[0] if len(outers) == 1 else None
    scale = r / Poly.atom(a) if a is not None else None
    if a is not None:
        outer = a[1].split('.')[-1]
        mid = a[2][0].single_atom() if isinstance(a[2][0], Poly) else None
        if mid is None and isinstance(a[2][0], Poly) and len(a[2][0].terms) == 1:
            # shift(c * fft2(..)): the factor commutes with the roll
            inner_f = [x for x in a[2][0].atoms(deep=False) if is_app(x, FFT2)]
            if len(inner_f) == 1:
                mid = inner_f[0]
                scale = scale * (a[2][0] / Poly.atom(mid)) if scale is not None else None
        if mid is not None and is_app(mid, FFT2):
            inner = mid[2][0].single_atom() if isinstance(mid[2][0], Poly) else None
            if inner is not None and is_app(inner, SHIFTS) and nf.strip_apps(inner[2][0]) == S('x'):
                nest = (outer, inner[1].split('.')[-1])
    if nest is None:
        chk.undecided('C09-h', 'N-nesting', f2.key, 'origin floor(n/2): un-centre with ifftshift, re-centre with fftshift',
                      f'the centring is not written with fftshift/ifftshift: {fmt(r)[:160]}', f2.loc())
    else:
        chk.ob('C09-h', 'N-nesting', f2.key, 'origin floor(n/2): un-centre with ifftshift, re-centre with fftshift',
               nest == ('fftshift', 'ifftshift'),
               f'{nest[0]}(fft2({nest[1]}(x))): ifftshift rolls by -(n//2) and sends index floor(n/2) to 0, fftshift rolls '
               f'by +n//2; the two nestings agree only for even n (reference: tests/test_fourier.py)', f2.loc())
    # unitary: norm='ortho', or the plain transform divided by sqrt(rows*cols) of the plane - for rectangular planes too
    xs = nf.attr(S('x'), 'shape')
    n0, n1 = nf.index(xs, C(0)), nf.index(xs, C(1))
    by_hand = [(n0 * n1).pow(Fraction(-1, 2)), (nf.attr(S('x'), 'size')).pow(Fraction(-1, 2)),
               nf.app('prod', xs).pow(Fraction(-1, 2))]
    na_ = norm.single_atom() if isinstance(norm, Poly) else None
    if na_ is not None and na_[0] == 'sym' and na_[1] in f2.param_names():
        # the normalisation is a parameter of the helper: what its callers hand over (or its default) decides
        import ast as _ast
        vals = set()
        dflt = {p_: d_ for p_, d_, _k in f2.params()}.get(na_[1])
        for g_ in repo.all_functions():
            if g_.module.name != f2.module.name:
                continue
            for node in _ast.walk(g_.node):
                if isinstance(node, _ast.Call) and (dotted(node.func) or '').split('.')[-1] == f2.name:
                    kw = next((k.value for k in node.keywords if k.arg == na_[1]), None)
                    pos_i = f2.param_names().index(na_[1])
                    given = kw if kw is not None else (node.args[pos_i] if len(node.args) > pos_i else dflt)
                    vals.add(given.value if isinstance(given, _ast.Constant) else '?')
        if vals == {'ortho'}:
            norm = Const('ortho')
        elif vals and '?' not in vals and vals <= {None, 'backward'}:
            norm = None
    if scale is None:
        unitary, detu = None, f'norm={norm!r}; overall factor not isolated in {fmt(r)[:120]}'
    elif norm == Const('ortho'):
        unitary, detu = scale == C(1), f"norm='ortho', extra factor {fmt(scale)}"
    elif norm in (None, Const('backward')):
        unitary = scale in by_hand
        detu = f'norm={norm!r}, factor applied by hand {fmt(scale)}' + ('' if unitary else
                                                                        ' (unitary needs 1/sqrt(rows*cols) of the transformed plane)')
    else:
        unitary, detu = False, f'norm={norm!r}'
    chk.ob('C09-h', 'T-keyword', f2.key, "the transform is unitary (norm='ortho')", unitary, detu, f2.loc())
