import ast
from fractions import Fraction
import os
"""C04 - tilt carried as metadata is optically identical to tilt in the OPD."""
from ..resilient import run_nested as _run_nested
from .. import nf
from ..nf import Poly, Tup, Const, Slice, NONE, TRUE, FALSE
from ..model import AnalysisError
from ..rules import run as analyse, returns, fmt, is_app, S, C, pair, run_snippet, mentions_sym, conds_str
from . import common

TILT_INLINE = ['plane.Tilt.__init__', 'plane.TiltInterface.__init__', 'plane.Plane.__init__',
               'field.Field.__init__', 'field.Field.shift', 'plane.Tilt.shift']


def tilt_chain(chk, repo, clause):
    """Compose Tilt(x, y) -> Field.shift(..., indexing='ij') symbolically: the
    row displacement must be +z*x/du_row*oversample and the column displacement
    -z*y/du_col*oversample (same-axis pixel size, documented signs)."""
    src = ("t = Tilt(x=ax, y=ay)\n"
           "f = Field(data=d, tilt=[t])\n"
           "out = f.shift(z=z, wavelength=wl, pixelscale=ps, oversample=osf, indexing='ij')\n")
    env = {n: S(n) for n in ('ax', 'ay', 'd', 'z', 'wl', 'osf')}
    ps = pair('ps')
    env['ps'] = ps
    cont, done, _ = run_snippet(repo, 'plane', src, env, inline=TILT_INLINE,
                                inline_ctor=['plane.Tilt', 'field.Field'])
    if not cont:
        raise AnalysisError('tilt chain: no completed path')
    f = repo.func('field.Field.shift')
    outs = {c.env['out'] for c in cont}
    want = Tup([S('z') * S('ax') * S('osf') / ps.items[0], -S('z') * S('ay') * S('osf') / ps.items[1]])
    for k, axis in ((0, 'row'), (1, 'col')):
        got = sorted({fmt(o.items[k]) if isinstance(o, Tup) and len(o) == 2 else fmt(o) for o in outs})
        ok = all(isinstance(o, Tup) and len(o) == 2 and o.items[k] == want.items[k] for o in outs)
        chk.ob(clause, 'U/N-chain', 'field.Field.shift', f'{axis} displacement of Tilt(x, y) [indexing=ij]', ok,
               f'{axis} shift = {"; ".join(got)}; the property requires {fmt(want.items[k])} '
               f'(focal_length*angle/du_{axis}*oversample, +x -> +row, +y -> -col)', f.loc())


def additive(chk, repo, clause):
    for key in ('plane.Tilt.shift', 'plane.DispersiveTilt.shift'):
        f, paths, _ = analyse(repo, key)
        rets = returns(paths)
        if not rets:
            raise AnalysisError(f'{key}: no returning path')
        for p in rets:
            if not (isinstance(p.ret, Tup) and len(p.ret) == 2):
                raise AnalysisError(f'{key} does not return a pair')
            for k, inc in ((0, 'xs'), (1, 'ys')):
                g = p.ret.items[k] - S(inc)
                bad = [s for s in ('xs', 'ys') if mentions_sym(g, s)]
                chk.ob(clause, 'N-linear', key, f'component {k} = {inc} + g, g independent of the incoming shift',
                       not bad, f'{fmt(p.ret.items[k])} - {inc} = {fmt(g)}' + (f' still depends on {bad}' if bad else ''),
                       f.loc(p.node))


def folding(chk, repo, clause):
    # Field.shift threads the accumulators through every entry of self.tilt
    f, paths, _ = analyse(repo, 'field.Field.shift', config={'indexing': Const('ij')})
    rets = returns(paths)
    ok, det = False, 'no loop over self.tilt found'
    for p in rets:
        for lp in p.state.loops:
            if lp['func'] != f.key:
                continue
            whole = lp['iter'] == nf.attr(S('self'), 'tilt')
            calls = [e for e in p.events if e.kind == 'call' and e.data.get('callee') == 'method:shift' and e.in_loop]
            thr = False
            for e in calls:
                kw = e.data.get('kwargs') or {}
                args = e.data.get('args') or []
                xs = kw.get('xs', args[0] if args else None)
                ys = kw.get('ys', args[1] if len(args) > 1 else None)
                names = list(lp['phi'])
                thr = len(names) == 2 and xs == lp['phi'][names[0]] and ys == lp['phi'][names[1]] and \
                    kw.get('z') == S('z') and kw.get('wavelength') == S('wavelength')
                if not thr and len(names) == 1:
                    # one accumulator holding the (x, y) pair: its two items go in, the result of the call comes back
                    phi = lp['phi'][names[0]]
                    thr = xs == nf.index(phi, C(0)) and ys == nf.index(phi, C(1)) and kw.get('z') == S('z') and \
                        kw.get('wavelength') == S('wavelength') and \
                        all(isinstance(ends.get(names[0]), Poly) and ends[names[0]].single_atom() is not None and
                            is_app(ends[names[0]].single_atom(), 'm:shift') and
                            dict((k_.items[0].value, k_.items[1]) for k_ in ends[names[0]].single_atom()[2][1].items
                                 if isinstance(k_, Tup)).get('xs') == xs for ends in lp['ends'])
            ok = whole and thr and len(calls) == 1
            det = f'iterates over {fmt(lp["iter"])}; shift call gets xs/ys = ' + \
                  (', '.join(fmt((e.data.get("kwargs") or {}).get(k)) for e in calls for k in ('xs', 'ys')) or '-')
    chk.ob(clause, 'D-fold', f.key, 'every recorded tilt is folded, accumulators threaded', ok, det, f.loc())
    # ... and what the elements accumulated - angular and dispersive ones alike - is converted to samples as it is: (x, y) in
    # metres over the pixel size of the axis it runs along, rows from -y and columns from +x; a sign folded into this step
    # (with the opposite sign put into one kind of element) mirrors the displacement of every other kind
    okc, detc = None, 'undecided: the accumulated (x, y) pair is not found in the result'
    for p in rets:
        for lp in p.state.loops:
            if lp['func'] != f.key or not (isinstance(p.ret, Tup) and len(p.ret) == 2):
                continue
            calls = [e for e in p.events if e.kind == 'call' and e.data.get('callee') == 'method:shift' and e.in_loop]
            if len(calls) != 1:
                continue
            kw = calls[0].data.get('kwargs') or {}
            xa = kw.get('xs').single_atom() if isinstance(kw.get('xs'), Poly) else None
            ya = kw.get('ys').single_atom() if isinstance(kw.get('ys'), Poly) else None
            if xa is None or ya is None or xa[0] != 'loop' or ya[0] != 'loop':
                continue
            X, Y = Poly.atom(('loop', xa[1], 'out')), Poly.atom(('loop', ya[1], 'out'))
            ps, osf = S('pixelscale'), S('oversample')
            want = (-Y / nf.index(ps, C(0)) * osf, X / nf.index(ps, C(1)) * osf)
            got = p.ret.items
            if all(isinstance(g, Poly) for g in got) and {a for g in got for a in nf.value_atoms(g) if a[0] == 'loop'} == {X.single_atom(), Y.single_atom()}:
                okc = got[0] == want[0] and got[1] == want[1]
                detc = f'(row, col) = ({fmt(got[0])[:70]}, {fmt(got[1])[:70]}); the convention is ({fmt(want[0])}, {fmt(want[1])})'
    chk.ob(clause, 'N-formula', f.key, 'the accumulated (x, y) becomes (row, col) = (-y/du_row, +x/du_col) * oversample, for every kind of element',
           okc, detc, f.loc())
    # TiltInterface.multiply appends itself to every field of the new wavefront
    f, paths, _ = analyse(repo, 'plane.TiltInterface.multiply')
    ok, det = False, ''
    for p in returns(paths):
        sup = p.calls('plane.Plane.multiply')
        for e in p.writes():
            if e.data.get('how') == 'method:append' and e.in_loop and sup:
                t = e.target.single_atom()
                good = t[0] == 'attr' and t[2] == 'tilt' and t[1][0] == 'idx' and \
                    t[1][1] == nf.attr(sup[0].result, 'data').single_atom() and e.data['args'] == [S('self')]
                ok = ok or good
                det = f'{fmt(e.target)}.append({fmt(e.data["args"][0])})'
        ok = ok and isinstance(p.ret, Poly) and sup and p.ret == sup[0].result
        # ... on every way through the loop body: the same element passed twice tilts twice
        for lp in p.state.loops:
            if lp['func'] != f.key:
                continue
            for bs in lp['states']:
                evs = bs.events[lp['n_pre_events']:]
                if not any(e.kind == 'write' and e.data.get('how') == 'method:append' for e in evs):
                    cs = [(c, pol) for c, pol, _ in bs.conds[len(lp.get('pre_conds', ())):]] if hasattr(bs, 'conds') else []
                    ok = False
                    det = 'a way through the loop body leaves a field without this tilt' + \
                        (' [' + ', '.join(('' if pol else 'not ') + fmt(c)[:60] for c, pol in cs[-2:]) + ']' if cs else '')
    chk.ob(clause, 'D-fold', f.key, 'the tilt element is appended to every field of the product', bool(ok), det, f.loc())
    # Wavefront(tilt=[rx, ry]) wraps Tilt(x=rx, y=ry)
    f, paths, _ = analyse(repo, 'wavefront.Wavefront.__init__', config={'tilt': pair('tilt')})
    ok, det = False, ''
    dropped = []
    for p in paths:
        ts = [e for e in p.events if e.kind == 'call' and e.data.get('new') == 'plane.Tilt']
        fs = [e for e in p.events if e.kind == 'call' and e.data.get('new') == 'field.Field']
        if fs and not ts and p.status != 'raise':
            # a way through the constructor on which a given [rx, ry] pair leaves no Tilt behind
            dropped.append(conds_str(p)[:120])
        if ts and fs:
            b = ts[0].bound
            tl = fs[0].bound.get('tilt')
            ok = b.get('x') == pair('tilt').items[0] and b.get('y') == pair('tilt').items[1] and \
                isinstance(tl, Tup) and len(tl) == 1 and tl.items[0] == ts[0].data['result']
            det = f'Tilt(x={fmt(b.get("x"))}, y={fmt(b.get("y"))}) -> Field(tilt={fmt(tl)})'
    chk.ob(clause, 'D-fold', f.key, 'wavefront tilt [rx, ry] becomes Tilt(x=rx, y=ry) on the initial field', ok and not dropped,
           det if not dropped else f'a given tilt pair is dropped when {dropped[0]} (one zero angle does not make the other one vanish)', f.loc())


def fit_tilt_rule(chk, repo, clause):
    f, paths, _ = analyse(repo, 'plane.Plane.fit_tilt', config={'inplace': TRUE})
    n = 0
    for p in returns(paths):
        tilts = [e for e in p.events if e.kind == 'call' and e.data.get('new') == 'plane.Tilt']
        eins = [e for e in p.events if e.kind == 'call' and e.data.get('callee') == 'ext:numpy.einsum']
        if not tilts:
            if eins and any(e.kind == 'write' and e.data.get('attr') == 'opd' or e.kind == 'call' and
                            str(e.data.get('callee', '')).startswith('ext:numpy.') and e.data.get('inplace') for e in p.events):
                # the ramp is taken out of the OPD on this path but never entered in the tilt list: it is lost
                grows = [w for w in p.events if w.kind == 'write' and w.data.get('how') in ('method:append', 'method:extend', 'augassign')
                         and isinstance(w.target, Poly) and w.target.single_atom() is not None
                         and w.target.single_atom()[0] == 'attr' and w.target.single_atom()[2] == 'tilt']      # the list itself
                chk.ob(clause, 'D-index', f.key, 'the removed tip/tilt is recorded on every path', None if grows else False,
                       (f'undecided: path [{conds_str(p)[:100]}] extends the tilt list with something that is not followed' if grows else
                        f'path [{conds_str(p)[:160]}] subtracts the fitted ramp from the OPD without appending a Tilt'), f.loc(p.node))
            continue
        for t, e in zip(tilts, eins):
            n += 1
            spec, basis, coef = e.data['args'][0], e.data['args'][1], e.data['args'][2]
            _pv = nf.attr(S('self'), 'ptt_vector')
            basis = nf.block_rows_view(basis, _pv, nf.attr(S('self'), 'size'), 3)      # reshape(size, 3, -1)[k] = rows 3k..3k+2
            coef = nf.block_rows_view(coef, _pv, nf.attr(S('self'), 'size'), 3)
            ba, ca = basis.single_atom(), coef.single_atom()
            # basis rows lo:hi and coefficient entries lo':hi'
            bk = ba[2] if ba and ba[0] == 'idx' else None
            ck = ca[2] if ca and ca[0] == 'idx' else None
            seg = e.in_loop
            cs = ck.items[-1] if isinstance(ck, Tup) else ck
            coef_var = ca[1] if ca else None
            if coef_var is not None and coef_var[0] not in ('loop', 'sym'):
                # the coefficients were read back from where the fit was stored: name that store
                for w in p.events:
                    if w.kind == 'write' and w.data.get('how') == 'setitem' and isinstance(w.data.get('value'), Poly) and \
                            nf.block_rows_view(w.data.get('value'), _pv, nf.attr(S('self'), 'size'), 3) == Poly.atom(coef_var) \
                            and isinstance(w.target, Poly) and w.target.single_atom() is not None:
                        coef_var = w.target.single_atom()
            tilt_only = isinstance(bk, Slice) and isinstance(cs, Slice) and cs.lo == C(1) and cs.hi == C(3) and \
                bk.hi - bk.lo == C(2)
            piston_off = isinstance(bk, Slice) and (bk.lo == C(1) if not seg else (bk.lo - 1).const_value() is None
                                                    and nf.subst_value(bk.lo, {a: nf.ZERO for a in bk.lo.atoms()}) == C(1))
            batch = _batched_spec(spec)
            if batch is not None:
                # all segments in one contraction ('sij,si->sj'): the operands are the rows lo:hi of every block of the
                # (size, 3, npix) view of the basis and the entries lo':hi' of every row of the coefficient table
                seg = True
                full = Slice(nf.NONE, nf.NONE)
                view = ba is not None and ba[0] == 'idx' and ba[1][0] == 'app' and ba[1][1] == 'm:reshape' and \
                    list(ba[1][2][:3]) == [_pv, nf.attr(S('self'), 'size'), C(3)]
                if batch and view and isinstance(bk, Tup) and len(bk) == 2 and bk.items[0] == full and isinstance(bk.items[1], Slice) \
                        and isinstance(ck, Tup) and len(ck) == 2 and ck.items[0] == full and isinstance(cs, Slice):
                    rows = bk.items[1]
                    tilt_only = cs.lo == C(1) and cs.hi == C(3) and rows.hi is not nf.NONE and rows.lo is not nf.NONE and \
                        isinstance(rows.hi, Poly) and isinstance(rows.lo, Poly) and rows.hi - rows.lo == C(2)
                    piston_off = rows.lo == C(1)
                else:
                    tilt_only = piston_off = None
            tb = t.bound
            coef_base = Poly.atom(ca[1]) if ca else None
            xi = tb.get('x').single_atom() if isinstance(tb.get('x'), Poly) else None
            yi = tb.get('y').single_atom() if isinstance(tb.get('y'), Poly) else None

            def last(k):
                return k.items[-1] if isinstance(k, Tup) else k
            def column(a):
                """(variable, column) of t[k, c] written as t[:, lo:hi][k][j] (row k of a column block): column lo + j"""
                if a is None or a[0] != 'idx' or not isinstance(a[2], Poly) or a[2].const_value() is None:
                    return None
                row = a[1]
                if row[0] != 'idx':
                    return None
                blk = row[1]
                if blk[0] == 'idx' and isinstance(blk[2], Tup) and len(blk[2]) == 2 and isinstance(blk[2].items[1], Slice) \
                        and blk[2].items[0] == Slice(nf.NONE, nf.NONE) and isinstance(blk[2].items[1].lo, Poly):
                    return blk[1], blk[2].items[1].lo + a[2]
                return None
            rec = xi is not None and yi is not None and xi[0] == 'idx' and yi[0] == 'idx' and \
                last(xi[2]) == C(1) and last(yi[2]) == C(2) and _same_var(xi[1], coef_var) and _same_var(yi[1], coef_var)
            if not rec and column(xi) and column(yi):
                (vx, cx), (vy, cy) = column(xi), column(yi)
                rec = cx == C(1) and cy == C(2) and _same_var(vx, coef_var) and _same_var(vy, coef_var)
            label = 'segmented' if seg else 'monolithic'
            chk.ob(clause, 'D-index', f.key, f'removes tip and tilt, not piston [{label}]',
                   None if tilt_only is None else bool(tilt_only and piston_off),
                   f'OPD correction = einsum({fmt(spec)}, {fmt(basis)}, {fmt(coef)})', f.loc(e.node))
            chk.ob(clause, 'D-index', f.key, f'records Tilt(x=t[1], y=t[2]) of the same fit [{label}]', bool(rec),
                   f'Tilt(x={fmt(tb.get("x"))}, y={fmt(tb.get("y"))})', f.loc(t.node))
    # the Tilt objects are recorded on the plane that is handed back - the one whose OPD lost the ramp: with inplace=False that
    # is the copy (recording them on the original leaves it with the ramp in the OPD *and* the tilt, the copy with neither)
    from ..nf import FALSE as _FALSE
    for cfg, label in ((TRUE, 'inplace=True'), (_FALSE, 'inplace=False')):
        _, pp, _ = analyse(repo, f, config={'inplace': cfg})
        okr, detr, nr = None, 'undecided: no growth of a tilt list found', 0
        for p in returns(pp):
            grows = [w for w in p.events if w.kind == 'write' and w.data.get('how') in ('method:append', 'method:extend', 'augassign')
                     and isinstance(w.target, Poly) and w.target.single_atom() is not None
                     and w.target.single_atom()[0] == 'attr' and w.target.single_atom()[2] == 'tilt']
            for w in grows:
                nr += 1
                owner = Poly.atom(w.target.single_atom()[1])
                if owner == p.ret:
                    okr = True if okr is None else okr
                else:
                    okr = False
                    detr = f'the fitted Tilt goes to {fmt(owner)[:40]}.tilt at {w.loc()} while {fmt(p.ret)[:40]} is the plane that is returned'
        chk.ob(clause, 'D-index', f.key, f'the removed tip/tilt is recorded on the plane that is returned [{label}]', okr,
               detr if okr is not True else f'{nr} recording(s)', f.loc())
    # ... after the ramp has left the OPD: the subtraction can fail (a read-only or integer OPD array), and a Tilt booked
    # before it stays on the plane next to the unchanged OPD
    _, po, _ = analyse(repo, f, config={'inplace': TRUE})
    oko, deto, no_ = None, 'undecided: OPD update / tilt recording not found', 0
    for p in returns(po):
        evs = p.events
        rec = [i for i, w in enumerate(evs) if w.kind == 'write' and w.data.get('how') in ('method:append', 'method:extend')
               and isinstance(w.target, Poly) and w.target.single_atom() is not None and w.target.single_atom()[0] == 'attr'
               and w.target.single_atom()[2] == 'tilt' and w.depth == 0]
        upd = [i for i, w in enumerate(evs) if w.kind == 'write' and w.depth == 0 and
               (w.data.get('attr') in ('opd', '_opd') or w.data.get('via_attr') in ('opd', '_opd'))]
        if not rec or not upd:
            continue
        no_ += 1
        if min(rec) < max(upd):
            oko, deto = False, f'the Tilt is appended at {evs[min(rec)].loc()} before the OPD is updated at {evs[max(upd)].loc()}'
        elif oko is None:
            oko, deto = True, ''
    chk.ob(clause, 'D-order', f.key, 'the removed tip/tilt is recorded after the OPD has been updated', oko, deto or f'{no_} path(s)', f.loc())
    if n < 2:
        raise AnalysisError(f'fit_tilt: only {n} of 2 branches recognised')


def _batched_spec(spec):
    """None for a two-operand contraction of one block ('ij,i->j'); True for the same contraction carried out for every
    block at once ('sij,si->sj', any letters); False for any other contraction with a three-letter operand."""
    if not (isinstance(spec, Const) and isinstance(spec.value, str)):
        return None
    txt = spec.value.replace(' ', '')
    if '->' not in txt or txt.count(',') != 1:
        return None
    (a, b), out = txt.split('->')[0].split(','), txt.split('->')[1]
    if len(a) < 3 and len(b) < 3:
        return None
    return len(a) == 3 and len(b) == 2 and len(out) == 2 and len(set(a)) == 3 and a[0] == b[0] == out[0] and a[1] == b[1] \
        and a[2] == out[1]


def _same_var(a, b):
    """Same variable, allowing the in-loop (phi) and after-loop (out) views of it."""
    def strip(x):
        while x[0] == 'app' and x[1] == 'setitem' and isinstance(x[2][0], Poly) and x[2][0].single_atom() is not None:
            x = x[2][0].single_atom()
        return x
    a, b = strip(a), strip(b)
    # a row view `var[k]` (k the running segment index) that was written to belongs to var
    for _ in range(2):
        if b[0] == 'idx' and isinstance(b[2], Poly) and b[2].single_atom() is not None and b[2].single_atom()[0] == 'iter':
            b = strip(b[1])
        if a[0] == 'idx' and isinstance(a[2], Poly) and a[2].single_atom() is not None and a[2].single_atom()[0] == 'iter':
            a = strip(a[1])
    if a == b:
        return True
    return a[0] == 'loop' and b[0] == 'loop' and a[1] == b[1]


def ptt_rows(repo):
    """The rows of Plane.ptt_vector as values: -> (f, mesh event, monolithic rows or None,
    [(slice key, rows, loop index k)] of the segmented fill)."""
    f, paths, _ = analyse(repo, 'plane.Plane.ptt_vector')
    mono, seg, mesh = None, [], None
    for p in returns(paths):
        if p.calls('helper.mesh'):
            mesh = p.calls('helper.mesh')[0]
        if isinstance(p.ret, Tup) and len(p.ret) == 3 and all(isinstance(r, Poly) for r in p.ret.items):
            mono = p.ret.items
        for e in p.events:
            if e.kind == 'write' and e.data.get('how') == 'setitem' and e.in_loop and isinstance(e.data.get('key'), nf.Slice):
                v = e.data.get('value')
                ks = [a for a in nf.value_atoms(e.data['key']) if a[0] == 'iter']
                if isinstance(v, Tup) and len(v) == 3 and all(isinstance(r, Poly) for r in v.items) and ks:
                    seg.append((e.data['key'], v.items, Poly.atom(ks[0]), e))
        # ... or row by row: ptt_vector[3*k] = ..., ptt_vector[3*k + 1] = ..., ptt_vector[3*k + 2] = ...
        single = {}
        for e in p.events:
            if e.kind == 'write' and e.data.get('how') == 'setitem' and e.in_loop and isinstance(e.data.get('key'), Poly) \
                    and isinstance(e.data.get('value'), Poly) and not e.data.get('aug'):
                ks = [a for a in nf.value_atoms(e.data['key']) if a[0] == 'iter']
                if len(ks) == 1:
                    j = (e.data['key'] - 3 * Poly.atom(ks[0])).const_value()
                    if j is not None and j in (0, 1, 2):
                        single.setdefault(ks[0], {})[int(j)] = (e.data['value'], e)
        for k_, rows_ in single.items():
            if sorted(rows_) == [0, 1, 2] and not any(x[2] == Poly.atom(k_) for x in seg):
                seg.append((nf.Slice(3 * Poly.atom(k_), 3 * Poly.atom(k_) + 3), tuple(rows_[j][0] for j in (0, 1, 2)), Poly.atom(k_), rows_[0][1]))
    return f, mesh, mono, seg


def _grid_basis(chk, repo, clause, f, mono):
    """ptt_vector with the coordinate grids written out (meshgrid / mgrid instead of helper.mesh): decided element by
    element - the tip row is (+) the row index counted from floor(nr/2), the tilt row (-) the column index counted from
    floor(nc/2), each on the (nr, nc) grid of the plane.  -> True when a verdict was given."""
    from ..elem import ElemEval, Unsupported
    from ..shapes import Shapes
    SELF = S('self')
    shp = nf.attr(SELF, 'shape')
    i, j = S('@i'), S('@j')
    want = {1: i - nf.floor(nf.index(shp, C(0)) / 2), 2: -(j - nf.floor(nf.index(shp, C(1)) / 2))}
    pxs = {1: (nf.index(nf.attr(SELF, 'pixelscale'), C(0)), nf.index(nf.attr(SELF, '_pixelscale'), C(0))),
           2: (nf.index(nf.attr(SELF, 'pixelscale'), C(1)), nf.index(nf.attr(SELF, '_pixelscale'), C(1)))}
    verdicts, dets = [], []
    for k in (1, 2):
        grids = [a for a in nf.value_atoms(mono[k]) if is_app(a, ('meshgrid', 'mgrid', 'indices'))]
        if len(grids) != 1:
            return False
        g = Poly.atom(grids[0])
        ev = ElemEval(Shapes({}, assume_scalar=True))
        try:
            el = ev.at(g, (i, j))
        except Unsupported:
            return False
        # the row of the basis is ravel(grid * mask) * pixel size (up to the sign convention)
        coef = None
        for sign in (1, -1):
            for px in pxs[k]:
                for mk in (nf.attr(SELF, 'mask'), nf.attr(SELF, '_mask')):
                    if mono[k] == sign * nf.app('m:ravel', g * mk) * px or mono[k] == sign * nf.app('m:ravel', g) * nf.app('m:ravel', mk) * px \
                            or mono[k] == sign * nf.app('m:ravel', mk) * nf.app('m:ravel', g) * px:
                        coef = sign
        if coef is None:
            return False
        verdicts.append(coef * el == want[k])
        dets.append(f'row {k}: element [i, j] of the ramp = {fmt(coef * el)[:80]}; expected {fmt(want[k])[:80]}')
    ok = all(verdicts)
    chk.ob(clause, 'U-axis', f.key, 'basis = [1, +row ramp, -column ramp] (signs of the Tilt convention) [monolithic]', ok,
           '; '.join(dets), f.loc())
    chk.ob(clause, 'U-axis', f.key, 'row ramp scaled by the row pixel size, column ramp by the column pixel size [monolithic]', ok,
           '; '.join(dets), f.loc())
    return True


def basis_rule(chk, repo, clause):
    f, mesh, mono, seg = ptt_rows(repo)
    if mesh is None:
        if mono is not None and _grid_basis(chk, repo, clause, f, mono):
            return
        raise AnalysisError('ptt_vector does not use helper.mesh')
    r, c = nf.index(mesh.result, C(0)), nf.index(mesh.result, C(1))
    px = lambda k: (nf.index(nf.attr(S('self'), 'pixelscale'), C(k)), nf.index(nf.attr(S('self'), '_pixelscale'), C(k)))
    cases = []
    if mono is not None:
        cases.append(('monolithic', mono, (nf.attr(S('self'), 'mask'), nf.attr(S('self'), '_mask'))))
    for key, rows, k, e in seg:
        cases.append(('segmented', rows, (nf.index(nf.attr(S('self'), 'mask'), k), nf.index(nf.attr(S('self'), '_mask'), k))))
    if not cases:
        chk.undecided(clause, 'U-axis', f.key, 'basis = [1, +row ramp, -column ramp] scaled by the same-axis pixel size',
                      'the rows of ptt_vector are not built as a list of three row arrays', f.loc())
        return
    for label, rows, masks in cases:
        ok_rows = ok_scale = False
        det = ''
        # the grids of this case: the mesh call its own rows are built from (another path may have called mesh with the
        # plane shape spelled differently)
        own = [a for a in nf.value_atoms(rows[1]) if is_app(a, 'call:helper.mesh')]
        if len(own) == 1:
            r, c = nf.index(Poly.atom(own[0]), C(0)), nf.index(Poly.atom(own[0]), C(1))
        for m in masks:
            mv = nf.app('m:ravel', m)
            base = [rows[i] / mv for i in range(3)]
            ones = [a for a in base[0].atoms(deep=False) if is_app(a, 'ones')]
            piston = len(ones) == 1 and base[0] == Poly.atom(ones[0]) or base[0] == nf.ONE
            for p0 in px(0):
                for p1 in px(1):
                    if piston and base[1] == nf.app('m:ravel', r) * p0 and base[2] == -nf.app('m:ravel', c) * p1:
                        ok_rows = ok_scale = True
            if not ok_rows and piston:
                # separate the sign / ramp question from the scale question for the report
                q1, q2 = base[1] / nf.app('m:ravel', r), base[2] / nf.app('m:ravel', c)
                if any(q1 == p0 for p0 in px(0)) and any(q2 == -p1 for p1 in px(1)):
                    ok_rows = ok_scale = True
                elif q1.atoms() and q2.atoms() and not (nf.value_atoms(q1) | nf.value_atoms(q2)) & \
                        {a for a in nf.value_atoms(mesh.result)}:
                    ok_rows = all(cv is None or cv > 0 for cv in [t[1] for t in q1.terms]) and \
                        all(t[1] < 0 for t in q2.terms)
            det = '; '.join(fmt(b)[-90:] for b in base)
            if ok_rows:
                break
        chk.ob(clause, 'U-axis', f.key, f'basis = [1, +row ramp, -column ramp] (signs of the Tilt convention) [{label}]',
               ok_rows, f'rows / mask: {det}', f.loc())
        chk.ob(clause, 'U-axis', f.key, f'row ramp scaled by the row pixel size, column ramp by the column pixel size [{label}]',
               ok_scale, f'rows / mask: {det}', f.loc())


def dispersion_rule(chk, repo, clause):
    cls = repo.cls('plane.DispersiveTilt')
    f, paths, _ = analyse(repo, 'plane.DispersiveTilt._dispersion',
                          facts={nf.attr(S('self'), '_dispersion_order').single_atom(): C(1)})
    rets = returns(paths)
    if len(rets) != 1:
        raise AnalysisError('_dispersion: first-order branch does not fold to one path')
    d = nf.attr(S('self'), 'dispersion')
    back = nf.index(d, C(0)) * rets[0].ret + nf.index(d, C(1))
    chk.ob(clause, 'N-inverse', f.key, 'first-order dispersion is the exact inverse of its polynomial',
           back == S('wavelength'), f'polyval(dispersion, _dispersion(w)) = {fmt(back)}', f.loc(rets[0].node))
    f, paths, _ = analyse(repo, 'plane.DispersiveTilt._trace')
    ok = True
    for p in returns(paths):
        ok = ok and isinstance(p.ret, Tup) and len(p.ret) == 2 and \
            p.ret.items[1] == nf.app('polyval', nf.attr(S('self'), 'trace'), p.ret.items[0])
    chk.ob(clause, 'N-inverse', f.key, 'returned y lies on the trace polynomial at the returned x', ok, '', f.loc())
    # the closed form for a straight trace is chosen by the order of the trace, that of a linear dispersion by the order of
    # the dispersion: each polynomial has its own order attribute
    for key, own, other in (('plane.DispersiveTilt._trace', '_trace_order', '_dispersion_order'),
                            ('plane.DispersiveTilt._dispersion', '_dispersion_order', '_trace_order')):
        if not repo.has_func(key):
            continue
        fo = repo.func(key)
        _, ps_, _ = analyse(repo, fo)
        crossed = [fmt(c)[:60] for q in ps_ for c, _pol, _n in q.conds
                   if nf.attr(S('self'), other).single_atom() in nf.value_atoms(c) and nf.attr(S('self'), own).single_atom() not in nf.value_atoms(c)]
        tested = any(nf.attr(S('self'), own).single_atom() in nf.value_atoms(c) for q in ps_ for c, _pol, _n in q.conds)
        chk.ob(clause, 'D-guard', fo.key, f'the first-order shortcut is selected by the order of its own polynomial (`{own}`)',
               False if crossed else (True if tested else None),
               (f'branch condition `{crossed[0]}` looks at `{other}`: a curved trace with a linear dispersion (or the reverse) takes the '
                'straight-line formula of the other polynomial') if crossed else '', fo.loc())
    # arc length along the trace: integrand sqrt(1 + (d trace/dx)^2), with the derivative of *the trace polynomial*
    fd = repo.func('plane.DispersiveTilt._trace_dist_func') if repo.has_func('plane.DispersiveTilt._trace_dist_func') else None
    if fd is not None:
        _, dp, _ = analyse(repo, fd)
        tr = nf.attr(S('self'), 'trace')
        okd, detd = None, 'undecided: integrand not of the form sqrt(1 + polyval(derivative, x)**2)'
        for p in returns(dp):
            pv = [a for a in nf.value_atoms(p.ret) if is_app(a, 'polyval')]
            if len(pv) != 1 or p.ret != (1 + Poly.atom(pv[0]) ** 2).pow(Fraction(1, 2)):
                continue
            coeffs = pv[0][2][0]
            if coeffs == nf.app('polyder', tr):
                okd, detd = True, 'polyval(polyder(self.trace), x)'
                continue
            ca = coeffs.single_atom() if isinstance(coeffs, Poly) else None
            if ca is not None and ca[0] == 'attr' and ca[1] == ('sym', 'self'):
                # a precomputed derivative: evaluate the store in __init__ coefficient by coefficient
                _, ip, _ = analyse(repo, 'plane.DispersiveTilt.__init__')
                vals = {fmt(e.data['value']): e.data['value'] for q in ip for e in q.events
                        if e.kind == 'write' and e.data.get('how') == 'attrstore' and e.data.get('attr') == ca[2]}
                from ..elem import ElemEval, Unsupported
                from ..shapes import Shapes
                k = S('@k')
                order = nf.attr(tr, 'size') - 1
                for v in vals.values():
                    v = nf.subst_value(v, {nf.attr(S('self'), '_trace_order').single_atom(): order})
                    try:
                        sh = Shapes({tr.single_atom(): (nf.attr(tr, 'size'),), ('sym', 'trace'): (nf.attr(tr, 'size'),)}, assume_scalar=True)
                        el = ElemEval(sh).at(nf.subst_value(v, {('sym', 'trace'): tr}), (k,))
                    except Unsupported as ex:
                        detd = f'undecided: stored derivative not understood ({ex})'
                        continue
                    want = nf.index(tr, k) * (order - k)
                    okd = el == want
                    detd = f'derivative coefficient k = {fmt(el)[:100]}; d/dx of the trace (highest power first) has {fmt(want)[:60]}'
        chk.ob(clause, 'N-formula', fd.key, 'arc-length integrand sqrt(1 + trace\'(x)^2) uses the derivative of the trace polynomial',
               okd, detd, fd.loc())
    # the arc length is signed: distances on the short-wavelength side of the reference are negative, and the solver
    # that matches it to the dispersion's distance relies on that sign
    if repo.has_func('plane.DispersiveTilt._arc_len'):
        fa = repo.func('plane.DispersiveTilt._arc_len')
        _, ap, _ = analyse(repo, fa)
        oka, deta = None, 'undecided: no quadrature call with the two bounds found'
        for p in returns(ap):
            qs = [e for e in p.events if e.kind == 'call' and str(e.data.get('callee', '')).startswith('ext:scipy.integrate.')]
            for e in qs:
                args = list(e.data.get('args', []))
                kws = e.data.get('kwargs') or {}
                lo = args[1] if len(args) > 1 else kws.get('a')
                hi = args[2] if len(args) > 2 else kws.get('b')
                if lo is None or hi is None:
                    continue
                if lo == S('a') and hi == S('b'):
                    oka, deta = True, 'integrates from a to b as given'
                elif any(is_app(x, ('min', 'max', 'minimum', 'maximum', 'abs', 'sort', 'sorted', 'amin', 'amax'))
                         for v in (lo, hi) for x in nf.value_atoms(v)) or (lo == S('b') and hi == S('a')):
                    oka = False
                    deta = f'integrates from {fmt(lo)[:40]} to {fmt(hi)[:40]}: the arc length loses its sign, every distance on one side ' \
                           'of the origin is reported as positive and the matching solver stalls at 0'
        chk.ob(clause, 'N-formula', fa.key, 'the arc length keeps the sign of (b - a): the bounds reach the quadrature in the given order',
               oka, deta, fa.loc())
    # ... and so is the distance a higher-order dispersion is inverted to: wavelengths below the reference lie at negative
    # distances along the trace, so the solver's answer is handed on as it is (its modulus is a point on the other side)
    fdsp = repo.func('plane.DispersiveTilt._dispersion')
    _, hp, _ = analyse(repo, fdsp, facts={nf.attr(S('self'), '_dispersion_order').single_atom(): C(2)})
    oks, dets = None, 'undecided: no root finder / least-squares call found on the higher-order branch'
    for p in returns(hp):
        atoms = nf.value_atoms(p.ret)
        solver = [a for a in atoms if a[0] == 'app' and (a[1].startswith(('scipy.optimize.', 'optimize.')) or
                                                          a[1] in ('roots', 'numpy.roots', 'polynomial.polynomial.polyroots'))]
        if not solver:
            continue
        folded = [a for a in atoms if a[0] == 'app' and a[1] in ('abs', 'absolute', 'fabs', 'amax', 'max', 'maximum') and
                  any(x in nf.value_atoms(y) for y in a[2] if isinstance(y, (Poly, Tup)) for x in solver)]
        sq = isinstance(p.ret, Poly) and any(a[0] == 'poly' and any(x in a[1].atoms(deep=True) for x in solver) for a in atoms)
        if any(a[1] in ('abs', 'absolute', 'fabs') for a in folded) or sq:
            oks = False
            dets = f'returns {fmt(p.ret)[:120]}: the modulus of the solution - a wavelength on the short side of the reference is ' \
                   'placed at the mirror-image distance along the trace'
        elif oks is None:
            oks, dets = True, f'returns {fmt(p.ret)[:100]}'
    chk.ob(clause, 'N-formula', fdsp.key, 'the distance of a higher-order dispersion keeps its sign (the solution is handed on as found)',
           oks, dets, fdsp.loc())
    f, paths, _ = analyse(repo, 'plane.DispersiveTilt.shift')
    ok = False
    for p in returns(paths):
        dd = [e for e in p.calls('plane.DispersiveTilt._dispersion')]
        tt = [e for e in p.calls('plane.DispersiveTilt._trace')]
        ok = len(dd) == 1 and len(tt) == 1 and dd[0].bound.get('wavelength') == S('wavelength') \
            and tt[0].bound.get('dist') == dd[0].result
    chk.ob(clause, 'N-inverse', f.key, 'displacement = trace(dispersion^-1(wavelength))', ok, '', f.loc())


def run(chk, repo, tier):
    from .common import no_hidden_state
    no_hidden_state(chk, repo, 'C04')
    chk.clause('C04-a', 'Tilt(x,y) -> (row, col) shift: same-axis pixel size, +x -> +row, +y -> -col, times z*oversample', 2)
    chk.clause('C04-c', 'every shift implementation is additive in the incoming shift', 4)
    chk.clause('C04-d', 'all tilts are folded / concatenated / attached', 3)
    chk.clause('C04-e', 'shift conservation: integer part to the window, sub-pixel part to the transform', 6)
    from .common import Remap as _Remap
    from . import c01 as _c01
    from .c06 import insert_rules as _insert_rules
    # the sub-pixel part reaches the transform through its shift argument, which is applied to the memoised coordinate vectors:
    # they stay as they were computed, or a repeated propagation of the same tilted pupil is evaluated about another origin
    _run_nested(_c01, _Remap(chk, {'C01-a': 'C04-e', 'C01-d': 'C04-e', 'C01-j': 'C04-e'}), repo, tier, fname='run_check')
    _insert_rules(chk, repo, 'C04-e')
    # the FFT propagator has no way to apply tilt: it refuses every wavefront that carries any (angular or dispersive), so
    # tilt metadata never gets dropped silently
    from . import c09 as _c09
    nd4 = list(chk.not_decided)
    _run_nested(_c09, _Remap(chk, {'C09-a': 'C04-d'}), repo, tier)
    chk.not_decided[:] = nd4
    # segments displaced by their own tilts meet again in the output: where their windows touch they are one group
    chk.clause('C04-p', 'tilt-displaced segment fields are combined as the groups they form (reduce / group extents); each owns its transform', 3)
    from .c06 import disjoint_rules as _disjoint_rules
    _disjoint_rules(_Remap(chk, {'C06-f': 'C04-p'}), repo)
    from .prop_flow import own_storage_rule as _own_storage_rule
    _own_storage_rule(chk, repo, 'C04-p')
    from .prop_flow import skip_rule as _skip_rule
    _skip_rule(chk, repo, 'C04-p')
    from .prop_flow import per_field_shift_rule as _pfs_rule
    _pfs_rule(chk, repo, 'C04-p')
    chk.clause('C04-f', 'fit_tilt removes tip and tilt (not piston) and records exactly those coefficients', 4)
    chk.clause('C04-g', 'reader/writer slot agreement of Plane.tilt', 1)
    chk.clause('C04-h', 'first-order dispersion is inverted exactly; displacement lies on the trace; signed arc length', 4)
    chk.clause('C04-i', 'tilt basis: [1, +r*px_row, -c*px_col]', 2)
    chk.clause('C04-j', 'least-squares fit against the masked piston/tip/tilt basis; per segment inside its mask; pieces summed', 7)
    chk.not_decided += ['sample-for-sample agreement of the four tilt representations', 'numerical arc length for order > 1']
    tilt_chain(chk, repo, 'C04-a')
    # a tilt left in the OPD is imaged by the transform itself: its displacement is set by the sampling ratio of each axis
    # (dx*du of that axis), which is what the metadata shift of the same axis assumes - also for non-square output pixels
    from .c02 import alpha_rule as _alpha_rule
    _alpha_rule(chk, repo, 'C04-a')
    additive(chk, repo, 'C04-c')
    folding(chk, repo, 'C04-d')
    common.mul_concat(chk, repo, 'C04-d')
    from .plane_flow import product_rule
    product_rule(chk, repo, 'C04-d')
    from .c02 import contracts

    class _Only:
        """Route only the shift-conservation obligations of the propagate_dft contract into C04-e."""
        def __init__(self, chk):
            self.chk = chk

        def ob(self, clause, *a, **k):
            if clause == 'C04-e':
                return self.chk.ob(clause, *a, **k)

        def undecided(self, clause, *a, **k):
            if clause == 'C04-e':
                return self.chk.undecided(clause, *a, **k)
    contracts(_Only(chk), repo, 'x', 'x', 'x', 'x', clause_conserve='C04-e')
    from .extra_rules import fit_tilt_rules, ptt_mask_rule
    fit_tilt_rules(chk, repo, 'C04-j')
    ptt_mask_rule(chk, repo, 'C04-j')
    fit_tilt_rule(chk, repo, 'C04-f')
    # what a fit records is added to what the plane already carries (an earlier fit, a user's Tilt): nothing recorded before is
    # overwritten or removed, so OPD plus recorded tilt stays the original surface over any number of fits
    ff_ = repo.func('plane.Plane.fit_tilt')
    lost = []
    for node_ in ast.walk(ff_.node):
        tg_ = []
        if isinstance(node_, ast.Assign):
            tg_ = node_.targets
        elif isinstance(node_, ast.Delete):
            tg_ = node_.targets
        for t_ in tg_:
            if isinstance(t_, ast.Subscript) and isinstance(t_.value, ast.Attribute) and t_.value.attr == 'tilt':
                lost.append(f'`{ast.unparse(t_)}` is {"assigned" if isinstance(node_, ast.Assign) else "deleted"} at {ff_.loc(node_)}')
        if isinstance(node_, ast.Call) and isinstance(node_.func, ast.Attribute) and node_.func.attr in ('clear', 'pop', 'remove') and \
                isinstance(node_.func.value, ast.Attribute) and node_.func.value.attr == 'tilt':
            lost.append(f'`{ast.unparse(node_)[:40]}` at {ff_.loc(node_)}')
    chk.ob('C04-f', 'E-ownership', ff_.key, 'a fit adds to the recorded tilts and never replaces or removes one', not lost,
           '; '.join(lost[:2]) + (': a second fit overwrites what the first one recorded' if lost else ''), ff_.loc())
    # a tilt element met before the first sampled plane multiplies two one-element fields: they meet where their offsets are
    # equal by value; and a chip that shares a single row or column with the output is still propagated
    from .c06 import scalar_product_rule as _scalar_product_rule
    _scalar_product_rule(chk, repo, 'C04-e')
    from .extent_rules import extent_identities as _extent_identities4
    _extent_identities4(chk, repo, 'C04-e')
    from .extent_rules import mask_window_identities as _mask_window_identities4
    _mask_window_identities4(chk, repo, 'C04-e')
    # the angle a fit records is OPD slope over the pixel scale of its own axis: a rescaled plane keeps one scale per axis
    from . import c17 as _c17_4
    nd4b = list(chk.not_decided)
    _run_nested(_c17_4, _Remap(chk, {'C17-a': 'C04-f'}), repo, tier)
    chk.not_decided[:] = nd4b
    # a fit on a copy (the default) leaves the original as it was: the copy has tilt list and arrays of its own
    from .c10 import plane_copy_rules as _plane_copy_rules
    _plane_copy_rules(chk, repo, 'C04-f')
    common.tilt_slot_agreement(chk, repo, 'C04-g')
    dispersion_rule(chk, repo, 'C04-h')
    basis_rule(chk, repo, 'C04-i')
