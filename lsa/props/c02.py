"""C02 - far-field propagation puts the Fraunhofer field on the right samples."""
from .. import nf, dims
from ..nf import Poly, Tup, Const, NONE, TRUE, FALSE
from ..model import AnalysisError
from ..rules import conds_str, run as analyse, returns, fmt, is_app, S, C, pair, mentions_sym
from . import extent_rules as X
from .prop_flow import DftFlow, configs, wf_attr, bound_of, WF


def alpha_rule(chk, repo, clause):
    dx, du = pair('dx'), pair('du')
    f, paths, _ = analyse(repo, 'propagate._dft_alpha', config={'dx': dx, 'du': du})
    rets = returns(paths)
    if len(rets) != 1 or not isinstance(rets[0].ret, Tup) or len(rets[0].ret) != 2:
        raise AnalysisError('_dft_alpha does not return a pair')
    wl, z, osf = S('wavelength'), S('z'), S('oversample')
    for k, axis in ((0, 'row'), (1, 'col')):
        got = rets[0].ret.items[k]
        want = dx.items[k] * du.items[k] / (wl * z * osf)
        chk.ob(clause, 'N-formula', f.key, f'{axis} alpha = dx*du/(wavelength*z*oversample)', got == want,
               f'alpha[{k}] = {fmt(got)}; expected {fmt(want)}', f.loc(rets[0].node))
        ax = 'xr' if k == 0 else 'xc'
        au = 'ur0' if k == 0 else 'uc0'
        ad = {dx.items[k].single_atom(): dims.D(m=1, **{ax: -1}), du.items[k].single_atom(): dims.D(m=1, **{au: -1}),
              dx.items[1 - k].single_atom(): dims.D(m=1, **{('xc' if k == 0 else 'xr'): -1}),
              du.items[1 - k].single_atom(): dims.D(m=1, **{('uc0' if k == 0 else 'ur0'): -1}),
              ('sym', 'wavelength'): dims.D(m=1), ('sym', 'z'): dims.D(m=1), ('sym', 'oversample'): dims.D(os=1)}
        ok, msg, _ = dims.check(got, ad, want=dims.D(**{ax: -1, au: -1, 'os': -1}))
        chk.ob(clause, 'U-dims', f.key, f'{axis} alpha is cycles per (input sample x oversampled output sample)',
               ok is True, msg, f.loc(rets[0].node))


def is_any(v, alts):
    return any(v == a for a in alts)


def windows_by_value(chk, repo, cfg, label, clause_b, clause_c, clause_i, fl0):
    """The window contract of propagate_dft on values.  With the extent arithmetic (and the mask helpers) evaluated in
    place, the three quantities that leave the bookkeeping - the shape handed to dft2, the shift handed to dft2 and the
    offset of the output Field - are compared with what the specification gives for them:

        W_out  = extent(shape*oversample, 0)            or the bounding box of the mask about floor(n/2)
        W_prop = extent(prop_shape*oversample, fix(shift))
        I      = W_out intersect W_prop
        dft2.shape = size(I);  Field.offset = centre(I);  dft2.shift = centre(W_prop) - centre(I) + shift - fix(shift)
    """
    from .extent_rules import extent_inline
    wf = repo.cls('wavefront.Wavefront')
    inl = extent_inline(repo) + [k for k in ('propagate._mask_shape', 'propagate._mask_shift') if repo.has_func(k)]
    f, paths, _ = analyse(repo, 'propagate.propagate_dft', config=cfg, types={('sym', 'wavefront'): wf}, inline=inl,
                          max_paths=2048)
    from ..rules import none_state
    want_mask = cfg.get('mask') is not None and cfg.get('mask') != NONE
    osf = S('oversample')
    du = pair('pixelscale')
    HALF = lambda x: nf.floor(x / 2)
    n = 0
    from .prop_flow import transform_events
    for p in returns(paths):
        evs = transform_events(p)
        d2 = [e for e in evs if e.kind == 'call' and e.data.get('callee') == 'fourier.dft2']
        if not d2 or (none_state(p, 'mask') is False) != want_mask:
            continue
        if any(pol and fmt(c).startswith('lt(len(') for c, pol, _ in p.conds):
            continue            # array_extent's branch for shapes with fewer than two entries
        n += 1
        tag = f'{label}, by value' + (f', path {n}' if n > 1 else '')
        ob = lambda role, ok, det, ev=None, cl=clause_b: chk.ob(cl, 'D-contract', f.key, f'{role} [{tag}]', ok, det,
                                                                 f.loc(ev.node) if ev is not None else f.loc())
        sh = [e for e in evs if e.kind == 'call' and e.data.get('callee') == 'field.Field.shift']
        em = [e for e in evs if e.kind == 'call' and e.data.get('callee') == 'wavefront.Wavefront.empty']
        fields = [e for e in evs if e.kind == 'call' and e.data.get('new') == 'field.Field']
        if len(sh) != 1 or len(em) != 1 or len(fields) != 1 or len(d2) != 1:
            chk.undecided(clause_b, 'D-contract', f.key, f'window bookkeeping [{tag}]',
                          f'{len(sh)} Field.shift, {len(em)} Wavefront.empty, {len(fields)} Field, {len(d2)} dft2 call(s) on the path', f.loc())
            continue
        sb = sh[0].bound
        ob('field shift evaluated for this propagation',
           sb.get('z') == nf.attr(WF, 'focal_length') and is_any(sb.get('wavelength'), wf_attr('wavelength'))
           and sb.get('pixelscale') == du and sb.get('oversample') == osf and sb.get('indexing') == Const('ij'),
           ', '.join(f'{k}={fmt(v)}' for k, v in sb.items() if k != 'self'), sh[0])
        shift = sh[0].result
        fix = nf.app('fix', shift)
        s_out = em[0].bound.get('shape')
        def comp(v, k):
            if isinstance(v, Tup):
                return v.items[k]
            from ..npmodel import _shape_vector_elem
            e_ = _shape_vector_elem(v, k)         # (x.shape*oversample)[k] is x.shape[k]*oversample
            return e_ if e_ != v else nf.index(v, C(k))
        if cfg['prop_shape'] is not NONE:
            ps = cfg['prop_shape']
            p_out = Tup([ps.items[0] * osf, ps.items[1] * osf], 'vec')
        else:
            p_out = s_out           # prop_shape defaults to shape
        if want_mask:
            bnd = [e for e in evs if e.kind == 'call' and e.data.get('callee') == 'util.boundary'
                   and nf.strip_apps(e.bound.get('x')) == S('mask')]
            thr_ok = bool(bnd) and all((e.bound.get('threshold') is None or (isinstance(e.bound.get('threshold'), Poly)
                                                                              and e.bound.get('threshold').is_zero())) for e in bnd)
            if not bnd or not thr_ok:
                ob('output window = bounding box of the mask', False if bnd else None,
                   'boundary(mask) is taken with a non-zero threshold' if bnd else 'no boundary(mask) call on the path')
                continue
            bq = [nf.index(bnd[0].result, C(i)) for i in range(4)]
            msh = nf.attr(S('mask'), 'shape')
            lo_out = [bq[0] - HALF(nf.index(msh, C(0))), bq[2] - HALF(nf.index(msh, C(1)))]
            hi_out = [bq[1] - HALF(nf.index(msh, C(0))), bq[3] - HALF(nf.index(msh, C(1)))]
        else:
            lo_out = [-HALF(comp(s_out, k)) for k in (0, 1)]
            hi_out = [lo_out[k] + comp(s_out, k) - 1 for k in (0, 1)]
        lo_prop = [-HALF(comp(p_out, k)) + nf.index(fix, C(k)) for k in (0, 1)]
        hi_prop = [lo_prop[k] + comp(p_out, k) - 1 for k in (0, 1)]
        i_lo = [nf.app('max', lo_out[k], lo_prop[k]) for k in (0, 1)]
        i_hi = [nf.app('min', hi_out[k], hi_prop[k]) for k in (0, 1)]
        i_n = [i_hi[k] - i_lo[k] + 1 for k in (0, 1)]
        i_c = [i_lo[k] + HALF(i_n[k]) for k in (0, 1)]
        p_c = [lo_prop[k] + HALF(comp(p_out, k)) for k in (0, 1)]
        b = d2[0].bound
        got_shape = b.get('shape')
        ok_shape = isinstance(got_shape, Tup) and len(got_shape) == 2 and all(got_shape.items[k] == i_n[k] for k in (0, 1))
        ob('transform evaluates the intersection of the output and propagation windows', ok_shape,
           f'shape = {fmt(got_shape)[:200]}; expected ({fmt(i_n[0])[:120]}, ...)', d2[0])
        got_off = fields[0].bound.get('offset')
        ok_off = isinstance(got_off, Tup) and len(got_off) == 2 and all(got_off.items[k] == i_c[k] for k in (0, 1))
        ob('output field sits at the centre of the intersection', ok_off,
           f'offset = {fmt(got_off)[:200]}; expected ({fmt(i_c[0])[:120]}, ...)', fields[0])
        got_shift = nf.strip_apps(b.get('shift'), ('copy', 'cast', 'asarray', 'array'))
        want_shift = [p_c[k] - i_c[k] + nf.index(shift, C(k)) - nf.index(fix, C(k)) for k in (0, 1)]
        def component(v, k):
            """entry k of a pair to which a whole (row, col) vector was added: the vector contributes its entry k"""
            if not isinstance(v, Poly):
                return v
            vec = {shift.single_atom(): nf.index(shift, C(k)), fix.single_atom(): nf.index(fix, C(k))}
            out = nf.ZERO
            for mono, c in v.terms:
                t = Poly.const(c)
                for a_, e_ in mono:
                    t = t * (vec[a_] if a_ in vec else Poly.atom(a_)).pow(e_)
                out = out + t
            return out
        if isinstance(got_shift, Tup) and len(got_shift) == 2:
            ok_shift = all(component(nf.strip_apps(got_shift.items[k], ('copy', 'cast')), k) == want_shift[k] for k in (0, 1))
        else:
            whole = Tup([p_c[0] - i_c[0], p_c[1] - i_c[1]], 'vec')
            ok_shift = None
            for cand in (nf.app('copy', whole) + shift - fix, nf.P(whole) + shift - fix if hasattr(nf, 'P') else None):
                if cand is not None and nf.strip_apps(got_shift) == nf.strip_apps(cand):
                    ok_shift = True
            if ok_shift is None:
                # element-wise: (vector expression)[k]
                try:
                    ok_shift = all(nf.strip_apps(nf.index(got_shift, C(k))) == want_shift[k] for k in (0, 1))
                except Exception:
                    ok_shift = None
        ob('transform shift = window recentring + sub-pixel part of the tilt shift', ok_shift,
           f'shift = {fmt(b.get("shift"))[:200]}', d2[0], cl=clause_c)
        if not want_mask:
            chk.ob(clause_i, 'N-fold', f.key, f'un-masked output window is centred [{tag}]', bool(ok_shape and ok_off),
                   'the transform window and the field offset are those of an output window centred on the origin'
                   if ok_shape and ok_off else 'see the window obligations of this path', f.loc(d2[0].node))
        if not want_mask and cfg['shape'] is not NONE:
            shp = cfg['shape']
            ob('output window has shape*oversample samples', s_out == Tup([shp.items[0] * osf, shp.items[1] * osf], 'vec'),
               f'shape = {fmt(s_out)}', em[0])
    if not n:
        chk.undecided(clause_b, 'D-contract', f.key, f'window bookkeeping [{label}, by value]', 'no transforming path found', f.loc())


def contracts(chk, repo, clause_b, clause_d, clause_e, clause_i, clause_conserve=None):
    for cfg, label0 in configs():
      for fl in DftFlow.all(repo, cfg, label0):
        label = fl.label
        f = fl.f
        osf = S('oversample')
        du = pair('pixelscale')
        du_os = Tup([du.items[0] / osf, du.items[1] / osf], 'vec')
        ob = lambda role, ok, det, ev=None, cl=clause_b: chk.ob(cl, 'D-contract', f.key, f'{role} [{label}]', ok, det,
                                                                 f.loc(ev.node) if ev is not None else f.loc())
        # --- alpha
        ea = fl.one('propagate._dft_alpha')
        b = ea.bound
        ob('alpha from the input sampling', is_any(b.get('dx'), wf_attr('pixelscale')), f'dx = {fmt(b.get("dx"))}', ea)
        ob('alpha from the output sampling', b.get('du') == du, f'du = {fmt(b.get("du"))}', ea)
        ob('alpha from the focal length', b.get('z') == nf.attr(WF, 'focal_length'), f'z = {fmt(b.get("z"))}', ea)
        ob('alpha from the wavelength', is_any(b.get('wavelength'), wf_attr('wavelength')),
           f'wavelength = {fmt(b.get("wavelength"))}', ea)
        ob('alpha from the oversampling factor', b.get('oversample') == osf, f'oversample = {fmt(b.get("oversample"))}', ea)
        structural = len(fl.extents) == 3 and all(len(fl.ev[n]) == 1 for n in
                                                   ('extent.intersection_shape', 'extent.intersection_shift', 'extent.intersect', 'field.Field.shift'))
        if not structural:
            # the window bookkeeping is not written as three array_extent calls and the intersection helpers: decide the
            # same contract on the values that reach dft2 and the output Field (extent arithmetic inlined)
            windows_by_value(chk, repo, cfg, label, clause_b, clause_conserve or clause_b, clause_i, fl)
            ed = fl.one('fourier.dft2')
            b = ed.bound
            shift_ev = fl.one('field.Field.shift')
            sb = shift_ev.bound
        if structural:
            # --- extents / windows
            ex = fl.extents
            if len(ex) != 3:
                raise AnalysisError(f'propagate_dft [{label}]: expected 3 array_extent calls, found {len(ex)}')
            e_out, e_prop, e_int = ex
            shift_ev = fl.one('field.Field.shift')
            sb = shift_ev.bound
            ob('field shift evaluated for this propagation',
               sb.get('z') == nf.attr(WF, 'focal_length') and is_any(sb.get('wavelength'), wf_attr('wavelength'))
               and sb.get('pixelscale') == du and sb.get('oversample') == osf and sb.get('indexing') == Const('ij'),
               ', '.join(f'{k}={fmt(v)}' for k, v in sb.items() if k != 'self'), shift_ev)
            shift = shift_ev.result
            fix_shift = nf.app('fix', shift)
            if 'mask' in label and 'no mask' not in label and not (fl.ev['propagate._mask_shape'] and fl.ev['propagate._mask_shift']):
                # the helpers are gone (merged / inlined): compare the window itself with the bounding box of the mask
                bnd = [e for e in fl.events if e.kind == 'call' and e.data.get('callee') == 'util.boundary'
                       and nf.strip_apps(e.bound.get('x')) == S('mask')]
                verdict, det_w = None, 'undecided: the window is not obtained through _mask_shape / _mask_shift nor from boundary(mask)'
                if bnd:
                    bq = [nf.index(bnd[0].result, C(i)) for i in range(4)]
                    ms_ = nf.attr(nf.strip_apps(bnd[0].bound.get('x')), 'shape')
                    HALF = lambda x: nf.floor(x / 2)
                    want_shape = Tup([bq[1] - bq[0] + 1, bq[3] - bq[2] + 1])
                    want_shift = Tup([bq[0] + HALF(bq[1] - bq[0] + 1) - HALF(nf.index(ms_, C(0))),
                                      bq[2] + HALF(bq[3] - bq[2] + 1) - HALF(nf.index(ms_, C(1)))])
                    gs, gh = e_out.bound['shape'], e_out.bound['shift']
                    same = isinstance(gs, Tup) and isinstance(gh, Tup) and list(gs.items) == list(want_shape.items) and \
                        list(gh.items) == list(want_shift.items)
                    thr = bnd[0].bound.get('threshold')
                    verdict = bool(same) and (thr is None or (isinstance(thr, Poly) and thr.is_zero()))
                    det_w = f'array_extent({fmt(gs)[:100]}, {fmt(gh)[:100]})'
                chk.ob(clause_b, 'D-contract', f.key, f'output window = bounding box of the mask [{label}]', verdict, det_w, f.loc(e_out.node))
            elif 'mask' in label and 'no mask' not in label:
                ms, mh = fl.one('propagate._mask_shape'), fl.one('propagate._mask_shift')
                moved = any('x' not in repo.func(k_).param_names() for k_ in ('propagate._mask_shape', 'propagate._mask_shift'))
                ob('output window = bounding box of the mask',
                   None if moved else e_out.bound['shape'] == ms.result and e_out.bound['shift'] == mh.result
                   and ms.bound['x'] == S('mask') and mh.bound['x'] == S('mask'),
                   f'array_extent({fmt(e_out.bound["shape"])}, {fmt(e_out.bound["shift"])})', e_out)
            else:
                shp = cfg['shape'] if cfg['shape'] is not NONE else None
                z0 = e_out.bound['shift']
                zero = isinstance(z0, Tup) and len(z0) == 2 and all(isinstance(i, Poly) and i.is_zero() for i in z0.items)
                chk.ob(clause_i, 'N-fold', f.key, f'un-masked output window is centred [{label}]', zero,
                       f'array_extent(shape_out, shift={fmt(z0)})', f.loc(e_out.node))
                if shp is not None:
                    ob('output window has shape*oversample samples',
                       e_out.bound['shape'] == Tup([shp.items[0] * osf, shp.items[1] * osf], 'vec'),
                       f'shape = {fmt(e_out.bound["shape"])}', e_out)
            if cfg['prop_shape'] is not NONE:
                ps = cfg['prop_shape']
                ob('propagation window has prop_shape*oversample samples',
                   e_prop.bound['shape'] == Tup([ps.items[0] * osf, ps.items[1] * osf], 'vec'),
                   f'shape = {fmt(e_prop.bound["shape"])}', e_prop)
            elif cfg['shape'] is not NONE:
                # an omitted prop_shape is the requested output shape (the whole output is evaluated), not the shape of
                # the pupil array
                ps = cfg['shape']
                ob('propagation window defaults to the output window (shape*oversample samples)',
                   e_prop.bound['shape'] == Tup([ps.items[0] * osf, ps.items[1] * osf], 'vec'),
                   f'shape = {fmt(e_prop.bound["shape"])}', e_prop)
            cc = clause_conserve or clause_b
            ob('propagation window follows the integer part of the shift', e_prop.bound['shift'] == fix_shift,
               f'shift = {fmt(e_prop.bound["shift"])}; expected {fmt(fix_shift)}', e_prop, cl=cc)
            ish, isf = fl.one('extent.intersection_shape'), fl.one('extent.intersection_shift')
            for e, nm in ((ish, 'intersection_shape'), (isf, 'intersection_shift'), (fl.one('extent.intersect'), 'intersect')):
                ob(f'{nm} of the output and propagation windows',
                   {nf.vkey(e.bound['a']), nf.vkey(e.bound['b'])} == {nf.vkey(e_out.result), nf.vkey(e_prop.result)},
                   f'a = {fmt(e.bound["a"])[:80]}..., b = {fmt(e.bound["b"])[:80]}...', e)
            ob('evaluated window = the intersection', e_int.bound['shape'] == ish.result and e_int.bound['shift'] == isf.result,
               '', e_int)
        # --- transform
        ed = fl.one('fourier.dft2')
        b = ed.bound
        fld = b.get('f')
        fa = fld.single_atom() if isinstance(fld, Poly) else None
        field_atom = Poly.atom(fa[1]) if fa is not None and fa[0] == 'attr' and fa[2] == 'data' else None
        ob('transform input is the field data', field_atom is not None and field_atom == sb.get('self'),
           f'f = {fmt(fld)}', ed)
        ob('transform sampling is alpha', b.get('alpha') == ea.result, f'alpha = {fmt(b.get("alpha"))[:100]}', ed)
        if structural:
            ob('transform evaluates the intersection window', b.get('shape') == ish.result, f'shape = {fmt(b.get("shape"))[:100]}', ed)
        ob('sub-array offset reaches the transform',
           field_atom is not None and b.get('offset') == nf.attr(field_atom, 'offset'), f'offset = {fmt(b.get("offset"))}', ed)
        ob('transform is unitary', b.get('unitary') == TRUE, f'unitary = {fmt(b.get("unitary"))}', ed)
        if structural:
            centers = fl.ev['extent.array_center']
            c_prop = [c for c in centers if c.bound['extent'] == e_prop.result]
            c_int = [c for c in centers if c.bound['extent'] == e_int.result]
            want_shift = None
            if len(c_prop) == 1 and len(c_int) == 1:
                prop_shift = nf.app('copy', c_prop[0].result) - nf.app('copy', c_int[0].result)
                want_shift = prop_shift + shift - fix_shift
            ob('transform shift = window recentring + sub-pixel part of the tilt shift',
               want_shift is not None and nf.strip_apps(b.get('shift')) == nf.strip_apps(want_shift),
               f'shift = {fmt(b.get("shift"))[:160]}', ed, cl=cc)
        # --- output field
        if len(fl.fields) != 1:
            raise AnalysisError(f'propagate_dft [{label}]: expected one Field to be built per input field')
        fb = fl.fields[0].bound
        ob('output field holds the transform', fb.get('data') == ed.result, '', fl.fields[0])
        if structural:
            ob('output field sits at the intersection shift', fb.get('offset') == isf.result,
               f'offset = {fmt(fb.get("offset"))[:100]}', fl.fields[0])
        ob('output field sampling = du/oversample', fb.get('pixelscale') == du_os,
           f'pixelscale = {fmt(fb.get("pixelscale"))}', fl.fields[0])
        # --- metadata
        em = fl.one('wavefront.Wavefront.empty')
        mb = em.bound
        od = lambda role, ok, det: chk.ob(clause_d, 'D-flow', f.key, f'{role} [{label}]', ok, det, f.loc(em.node))
        od('result carries the input wavelength', is_any(mb.get('wavelength'), wf_attr('wavelength')),
           f'wavelength = {fmt(mb.get("wavelength"))}')
        od('result carries the input focal length', mb.get('focal_length') == nf.attr(WF, 'focal_length'),
           f'focal_length = {fmt(mb.get("focal_length"))}')
        od('result sampling = du/oversample', mb.get('pixelscale') == du_os, f'pixelscale = {fmt(mb.get("pixelscale"))}')
        if cfg['shape'] is not NONE:
            od('result shape = shape*oversample',
               mb.get('shape') == Tup([cfg['shape'].items[0] * osf, cfg['shape'].items[1] * osf], 'vec'),
               f'shape = {fmt(mb.get("shape"))}')
        # --- windows only select
        for nm in ('alpha', 'f', 'offset', 'unitary'):
            bad = [s for s in ('shape', 'prop_shape', 'mask') if mentions_sym(b.get(nm), s)]
            chk.ob(clause_e, 'D-must-not-depend', f.key, f'dft2 `{nm}` independent of the windows [{label}]', not bad,
                   f'{nm} depends on {bad}' if bad else 'no dependence on shape / prop_shape / mask', f.loc(ed.node))


def field_accumulation(chk, repo, clause):
    from .c06 import insert_accumulates
    insert_accumulates(chk, repo, clause)
    for key, intensity, dtype in (('wavefront.Wavefront.field', FALSE, 'complex'),
                                  ('wavefront.Wavefront.intensity', TRUE, 'float')):
        # (an accessor that hands the work to Wavefront.insert is followed into it)
        f, paths, _ = analyse(repo, key, inline=['wavefront.Wavefront.insert'], types={('sym', 'self'): repo.cls('wavefront.Wavefront')})
        rets = returns(paths)
        if not rets:
            raise AnalysisError(f'{key}: no returning path')
        shortcut = [q for q in rets if not q.calls('field.insert')]
        chk.ob(clause, 'D-zero-init', key, 'every path places the fields through insert (at their offsets)', not shortcut,
               '; '.join(f'a path returns {fmt(q.ret)[:80]} [{conds_str(q)[-80:]}]' for q in shortcut[:2]) or f'{len(rets)} path(s)',
               f.loc(shortcut[0].node) if shortcut else f.loc())
        p = [q for q in rets if q.calls('field.insert')][0] if len(shortcut) < len(rets) else rets[0]
        ok_zero = ok_only = False
        det = ''
        from .common import loop_accumulator
        ins = [e for e in p.calls('field.insert')]
        lp, var = loop_accumulator(p, ins[0].bound.get('out')) if ins else (None, None)
        if lp is not None:
            pre = lp['pre'].get(var)
            pa = pre.single_atom() if isinstance(pre, Poly) else None
            ok_zero = pa is not None and is_app(pa, 'zeros') and pa[2][0] in (nf.attr(S('self'), 'shape'),)
            ok_only = len(ins) == 1 and ins[0].bound.get('out') == lp['phi'].get(var) and \
                ins[0].bound.get('intensity') == intensity and \
                all(isinstance(v, Poly) and v.single_atom() == ('app', 'call:field.insert', v.single_atom()[2])
                    for ends in lp['ends'] for v in [ends.get(var)]) and \
                isinstance(p.ret, Poly) and p.ret.single_atom() is not None and p.ret.single_atom()[0] == 'loop' \
                and p.ret.single_atom()[1] == lp['phi'][var].single_atom()[1]
            det = f'starts from {fmt(pre)}; {len(ins)} insert call(s)'
        elif ins:
            # the accumulator is threaded through a fold whose step hands it back (insert returns its `out`): every insert
            # works on the array the fold started with, which is what is returned
            o_ = ins[0].bound.get('out')
            oa_ = o_.single_atom() if isinstance(o_, Poly) else None
            ok_zero = oa_ is not None and is_app(oa_, 'zeros') and oa_[2][0] in (nf.attr(S('self'), 'shape'),)
            ok_only = len(ins) == 1 and ins[0].in_loop and ins[0].bound.get('intensity') == intensity and p.ret == o_
            det = f'inserts into {fmt(o_)[:60]}, returns {fmt(p.ret)[:60]}; {len(ins)} insert call(s)'
        chk.ob(clause, 'D-zero-init', key, 'accumulates into zeros(self.shape)', ok_zero, det, f.loc())
        chk.ob(clause, 'D-zero-init', key, f'the only contributions are insert(field, out, intensity={intensity!r})',
               ok_only, det, f.loc())


def run(chk, repo, tier):
    from .common import no_hidden_state
    no_hidden_state(chk, repo, 'C02')
    chk.clause('C02-a', 'alpha = dx*du/(wavelength*z*oversample) per axis, with consistent units', 4)
    chk.clause('C02-b', 'call contracts of propagate_dft (alpha, windows, dft2 arguments, output Field)', 20)
    chk.clause('C02-c', 'tilt shift comes back as (row, col) in oversampled output samples of the same axis', 2)
    chk.clause('C02-d', 'result carries input wavelength / focal length and du/oversample sampling', 9)
    chk.clause('C02-e', 'windows only select samples: alpha and the transformed data do not depend on them', 12)
    chk.clause('C02-f', 'extent algebra identities', 16)
    chk.clause('C02-g', 'exactly zero outside the evaluated window: fields are inserted into zeros and nothing else is added', 4)
    chk.clause('C02-h', 'axis-swap equivariance of the extent helpers', 10)
    chk.clause('C02-i', 'the un-masked output window is centred', 2)
    chk.clause('C02-p', 'the fields that reach the transform are placed correctly: products keep offsets (mirror-image scalar cases), '
                        'tilt lists are never shared between wavefronts, inserts add the clipped field at floor(n/2) + offset', 10)
    from .c06 import product_rules, insert_rules
    from . import common as _common
    product_rules(chk, repo, 'C02-p')
    from .prop_flow import own_storage_rule
    own_storage_rule(chk, repo, 'C02-p')
    from .prop_flow import skip_rule as _skip_rule
    _skip_rule(chk, repo, 'C02-p')
    from .prop_flow import per_field_shift_rule as _pfs_rule
    _pfs_rule(chk, repo, 'C02-p')
    insert_rules(chk, repo, 'C02-p')
    _common.mul_concat(chk, repo, 'C02-p')
    # the shift a field is propagated with folds every recorded tilt, each told the shift accumulated so far
    from .c04 import folding as _folding
    _folding(chk, repo, 'C02-p')
    chk.clause('C02-k', 'the transform the propagator calls evaluates the Fraunhofer kernel: phase -2*pi*i*alpha*(u - shift)(x + offset) '
                        'per axis with origins at floor(n/2), unitary gain', 8)
    from .common import Remap
    from . import c01
    c01.run_check(Remap(chk, {'C01-a': 'C02-k', 'C01-c': 'C02-k', 'C01-d': 'C02-k', 'C01-e': 'C02-k', 'C01-g': 'C02-k'}), repo, tier)
    # the FFT propagator puts the same sum on the same samples: grid length round(1/alpha), centred transform (origin at
    # floor(n/2) for odd and even lengths), result metadata
    from . import c09 as _c09
    from ..resilient import run_nested as _run_nested2
    nd2 = list(chk.not_decided)
    _run_nested2(_c09, Remap(chk, {'C09-e': 'C02-k', 'C09-c': 'C02-k', 'C09-h': 'C02-k', 'C09-g': 'C02-d', 'C09-f': 'C02-k'}), repo, tier)
    chk.not_decided[:] = nd2
    chk.not_decided += ['absolute complex field values', 'placement errors applied symmetrically to both axes '
                        'that also preserve every extent identity']
    # the input-plane field is the plane's amplitude inside the support of its mask: a mask that keeps negative or fractional
    # samples as they are enters the field as a second amplitude factor
    from .extra_rules import mask_support_rule as _mask_support_rule
    _mask_support_rule(chk, repo, 'C02-p')
    # several tilts on one field: each shift implementation adds its own displacement to the incoming (x, y), axis by axis
    from .c04 import additive as _additive2
    _additive2(chk, repo, 'C02-c')
    alpha_rule(chk, repo, 'C02-a')
    contracts(chk, repo, 'C02-b', 'C02-d', 'C02-e', 'C02-i')
    from .c04 import tilt_chain
    tilt_chain(chk, repo, 'C02-c')
    X.extent_identities(chk, repo, 'C02-f')
    with chk.guard(['C02-f'], 'propagate._mask_shift', 'mask window helpers recognisable'):
        X.mask_window_identities(chk, repo, 'C02-f')
    from .common import Remap
    from .c20 import reduce_rules
    reduce_rules(Remap(chk, {'C20-e': 'C02-f'}), repo)
    field_accumulation(chk, repo, 'C02-g')
    X.extent_equivariance(chk, repo, 'C02-h')
