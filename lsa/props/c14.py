"""C14 - unit conversions are consistent; Planck's law is unit independent."""
import ast
from fractions import Fraction
import itertools

from ..resilient import run_nested as _run_nested
from .. import nf, dims, bind
from ..nf import Poly, Tup, Const, NONE
from ..model import AnalysisError
from ..rules import run as analyse, returns, fmt, is_app, S, C, conds_str

WAVE_CLASSES = {'m': 'Meter', 'um': 'Micron', 'nm': 'Nanometer', 'angstrom': 'Angstrom'}
WAVE_ALIASES = {'m': ['m', 'meter'], 'um': ['um', 'micron'], 'nm': ['nm', 'nanometer'],
                'angstrom': ['angstrom']}
SI = {'m': Fraction(1), 'um': Fraction(10) ** 6, 'nm': Fraction(10) ** 9, 'angstrom': Fraction(10) ** 10}
FLUX_CLASSES = {'photlam': 'Photlam', 'flam': 'Flam', 'wlam': 'Wlam'}
CODATA = {'H': Fraction('6.62607015e-34'), 'C': Fraction(299792458), 'K': Fraction('1.380649e-23')}

Hs, Cs, Ks = S('radiometry.H'), S('radiometry.C'), S('radiometry.K')


def single(paths, what):
    if len(paths) != 1:
        raise AnalysisError(f'{what}: expected one folded path, got {len(paths)}')
    return paths[0]


def wave_factor(repo, frm, to_name):
    f = repo.func(f'radiometry.{WAVE_CLASSES[frm]}.to')
    _, paths, _ = analyse(repo, f, config={'waveunit': Const(to_name)}, literal_tables=True)
    # a look-up wrapped in try/except KeyError keeps the handler as a path of its own: the answer is the returning one
    live = [q for q in paths if not (q.status == 'raise' and q.conds and all(fmt(c).startswith('except(') for c, _, _ in q.conds))]
    p = single(live or paths, f'{f.key}({to_name!r})')
    if p.status != 'return' or not isinstance(p.ret, Poly) or p.ret.const_value() is None:
        return None, f
    return p.ret.const_value(), f


def flux_factor(repo, frm, to):
    f = repo.func(f'radiometry.{FLUX_CLASSES[frm]}.to')
    _, paths, _ = analyse(repo, f, config={'fluxunit': Const(to)}, symbolic_globals=True)
    p = single(paths, f'{f.key}({to!r})')
    if p.status != 'return' or not isinstance(p.ret, Poly):
        return None, f
    return p.ret / S('flux'), f


def run(chk, repo, tier):
    from .common import no_hidden_state
    no_hidden_state(chk, repo, 'C14')
    chk.clause('C14-a', 'wavelength factors: identity, closure over all 64 triples, SI anchors, aliases', 4 + 64 + 4 + 3)
    chk.clause('C14-b', 'flux conversions: identity, closure over all 27 triples, two anchors', 3 + 27 + 2)
    chk.clause('C14-c', 'Spectrum.to: densities divided by the factor the wavelengths are multiplied by; '
                        'unitless values untouched; flux branch goes through metres and back', 3)
    chk.clause('C14-d', 'planck_exitance = pi * planck_radiance on every path', 2)
    chk.clause('C14-e', 'Planck formula: dimensions and textbook normal form', 3)
    chk.clause('C14-f', 'physical constants within 1e-6 of CODATA', 3)
    chk.clause('C14-g', 'waveunit/valueunit are passed to like-named parameters', 4)
    chk.clause('C14-h', 'Vega zero point conversion Jy -> photons per wavelength', 1)
    chk.clause('C14-o', 'evaluating a spectrum or a Planck curve leaves the object untouched (no per-instance memo that a unit change misses)', 4)
    from .common import operands_untouched
    operands_untouched(chk, repo, 'C14-o', ['radiometry.Blackbody.sample', 'radiometry.Spectrum.sample', 'radiometry.planck_radiance',
                                            'radiometry.planck_exitance', 'radiometry.vegaflux', 'radiometry.Spectrum.integrate'], allow=[])
    chk.not_decided += ['Wien peak and Stefan-Boltzmann integral numerically (follow from C14-e/f)']
    chk.stats['exhaustive'] = True

    from .extra_rules import vegaflux_rule
    vegaflux_rule(chk, repo, 'C14-h')
    # the magnitude scaling E0*(M/M0) multiplies the zero point by a ratio of exitances: that ratio depends on the flux unit
    # (photon and energy units differ by a factor of the wavelength), so both exitances are computed in the flux unit the
    # zero point is asked for in
    fv = repo.func('radiometry.Blackbody.vegamag')
    zp_units, ex_units = [], []
    for s_ in bind.sites(repo, fv):
        if s_.callee.key not in ('radiometry.vegaflux', 'radiometry.planck_exitance'):
            continue
        node_ = s_.binding.get('valueunit')
        if node_ is None:
            dfl = {nm: d for nm, d, k in s_.callee.params()}.get('valueunit')
            unit_ = dfl.value if isinstance(dfl, ast.Constant) else None
        else:
            unit_ = node_.value if isinstance(node_, ast.Constant) else None       # handed through a variable: not followed
        (zp_units if s_.callee.key.endswith('vegaflux') else ex_units).append((unit_, s_.loc()))
    if zp_units and ex_units:
        zu = {u for u, _ in zp_units}
        off = [f'planck_exitance in {u!r} at {l}' for u, l in ex_units if u not in zu]
        chk.ob('C14-h', 'U-units', fv.key, 'the exitance ratio is formed in the flux unit of the Vega zero point',
               (not off) if len(zu) == 1 and None not in zu and all(u is not None for u, _ in ex_units) else None,
               ('; '.join(off) + f' while the zero point is in {sorted(zu)[0]!r}: the stored spectrum is tilted by wave0/wave') if off else '',
               fv.loc())
    else:
        chk.undecided('C14-h', 'U-units', fv.key, 'the exitance ratio is formed in the flux unit of the Vega zero point',
                      'undecided: vegaflux / planck_exitance calls not found in vegamag', fv.loc())
    # a spectrum read from a file is labelled with the units the caller states: Spectrum.to converts by the labels, so a
    # dropped value unit turns a density into a unitless curve (its integral changes with the wavelength unit)
    if repo.has_func('radiometry.Spectrum.from_csv'):
        fc_ = repo.func('radiometry.Spectrum.from_csv')
        init_ = repo.cls('radiometry.Spectrum').find_method('__init__')
        okc_, detc_, nc_ = True, '', 0
        for node_ in ast.walk(fc_.node):
            if isinstance(node_, ast.Call) and isinstance(node_.func, ast.Name) and node_.func.id in ('cls', 'Spectrum'):
                try:
                    site_ = bind._site(repo, fc_, node_, init_, True)
                except Exception:
                    continue
                nc_ += 1
                for unit_ in ('waveunit', 'valueunit'):
                    if unit_ not in fc_.param_names():
                        continue
                    got_ = site_.binding.get(unit_)
                    if not (isinstance(got_, ast.Name) and got_.id == unit_) and not site_.star:
                        okc_ = False
                        detc_ = f'the constructor call at {fc_.loc(node_)} ' + \
                            (f'passes {ast.unparse(got_)} as {unit_}' if got_ is not None else f'does not pass {unit_}: the spectrum is built '
                             f'with the default {unit_} whatever the caller stated')
        chk.ob('C14-g', 'B5-default', fc_.key, 'from_csv labels the spectrum with the waveunit and valueunit it was given',
               okc_ if nc_ else None, detc_, fc_.loc())
    from .c15 import quadrature_cover_rule as _qcr
    _qcr(chk, repo, repo.func('radiometry.Spectrum.integrate'), 'C14-c')
    # ---------------------------------------------------------------- C14-a
    import sys as _sys0
    _run_nested(_sys0.modules[__name__], chk, repo, tier, 'wave_unit_rules')
    units = list(WAVE_CLASSES)

    # ---------------------------------------------------------------- C14-b
    fl = list(FLUX_CLASSES)
    g = {}
    for a in fl:
        for b in fl:
            v, f = flux_factor(repo, a, b)
            if v is None:
                raise AnalysisError(f'{f.key}({b!r}) does not fold')
            g[(a, b)] = v
    for a in fl:
        f = repo.func(f'radiometry.{FLUX_CLASSES[a]}.to')
        chk.ob('C14-b', 'T-identity', f.key, f'{a} -> {a}', g[(a, a)] == nf.ONE,
               f'factor {fmt(g[(a, a)])}, expected 1', f.loc())
    for a, b, c in itertools.product(fl, repeat=3):
        f = repo.func(f'radiometry.{FLUX_CLASSES[a]}.to')
        ok = g[(a, b)] * g[(b, c)] == g[(a, c)]
        chk.ob('C14-b', 'T-closure', 'radiometry flux units', f'{a}->{b}->{c}', ok,
               f'({fmt(g[(a, b)])}) * ({fmt(g[(b, c)])}) != {fmt(g[(a, c)])}', f.loc())
    chk.ob('C14-b', 'T-anchor', 'radiometry.Wlam.to', 'wlam -> flam = 1e3 (1 W = 1e7 erg/s, 1 m^2 = 1e4 cm^2)',
           g[('wlam', 'flam')] == C(1000), f'factor {fmt(g[("wlam", "flam")])}', repo.func('radiometry.Wlam.to').loc())
    chk.ob('C14-b', 'T-anchor', 'radiometry.Photlam.to', 'photlam -> wlam = H*C/wave (photon energy)',
           g[('photlam', 'wlam')] == Hs * Cs / S('wave'), f'factor {fmt(g[("photlam", "wlam")])}',
           repo.func('radiometry.Photlam.to').loc())

    # ---------------------------------------------------------------- C14-c
    import sys as _sys
    _run_nested(_sys.modules[__name__], chk, repo, tier, 'to_rules')
    unit_label_order_rule(chk, repo, 'C14-c')
    rescaled_copy_rule(chk, repo, 'C14-c')
    # a product of two spectra is labelled with the units of its LEFT operand: along an optical path the emission collected so
    # far (a flux density) stays on the left of the transmission that attenuates it (unitless), or the total loses its flux unit
    import ast as _ast
    swapped, n_mul = [], 0
    for key_ in ('radiometry.path_emission',):
        if not repo.has_func(key_):
            continue
        g_ = repo.func(key_)
        accs = set(g_.param_names())
        for loop in [x for x in _ast.walk(g_.node) if isinstance(x, _ast.For)]:
            item = loop.target.id if isinstance(loop.target, _ast.Name) else None
            for node in _ast.walk(loop):
                if isinstance(node, _ast.BinOp) and isinstance(node.op, _ast.Mult):
                    def kind(e):
                        if isinstance(e, _ast.Name) and e.id in accs:
                            return 'acc'
                        if isinstance(e, _ast.Attribute) and isinstance(e.value, _ast.Name) and e.value.id == item and 'transmi' in e.attr:
                            return 'trans'
                        return None
                    kl, kr = kind(node.left), kind(node.right)
                    if {kl, kr} == {'acc', 'trans'}:
                        n_mul += 1
                        if kl == 'trans':
                            swapped.append(f'`{g_.module.segment(node)[:50]}` at {g_.loc(node)}')
    chk.ob('C14-c', 'D-flow', 'radiometry.path_emission', 'the collected emission is the left operand of its attenuation (the product keeps its flux unit)',
           (not swapped) if n_mul else None, '; '.join(swapped) + (': the result takes the units of the transmission' if swapped else ''), '')
    # the Vega zero point a magnitude-scaled blackbody is sampled with is looked up for the wavelength unit of *this* request
    # (a value kept from construction is in the construction's unit)
    if repo.has_func('radiometry.Blackbody.sample_vegamag'):
        fsv = repo.func('radiometry.Blackbody.sample_vegamag')
        _, svp, _ = analyse(repo, fsv)
        okz, detz = bool(returns(svp)), ''
        for p in returns(svp):
            vf = [a for a in nf.value_atoms(p.ret) if is_app(a, 'call:radiometry.vegaflux')]
            good = bool(vf) and all({k.items[0].value: k.items[1] for k in a[2]}.get('waveunit') == S('waveunit') for a in vf)
            if not good:
                okz = False
                stale = [a for a in nf.value_atoms(p.ret) if a[0] == 'attr' and a[1] == ('sym', 'self') and a[2] not in ('mag', 'band', 'temp')]
                detz = ('the zero point is ' + (f'read from self.{stale[0][2]}' if stale else 'not looked up') +
                        ' instead of vegaflux(self.band, waveunit)') if not vf else 'vegaflux is not asked with the requested waveunit'
        chk.ob('C14-g', 'D-flow', fsv.key, 'Vega zero point looked up in the requested wavelength unit', okz, detz, fsv.loc())
    from .c15 import integrate_selection_rule
    integrate_selection_rule(chk, repo, 'C14-c')
    # the bins of a density (normalised to the band integral) are what a unit change must preserve: the binning rules of C15
    from . import c15 as _c15
    from .common import Remap as _Remap
    _run_nested(_c15, _Remap(chk, {'C15-e': 'C14-c', 'C15-b': 'C14-c'}), repo, tier)
    # two spectra in different units are brought to one unit by the same conversions: which operand is converted, in which
    # unit the common grid is, and which unit the result is labelled with (the rules of spectrum arithmetic about units)
    from . import c13 as _c13
    _run_nested(_c13, _Remap(chk, {'C13-f': 'C14-c', 'C13-c': 'C14-c', 'C13-d': 'C14-g', 'C13-e': 'C14-c'}), repo, tier)
    fto_ = repo.func('radiometry.Spectrum.to')
    early = []
    for loop in [n for n in ast.walk(fto_.node) if isinstance(n, ast.For)]:
        for n in ast.walk(loop):
            if isinstance(n, (ast.Return, ast.Break)):
                early.append(f'`{type(n).__name__.lower()}` at {fto_.loc(n)}')
    chk.ob('C14-c', 'D-dominance', fto_.key, 'every requested unit is converted: the loop over the arguments is never left early', not early,
           '; '.join(early) or 'no return/break inside the loop over *args', fto_.loc())

    # ------------------------------------------------------------ C14-d / e
    fr, fe = repo.func('radiometry.planck_radiance'), repo.func('radiometry.planck_exitance')
    xm = None
    for vu, label in ((Const('wlam'), "valueunit='wlam'"), (Const('photlam'), 'other valueunit'), (Const('flam'), "valueunit='flam'")):
        # the flux-unit converter is evaluated too: the comparison is on the returned value itself
        _, pr, _ = analyse(repo, fr, config={'valueunit': vu}, symbolic_globals=True, inline=['radiometry.Wlam.to'])
        _, pe, _ = analyse(repo, fe, config={'valueunit': vu}, symbolic_globals=True, inline=['radiometry.Wlam.to'])
        rr, re_ = returns(pr), returns(pe)
        if len(rr) != 1 or len(re_) != 1:
            raise AnalysisError('planck_* do not fold to one path per valueunit configuration')
        r, e = rr[0].ret, re_[0].ret
        ok = isinstance(r, Poly) and isinstance(e, Poly) and e == nf.PI * r
        det = f'exitance/radiance = {fmt(e / r) if isinstance(r, Poly) and isinstance(e, Poly) and len(r.terms) == 1 else "?"}'
        from .extra_rules import _opaque_lookup
        if not ok and (_opaque_lookup(r) or _opaque_lookup(e)):
            ok, det = None, 'undecided: the flux conversion is taken from a table that is not evaluated: ' + det[:120]
        chk.ob('C14-d', 'N-sibling', 'radiometry.planck_exitance', f'= pi * planck_radiance [{label}]', ok,
               det, fe.loc())
        if vu.value == 'wlam':
            # C14-e on the radiance
            mt = [a for a in nf.value_atoms(r) if is_app(a, 'call:radiometry.Meter.to')]
            to_m = [a for a in nf.value_atoms(r) if is_app(a, 'm:to')]
            if len(mt) != 1 or len(to_m) != 1:
                raise AnalysisError('planck_radiance: unit conversion atoms not recognised')
            X = Poly.atom(to_m[0])
            wm = S('wave') * X
            flux = r * Poly.atom(mt[0])
            ref = 2 * Hs * Cs ** 2 / (wm ** 5 * (nf.app('exp', Hs * Cs / (wm * Ks * S('temp'))) - 1))
            chk.ob('C14-e', 'N-formula', 'radiometry.planck_radiance', 'textbook Planck law', flux == ref,
                   f'flux = {fmt(flux)}; textbook = {fmt(ref)}', fr.loc())
            ad = {('sym', 'radiometry.H'): dims.D(kg=1, m=2, s=-1), ('sym', 'radiometry.C'): dims.D(m=1, s=-1),
                  ('sym', 'radiometry.K'): dims.D(kg=1, m=2, s=-2, K=-1), ('sym', 'temp'): dims.D(K=1),
                  ('sym', 'wave'): dims.D(wu=1), to_m[0]: dims.D(m=1, wu=-1)}
            ok_d, msg, d = dims.check(flux, ad, want=dims.D(kg=1, s=-3, m=-1))
            chk.ob('C14-e', 'U-dims', 'radiometry.planck_radiance', 'dimension of the flux (W m^-2 m^-1)',
                   ok_d is True, msg, fr.loc())
            fluxe = e * Poly.atom(mt[0]) if isinstance(e, Poly) else None
            ok_d, msg, d = dims.check(fluxe, ad, want=dims.D(kg=1, s=-3, m=-1)) if fluxe is not None else (False, '?', None)
            chk.ob('C14-e', 'U-dims', 'radiometry.planck_exitance', 'dimension of the flux (W m^-2 m^-1)',
                   ok_d is True, msg, fe.loc())

    for fn_ in (fr, fe):
        _, pp_, _ = analyse(repo, fn_, symbolic_globals=True)
        raw = []
        for p_ in returns(pp_):
            for e_ in p_.events:
                if e_.kind == 'arith' and e_.data.get('op') == 'pow' and e_.data.get('left') == S('wave') and \
                        isinstance(e_.data.get('right'), Poly) and (e_.data['right'].const_value() or 0) >= 2:
                    raw.append(f'wave**{fmt(e_.data["right"])} at {e_.loc()}')
        chk.ob('C14-e', 'T-dtype', fn_.key, 'powers of the wavelength are taken after the conversion to metres (a float array), never of the '
               'caller\'s own (possibly integer) array', not raw, '; '.join(sorted(set(raw))[:2]) or 'wave is scaled to metres first', fn_.loc())

    # ---------------------------------------------------------------- C14-f
    mod = repo.modules['radiometry']
    for nm, ref in CODATA.items():
        node = mod.globals.get(nm)
        if not isinstance(node, ast.Constant):
            raise AnalysisError(f'radiometry.{nm} is not a literal')
        v = Fraction(repr(node.value))
        rel = abs(v - ref) / ref
        chk.ob('C14-f', 'T-constant', f'radiometry.{nm}', 'CODATA value', rel < Fraction(1, 10 ** 6),
               f'{nm} = {node.value!r}, CODATA {float(ref)!r}, relative difference {float(rel):.2e}',
               f'{mod.relpath}:{node.lineno}')

    # ---------------------------------------------------------------- C14-g
    n = 0
    for key in ('radiometry.Blackbody.__init__', 'radiometry.Blackbody.sample', 'radiometry.Blackbody.sample_vegamag',
                'radiometry.Blackbody.vegamag', 'radiometry.vegaflux', 'radiometry.planck_radiance',
                'radiometry.planck_exitance', 'radiometry.Spectrum.resample', 'radiometry.Spectrum._ufunc'):
        caller = repo.func(key)
        for s in bind.sites(repo, caller):
            if not ({'waveunit', 'valueunit'} & set(s.callee.param_names())):
                continue
            n += 1
            mm = bind.b3_mismatches(s, names={'waveunit', 'valueunit'})
            chk.ob('C14-g', 'B3-binding', key, f'call of {s.callee.key}', not mm,
                   '; '.join(f'argument `{a}` is bound to parameter `{p}`' for p, a in mm) or 'like-named binding',
                   s.loc())
            # a caller that works in a caller-chosen unit never falls back on the callee's hard-coded default unit
            own = set(caller.param_names())
            for unit in ('waveunit',):     # (Blackbody.vegamag computes in photlam on purpose: valueunit defaults are not policed)
                dflt = {nm: d for nm, d, k in s.callee.params() if nm == unit}
                if unit in own and unit in dflt and isinstance(dflt[unit], ast.Constant) and isinstance(dflt[unit].value, str):
                    explicit = unit in s.binding or s.star
                    chk.ob('C14-g', 'B5-default', key, f'call of {s.callee.key} at line {s.node.lineno} passes {unit}', explicit,
                           '' if explicit else f'relies on the default {unit}={dflt[unit].value!r} of {s.callee.key} although '
                                               f'{key} works in the `{unit}` it was given', s.loc())


def wave_unit_rules(chk, repo, tier):
    """The wavelength-unit factors: identity, SI anchors, closure over all triples, aliases (C14-a; also what mixed-unit
    spectrum arithmetic relies on when it brings the second operand to the unit of the first)."""
    units = list(WAVE_CLASSES)
    fac = {}
    for a in units:
        for b in units:
            v, f = wave_factor(repo, a, b)
            fac[(a, b)] = v
            if v is None:
                raise AnalysisError(f'{f.key}({b!r}) does not fold to a constant')
    for a in units:
        f = repo.func(f'radiometry.{WAVE_CLASSES[a]}.to')
        chk.ob('C14-a', 'T-identity', f.key, f'{a} -> {a}', fac[(a, a)] == 1,
               f'factor {fac[(a, a)]}, expected 1', f.loc())
        chk.ob('C14-a', 'T-anchor', 'radiometry.Meter.to', f'm -> {a} (SI)', fac[('m', a)] == SI[a],
               f'factor {fac[("m", a)]}, SI prefix gives {SI[a]}', repo.func('radiometry.Meter.to').loc())
    for a, b, c in itertools.product(units, repeat=3):
        f = repo.func(f'radiometry.{WAVE_CLASSES[a]}.to')
        ok = fac[(a, b)] * fac[(b, c)] == fac[(a, c)]
        chk.ob('C14-a', 'T-closure', 'radiometry wavelength units', f'{a}->{b}->{c}', ok,
               f'{fac[(a, b)]} * {fac[(b, c)]} = {fac[(a, b)] * fac[(b, c)]} but {a}->{c} is {fac[(a, c)]}', f.loc())
    for a in units:
        for b, names in WAVE_ALIASES.items():
            for alias in names[1:]:
                v, f = wave_factor(repo, a, alias)
                chk.ob('C14-a', 'T-alias', f.key, f'{a} -> alias {alias!r}', v == fac[(a, b)],
                       f'alias gives {v}, canonical {b!r} gives {fac[(a, b)]}', f.loc())
    fu = repo.func('radiometry.Unit')
    for b, names in list(WAVE_ALIASES.items()) + [(k, [k]) for k in FLUX_CLASSES]:
        for alias in names:
            _, paths, _ = analyse(repo, fu, config={'name': Const(alias)})
            p = single(paths, f'Unit({alias!r})')
            ev = [e for e in p.events if e.kind == 'call' and e.data.get('new')]
            cls = ev[-1].data['new'].split('.')[-1] if ev else None
            want = WAVE_CLASSES.get(b) or FLUX_CLASSES.get(b)
            cname = None
            if cls and cls in repo.modules['radiometry'].classes:
                nm = repo.modules['radiometry'].classes[cls].class_attrs.get('name')
                cname = nm.value if isinstance(nm, ast.Constant) else None
            chk.ob('C14-a', 'T-alias', 'radiometry.Unit', f'Unit({alias!r})', cls == want and cname == b,
                   f'constructs {cls} (name {cname!r}); expected {want} (name {b!r})', fu.loc())


def to_rules(chk, repo, tier):
    """Spectrum.to branch by branch: densities, unitless values, flux conversions (C14-c; also what brings the second
    operand of mixed-unit spectrum arithmetic to the unit of the first)."""
    fto = repo.func('radiometry.Spectrum.to')
    _, paths, _ = analyse(repo, fto)
    loops = [lp for p in paths for lp in p.state.loops if lp['func'] == fto.key]
    if not loops:
        raise AnalysisError('Spectrum.to: unit loop not found')
    lp = loops[0]
    # the property getters may be inlined (self.wave -> self._wave): use whichever form occurs
    seen_atoms = set()
    for bs in lp['states']:
        for e in bs.events[lp['n_pre_events']:]:
            if e.kind == 'write' and 'value' in e.data:
                seen_atoms |= nf.value_atoms(e.data['value'])

    def pick(name):
        for cand in (nf.attr(S('self'), '_' + name), nf.attr(S('self'), name)):
            if cand.single_atom() in seen_atoms:
                return cand
        return nf.attr(S('self'), name)
    wave_attr, val_attr = pick('wave'), pick('value')
    n_w = n_f = n_none = 0
    ok_w = ok_none = ok_f = True
    det_w = det_f = det_none = ''
    for bs in lp['states']:
        stores = {}
        for e in bs.events[lp['n_pre_events']:]:
            if e.kind == 'write' and e.data.get('how') == 'attrstore' and root_is_self(e.target):
                stores[e.data['attr']] = (e.data['value'], e)
        conds = bs.conds[lp['n_pre_conds']:]
        cs = ' & '.join(('' if pol else 'not ') + fmt(c) for c, pol, _ in conds)
        if 'wave' in stores and 'valueunit' not in stores:
            wv = stores['wave'][0]
            k = wv / wave_attr if isinstance(wv, Poly) else None
            if 'value' in stores:
                n_w += 1
                vv = stores['value'][0]
                good = isinstance(vv, Poly) and k is not None and vv * k == val_attr and not mentions(k, wave_attr)
                ok_w = ok_w and good
                if not good:
                    det_w = f'wave <- {fmt(wv)} but value <- {fmt(vv)} (not the reciprocal factor) [{cs}]'
            else:
                n_none += 1
        elif 'valueunit' in stores and 'value' in stores:
            n_f += 1
            vv = stores['value'][0]
            good, det = flux_branch_ok(vv, wave_attr, val_attr)
            ok_f = ok_f and good
            det_f = det_f or det
            if 'wave' in stores:
                ok_f = False
                det_f = 'the flux branch also rewrites the wavelengths'
        elif 'value' in stores and 'wave' not in stores and 'valueunit' not in stores:
            ok_none = False
            det_none = f'values rewritten without the wavelengths [{cs}]'
    # every conversion factor is looked up inside the loop, after earlier arguments have updated the units
    stale = []
    for pth in paths:
        for e in pth.events:
            if e.kind == 'call' and e.depth == 0 and not e.in_loop and \
                    (e.data.get('callee') in ('method:to', 'radiometry.Meter.to') or str(e.data.get('callee', '')).endswith('.to')) \
                    and e.data.get('callee') != fto.key:
                stale.append(e.loc())
    chk.ob('C14-c', 'D-freshness', fto.key, 'unit factors are evaluated per argument (not once before the loop)', not stale,
           f'conversion factor computed before the loop at {sorted(set(stale))}: it is stale once an earlier argument changed the unit'
           if stale else 'all factor look-ups are inside the loop', fto.loc())
    # each of the three flux units is a density per wavelength: with any of them a change of wavelength unit rescales both
    # the wavelengths and the values (decided with the unit as a fact, tables read by value)
    for vu in ('photlam', 'flam', 'wlam'):
        facts_vu = {nf.attr(S('self'), 'valueunit').single_atom(): Const(vu)}
        cls_ = repo.cls('radiometry.Spectrum')
        for unit_cls, unit_name in (('Photlam', 'photlam'), ('Flam', 'flam'), ('Wlam', 'wlam')):
            if unit_name == vu:
                facts_vu[nf.attr(nf.attr(S('self'), '_valueunit'), 'name').single_atom()] = Const(vu)
        ucls = {'photlam': 'Photlam', 'flam': 'Flam', 'wlam': 'Wlam'}[vu]
        types_vu = {nf.attr(S('self'), '_valueunit').single_atom(): repo.cls(f'radiometry.{ucls}')} \
            if f'radiometry.{ucls}' in {c.key for m_ in repo.modules.values() for c in m_.classes.values()} else {}
        _, vpaths, _ = analyse(repo, fto, facts=facts_vu, types=types_vu, literal_tables=True)
        n_br, miss = 0, []
        for lp_ in [l_ for q in vpaths for l_ in q.state.loops if l_['func'] == fto.key][:1]:
            for bs in lp_['states']:
                stores = {e.data['attr'] for e in bs.events[lp_['n_pre_events']:]
                          if e.kind == 'write' and e.data.get('how') == 'attrstore' and root_is_self(e.target)}
                if 'waveunit' in stores and 'valueunit' not in stores:
                    n_br += 1
                    if not {'wave', 'value'} <= stores:
                        cs = ' & '.join(('' if pol else 'not ') + fmt(c)[:70] for c, pol, _ in bs.conds[lp_['n_pre_conds']:])
                        miss.append(f'the wavelength unit is relabelled but {sorted({"wave", "value"} - stores)} stay as they are [{cs}]')
        open_lookup = any('m:get(' in fmt(c) or 'callv(' in fmt(c) for l_ in [l2 for q in vpaths for l2 in q.state.loops if l2['func'] == fto.key][:1]
                          for bs in l_['states'] for c, _p, _n in bs.conds[l_['n_pre_conds']:])
        chk.ob('C14-c', 'T-table', fto.key, f'a spectrum in {vu} is rescaled as a density when its wavelength unit changes',
               ((not miss) if not (miss and open_lookup) else None) if n_br else None, '; '.join(miss[:1]) or f'{n_br} wavelength-unit branch(es), all rescale wave and value', fto.loc())
    chk.ob('C14-c', 'N-reciprocal', fto.key, 'density branch', ok_w and n_w > 0,
           det_w or 'value is divided by exactly the factor that multiplies wave', fto.loc())
    chk.ob('C14-c', 'D-untouched', fto.key, 'unitless branch', ok_none and n_none > 0,
           det_none or 'only the wavelengths are converted when valueunit is None', fto.loc())
    chk.ob('C14-c', 'N-flux', fto.key, 'flux branch', ok_f and n_f > 0,
           det_f or 'converted through metres and back', fto.loc())



def rescaled_copy_rule(chk, repo, clause):
    """Wherever radiometry builds a Spectrum from another one's samples with the wavelengths multiplied by a unit factor,
    the values of a per-wavelength density are divided by that factor (what Spectrum.to does) - unless the new spectrum
    is declared unitless."""
    cls = repo.cls('radiometry.Spectrum')
    n_fn = n_sites = 0
    bad, locs = [], []
    for f in repo.all_functions():
        if f.module.name != 'radiometry' or f.key == 'radiometry.Spectrum.to':
            continue
        src = ast.get_source_segment(f.module.source, f.node) if hasattr(f.module, 'source') else None
        if src is not None and 'to(' not in src:
            continue
        types = {('sym', nm): cls for nm, _, _ in f.params() if nm in ('s1', 's2', 'other', 'spectrum', 'spec')}
        try:
            _, paths, _ = analyse(repo, f, types=types)
        except AnalysisError:
            continue
        n_fn += 1
        for p in paths:
            for e in p.events:
                if e.kind != 'call' or e.data.get('new') != 'radiometry.Spectrum' or not e.bound:
                    continue
                W, V, vu = e.bound.get('wave'), e.bound.get('value'), e.bound.get('valueunit')
                if not isinstance(W, Poly) or not isinstance(V, Poly):
                    continue
                for wa in [a for a in W.atoms(deep=False) if a[0] == 'attr' and a[2] in ('wave', '_wave')]:
                    k = W / Poly.atom(wa)
                    if k is None or wa in nf.value_atoms(k) or k.const_value() is not None:
                        continue
                    if not any(is_app(x, 'm:to') or (x[0] == 'app' and str(x[1]).startswith('call:') and str(x[1]).endswith('.to'))
                               for x in nf.value_atoms(k)):
                        continue
                    n_sites += 1
                    src_vals = [Poly.atom(('attr', wa[1], nm)) for nm in ('value', '_value')]
                    if vu == NONE or any(V * k == sv for sv in src_vals):
                        continue
                    if any(sv.single_atom() in nf.value_atoms(V) for sv in src_vals):
                        locs.append(f.loc(e.node))
                        bad.append(f'{f.key} @ {e.loc()}: wavelengths * ({fmt(k)[:60]}) but value = {fmt(V)[:60]} '
                                   f'(a density must be divided by the same factor)')
    chk.ob(clause, 'N-reciprocal', 'radiometry', 'a spectrum re-expressed in another wavelength unit rescales its density values too',
           not bad, '; '.join(sorted(set(bad))[:2]) or f'{n_fn} functions scanned, {n_sites} rescaled constructions, all paired',
           locs[0] if locs else repo.func('radiometry._interp_common').loc())


def unit_label_order_rule(chk, repo, clause):
    """Spectrum.to converts the data with the old unit before it re-labels the spectrum (C14-c; reused by C13-c)."""
    _, topaths, _ = analyse(repo, 'radiometry.Spectrum.to')
    late, n_lab = [], 0
    for p in topaths:
        for lp in p.state.loops:
            for bs in lp['states']:
                evs = bs.events[lp['n_pre_events']:]
                for label, data in (('waveunit', ('wave', 'value')), ('valueunit', ('value',))):
                    lab = [i for i, e in enumerate(evs) if e.kind == 'write' and e.data.get('how') == 'attrstore'
                           and e.data.get('attr') in (label, '_' + label)]
                    dat = [i for i, e in enumerate(evs) if e.kind == 'write' and e.data.get('how') == 'attrstore'
                           and e.data.get('attr') in data + tuple('_' + d for d in data)]
                    if lab and dat:
                        n_lab += 1
                        if min(lab) < max(dat):
                            late.append(f'{label} is re-labelled before {evs[max(dat)].data.get("attr")} is converted (at {evs[max(dat)].loc()})')
    chk.ob(clause, 'D-order', 'radiometry.Spectrum.to', 'the unit label changes only after the data were converted with the old unit',
           (not late and n_lab > 0) if (n_lab or late) else None, '; '.join(sorted(set(late))[:2]) or f'{n_lab} conversion branch(es)',
           repo.func('radiometry.Spectrum.to').loc())


def root_is_self(v):
    from ..rules import root_sym
    return root_sym(v) == 'self'


def mentions(v, atom_poly):
    a = atom_poly.single_atom()
    return a in nf.value_atoms(v)


def flux_branch_ok(vv, wave_attr, val_attr):
    """value <- _valueunit.to(value/X, unit, wave*X) / Meter.to(self.waveunit), X = _waveunit.to('meter')"""
    if not isinstance(vv, Poly) or len(vv.terms) != 1:
        return False, f'flux branch stores {fmt(vv)}'
    tos = [a for a, e in vv.terms[0][0] if is_app(a, 'm:to') and e == 1]
    back = [a for a, e in vv.terms[0][0] if is_app(a, 'call:radiometry.Meter.to') and e == -1]
    if len(tos) != 1 or len(back) != 1:
        return False, f'flux branch stores {fmt(vv)}; expected valueunit.to(...)/Meter().to(waveunit)'
    recv, V, unit, W = (list(tos[0][2]) + [None] * 4)[:4]
    if recv != nf.attr(S('self'), '_valueunit'):
        return False, 'the flux conversion is not performed by the current value unit object'
    if not isinstance(V, Poly) or not isinstance(W, Poly) or V * W != val_attr * wave_attr:
        return False, f'value and wave are not rescaled reciprocally before the conversion: {fmt(V)} ; {fmt(W)}'
    X = W / wave_attr
    xa = X.single_atom()
    if xa is None or not is_app(xa, 'm:to') or xa[2][0] != nf.attr(S('self'), '_waveunit') or \
            not (isinstance(xa[2][1], Const) and xa[2][1].value in ('meter', 'm')):
        return False, f'the wavelengths are not converted to metres before the flux conversion ({fmt(X)})'
    b = {k.items[0].value: k.items[1] for k in back[0][2]}
    wu = b.get('waveunit')
    if wu not in (nf.attr(S('self'), 'waveunit'), nf.attr(nf.attr(S('self'), '_waveunit'), 'name'), NONE):   # NONE: the inlined getter on the path where no unit is set
        return False, f'the result is not converted back with Meter().to(self.waveunit) but with waveunit = {fmt(wu)[:80]}'
    if vv != Poly.atom(tos[0]) / Poly.atom(back[0]):
        return False, f'extra factor in the flux branch: {fmt(vv)}'
    return True, ''
