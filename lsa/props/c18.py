"""C18 - stochastic models are reproducible from their seed and physically bounded."""
from fractions import Fraction

from .. import nf, bind
from ..nf import Poly, Tup, Const, NONE, TRUE, FALSE
from ..effects import Effects, doc_param_kinds
from ..model import AnalysisError
from ..ranges import Ranges, Rng, INF
from ..shapes import Shapes, declare_2d, kw
from ..rules import run as analyse, returns, fmt, is_app, S, C, has_factor, conds_str
from ..npmodel import nf_abs
from . import common
from .c10 import GLOBAL_RNG_USERS


def draw_atoms(v, names):
    return [a for a in nf.value_atoms(v) if is_app(a, names)]


def from_seed(atom):
    r = atom[2][0]
    ra = r.single_atom() if isinstance(r, Poly) else None
    return ra is not None and is_app(ra, 'random.default_rng') and ra[2] and ra[2][0] == S('seed')


def run(chk, repo, tier):
    from .common import no_hidden_state
    no_hidden_state(chk, repo, 'C18')
    chk.clause('C18-a', 'seed reaches default_rng; all draws come from that generator; nothing else nondeterministic', 10)
    chk.clause('C18-b', 'Poisson shot noise: integer, non-negative, bad inputs translated into ValueError', 3)
    chk.clause('C18-c', 'read noise: zero-mean normal draw with sigma=electrons of the frame shape, added to the frame', 2)
    chk.clause('C18-d', 'dark frame without FPN equals floor(rate), with FPN it stays non-negative; rule07 forwards its arguments', 3)
    chk.clause('C18-e', 'surface error: mask factor, RMS algebra, array shapes agree for non-square masks', 3)
    chk.clause('C18-f', 'cosmic-ray frame has the requested shape and is non-negative', 2)
    chk.clause('C18-h', 'Gaussian shot noise refuses negative and unrepresentably large signals as the Poisson branch does', 2)
    chk.clause('C18-g', 'shot-noise parameters: Poisson rate = signal; Gaussian loc = signal, scale = sqrt(signal)', 2)
    chk.not_decided += ['different seeds give different draws', 'moments of the draws', 'finiteness']

    eff = Effects(repo)
    common.seed_rules(chk, repo, eff, 'C18-a', GLOBAL_RNG_USERS)

    # ------------------------------------------------------------ C18-b / g
    f, paths, _ = analyse(repo, 'detector.shot_noise', config={'method': Const('poisson')})
    rets = returns(paths)
    ok_r = bool(rets)
    det = ''
    for p in rets:
        r = Ranges().of(p.ret)
        ok_r = ok_r and r.nonneg and r.integer
        det = f'range {r!r}'
        ps = draw_atoms(p.ret, 'm:poisson')
        okp = len(ps) == 1 and from_seed(ps[0]) and (kw(ps[0][2], 'lam') == S('img') or ps[0][2][1] == S('img'))
        chk.ob('C18-g', 'D-provenance', f.key, 'Poisson rate is the signal', okp,
               f'draw: {nf.fmt_atom(ps[0])[:120]}' if ps else 'no poisson draw', f.loc(p.node))
    chk.ob('C18-b', 'R-range', f.key, 'result integer-valued and non-negative', ok_r, det, f.loc())
    raises = [p for p in paths if p.status == 'raise']
    neg = [p for p in raises if p.exc == 'ValueError' and any(
        pol and fmt(c) == 'lt(amin(img), 0)' for c, pol, _ in p.conds)]
    big = [p for p in raises if p.exc == 'ValueError' and any(
        pol and is_app(c.single_atom() or ('x',), 'lt') and 'amax(img)' in fmt(c) for c, pol, _ in p.conds if isinstance(c, Poly))]
    chk.ob('C18-b', 'D-refusal', f.key, 'negative signal -> ValueError', bool(neg), '', f.loc())
    # every representable count survives: the draws are only ever cast to full-width types
    narrow = []
    WIDE = {"('builtin', 'int')", "('builtin', 'float')", "'int64'", "'float64'", "'uint64'", "'longlong'", "'int_'", "'float_'"}
    _, sp, _ = analyse(repo, 'detector.shot_noise')
    for p in returns(sp):
        for a in nf.value_atoms(p.ret):
            if is_app(a, ('cast', 'm:astype')) and len(a[2]) > 1 and isinstance(a[2][1], Const) and repr(a[2][1]) not in WIDE:
                narrow.append(repr(a[2][1]))
    chk.ob('C18-b', 'T-dtype', 'detector.shot_noise', 'counts are never cast to a narrower type than the platform integer / double',
           not narrow, ('cast to ' + ', '.join(sorted(set(narrow))) + ': large counts wrap around') if narrow else 'full-width casts only',
           repo.func('detector.shot_noise').loc())
    chk.ob('C18-b', 'D-refusal', f.key, 'unrepresentably large signal -> ValueError', bool(big), '', f.loc())
    f, paths, _ = analyse(repo, 'detector.shot_noise', config={'method': Const('gaussian')})
    okg, det = False, 'no normal draw'
    for p in returns(paths):
        ns = draw_atoms(p.ret, 'm:normal')
        if len(ns) == 1:
            a = ns[0]
            loc, scale = kw(a[2], 'loc'), kw(a[2], 'scale')
            okg = from_seed(a) and loc == S('img') and scale == S('img').pow(Fraction(1, 2))
            det = f'normal(loc={fmt(loc)}, scale={fmt(scale)})'
        sn = draw_atoms(p.ret, 'm:standard_normal')
        if len(sn) == 1 and not ns and isinstance(p.ret, Poly):
            det = 'standard_normal form'
    chk.ob('C18-g', 'D-provenance', f.key, 'Gaussian approximation: loc = signal, scale = sqrt(signal)', okg, det, f.loc())
    gaussian_refusal_rule(chk, repo, 'C18-h', paths)

    # ---------------------------------------------------------------- C18-c
    f, paths, _ = analyse(repo, 'detector.read_noise')
    rets = returns(paths)
    okc, oka, det = False, False, ''
    for p in rets:
        noise = p.ret - S('img') if isinstance(p.ret, Poly) else None
        oka = noise is not None and ('sym', 'img') not in {a for a in noise.atoms(deep=False)}
        ns = draw_atoms(p.ret, 'm:normal')
        sn = draw_atoms(p.ret, 'm:standard_normal')
        ishape = nf.attr(S('img'), 'shape')
        if len(ns) == 1 and noise == Poly.atom(ns[0]):
            a = ns[0]
            loc, scale, size = kw(a[2], 'loc'), kw(a[2], 'scale'), kw(a[2], 'size')
            okc = from_seed(a) and isinstance(loc, Poly) and loc.is_zero() and scale == S('electrons') and size == ishape
            det = f'normal(loc={fmt(loc)}, scale={fmt(scale)}, size={fmt(size)})'
        elif len(sn) == 1 and noise == S('electrons') * Poly.atom(sn[0]):
            okc = from_seed(sn[0]) and (kw(sn[0][2], 'size') == ishape or sn[0][2][1] == ishape)
            det = 'electrons * standard_normal(img.shape)'
        else:
            det = f'noise term {fmt(noise)[:160]}'
    chk.ob('C18-c', 'D-provenance', f.key, 'zero-mean, sigma = electrons, frame shape', okc, det, f.loc())
    chk.ob('C18-c', 'D-provenance', f.key, 'the draw is added to the unchanged frame', oka, det, f.loc())

    # ---------------------------------------------------------------- C18-d
    f, paths, _ = analyse(repo, 'detector.dark_current')
    okd, det = False, ''
    for p in returns(paths):
        from ..rules import literals
        if any(pol is False and is_app(c.single_atom() or ('x',), 'lt') and ('sym', 'fpn_factor') in nf.value_atoms(c)
               for c, pol in literals(p.conds) if isinstance(c, Poly)):
            want = nf.floor(S('rate') * nf.app('ones', S('shape')))
            okd = p.ret == want
            det = f'returns {fmt(p.ret)}'
    chk.ob('C18-d', 'R-constant', f.key, 'without pattern noise the frame is floor(rate)', okd, det, f.loc())
    # with pattern noise the frame stays a count of electrons: the pattern factor comes from a distribution on the positive
    # reals (log-normal), so no pixel goes negative however wide the pattern is
    oks_, dets_ = None, ''
    for p in returns(paths):
        draws = [a for a in nf.value_atoms(p.ret) if is_app(a) and a[1].startswith('m:') and a[1][2:] in
                 ('lognormal', 'normal', 'standard_normal', 'uniform', 'gamma', 'poisson', 'exponential', 'random', 'laplace', 'logistic')]
        if not draws:
            continue
        r = Ranges(env={('sym', 'rate'): Rng(0, INF), ('sym', 'fpn_factor'): Rng(0, INF)}).of(p.ret)
        good = r.nonneg
        oks_ = good if oks_ is None else (oks_ and good)
        if not good:
            dets_ = f'pattern factor drawn as {nf.fmt_atom(draws[0])[:90]}; the frame ranges over {r!r}: pixels can hold a negative ' \
                    'number of electrons'
    chk.ob('C18-d', 'R-sign', f.key, 'a dark frame with pattern noise is non-negative for every non-negative rate', oks_,
           dets_ or 'the pattern factor is drawn from a distribution on the positive reals', f.loc())
    fr = repo.func('detector.rule07_dark_current')
    sites = [s for s in bind.sites(repo, fr) if s.callee.key == 'detector.dark_current']
    okf = len(sites) == 1 and not bind.b3_mismatches(sites[0]) and \
        {'rate', 'shape', 'fpn_factor', 'seed'} <= set(sites[0].binding)
    chk.ob('C18-d', 'B3-binding', fr.key, 'forwards rate, shape, fpn_factor, seed to the like-named parameters', okf,
           '; '.join(f'`{a}` -> `{p}`' for p, a in (bind.b3_mismatches(sites[0]) if sites else [])), fr.loc())

    # ---------------------------------------------------------------- C18-e
    _ps_rules(chk, repo)

    # ---------------------------------------------------------------- C18-f
    f, paths, _ = analyse(repo, 'detector.cosmic_rays')
    okz = oks = False
    for p in returns(paths):
        lps = [lp for lp in p.state.loops if lp['func'] == f.key]
        if lps:
            cr = p.calls('detector._cosmic_ray')
            for acc, ph in lps[0]['phi'].items():      # the accumulated frame, whatever it is called
                ends = [e.get(acc) for e in lps[0]['ends']]
                if len(cr) == 1 and ends and all(isinstance(e, Poly) and e == ph + cr[0].result for e in ends):
                    pre = lps[0]['pre'].get(acc)
                    pa = pre.single_atom() if isinstance(pre, Poly) else None
                    okz = pa is not None and is_app(pa, 'zeros') and pa[2][0] == S('shape')
                    oks = cr[0].bound.get('shape') == S('shape')
    if not (okz and oks):
        # one frame per ray may be picked between particle types first (a conditional argument): what matters is that every
        # pass adds a _cosmic_ray(shape, ...) frame to the accumulator that started as zeros(shape)
        for p in returns(paths):
            for lp in [l_ for l_ in p.state.loops if l_['func'] == f.key]:
                for acc, ph in lp['phi'].items():
                    pre = lp['pre'].get(acc)
                    pa = pre.single_atom() if isinstance(pre, Poly) else None
                    if pa is None or not is_app(pa, 'zeros') or pa[2][0] != S('shape'):
                        continue
                    ends = [e.get(acc) for e in lp['ends']]
                    good = bool(ends)
                    for e in ends:
                        d = e - ph if isinstance(e, Poly) else None
                        da = d.single_atom() if isinstance(d, Poly) else None
                        good = good and da is not None and is_app(da, 'call:detector._cosmic_ray') and \
                            dict((k.items[0].value, k.items[1]) for k in da[2]).get('shape') == S('shape')
                    if good:
                        okz = oks = True
    chk.ob('C18-f', 'R-shape', f.key, 'accumulates ray frames of the requested shape into zeros(shape)', okz and oks, '', f.loc())
    # the ray is confined to the frame: rows 0..shape[0]-1, columns 0..shape[1]-1, one layer deep
    fcr, cpaths, _ = analyse(repo, 'detector._cosmic_ray')
    oke, dete, ne = True, '', 0
    sh = S('shape')
    want_ext = Tup([C(0), nf.index(sh, C(0)) - 1, C(0), nf.index(sh, C(1)) - 1, C(0), C(-1)])
    for p in returns(cpaths):
        for e in p.calls('detector._propagate_ray'):
            ne += 1
            ext = e.bound.get('extent')
            if isinstance(ext, Tup) and len(ext) == 6:
                if Tup(list(ext.items)) != want_ext:
                    oke, dete = False, f'extent = {fmt(ext)[:120]}; expected {fmt(want_ext)}'
            else:
                # the tracer is handed something else (the frame shape) and builds the box itself: look there
                fpr = repo.func('detector._propagate_ray')
                _, ppaths, _ = analyse(repo, fpr)
                boxes = [ev.data['args'][0] if ev.data.get('args') else (ev.data.get('bound') or {}).get('extent')
                         for q in returns(ppaths) for ev in q.events if ev.kind == 'call' and
                         str(ev.data.get('callee', '')).endswith('_cube_intersections') and 'process' not in str(ev.data.get('callee', ''))]
                pname = [nm for nm, v in e.bound.items() if v == sh]
                want_in = nf.subst_value(want_ext, {('sym', 'shape'): S(pname[0])}) if pname else None
                hit = [b_ for b_ in boxes if isinstance(b_, Tup) and len(b_) == 6]
                if hit and want_in is not None and all(Tup(list(b_.items)) == want_in for b_ in hit):
                    pass
                elif hit and want_in is not None:
                    oke, dete = False, f'box = {fmt(hit[0])[:120]}; expected {fmt(want_in)}'
                else:
                    oke = None if oke else oke
                    dete = f'the box the ray is traced in is not visible ({fmt(ext)[:60]} is handed to the tracer)'
    chk.ob('C18-f', 'R-shape', fcr.key, 'the ray is traced inside the frame: extent (0, rows-1, 0, cols-1, 0, -1)',
           None if oke is None else ((oke and ne > 0) if (ne > 0 or not oke) else None), dete or f'{ne} call(s)', fcr.loc())
    f, paths, _ = analyse(repo, 'detector._cosmic_ray')
    okn, det = True, ''
    n = 0
    for p in returns(paths):
        n += 1
        env = {('sym', 'alpha_flux'): Rng(0, INF), ('sym', 'proton_flux'): Rng(0, INF)}
        rg = Ranges(env=env, loops=p.state.loops)
        rr = rg.of(p.ret)
        if not rr.nonneg and rg.unknown:
            okn = None if okn is not False else okn
            det = f'undecided: no range model for {rg.unknown[0]}'
            continue
        okn = (okn and rr.nonneg) if okn is not None else (False if not rr.nonneg else None)
        det = f'range {rr!r}'
    chk.ob('C18-f', 'R-sign', f.key, 'deposited charge is non-negative', (okn and n > 0) if okn is not None else None, det, f.loc())


def _ps_rules(chk, repo):
    f, paths, _ = analyse(repo, 'wfe.power_spectrum', facts={nf.attr(S('mask'), 'ndim').single_atom(): nf.Poly.const(2)}, unroll=True)
    rets = returns(paths)
    if not rets:
        raise AnalysisError('power_spectrum: no returning path')
    for p in rets:
        _ps_path(chk, f, p)


def _ps_path(chk, f, p):
    r = p.ret
    hm = isinstance(r, Poly) and has_factor(r, lambda a: a == ('sym', 'mask'))
    chk.ob('C18-e', 'D-factor', f.key, 'mask is a factor of the surface (zero outside the mask)', hm,
           '' if hm else f'result {fmt(r)[:200]}', f.loc(p.node))
    # RMS algebra: r = opd0 * c, c^2 * sum|opd0|^2 / count = rms^2
    sums = [a for a in r.atoms(deep=True) if is_app(a, 'sum')]
    cnts = [a for a in r.atoms(deep=True) if is_app(a, 'count_nonzero')]
    okr, det = False, 'normalisation not recognised'
    if len(cnts) == 1:
        opd0 = cnts[0][2][0]
        c = r / opd0
        # the mean square may be written with |x|**2 or x**2 (the surface is real)
        okr = False
        for sq in (nf_abs(opd0) ** 2, opd0 ** 2):
            lhs = c ** 2 * nf.app('sum', sq) / nf.app('count_nonzero', opd0)
            okr = okr or lhs == S('rms') ** 2
        det = f'c^2*sum|opd|^2/count = {fmt(lhs)[:120]}'
    chk.ob('C18-e', 'N-identity', f.key, 'RMS over the mask equals rms', okr, det, f.loc(p.node))
    decl = declare_2d('mask')
    for nm, kind in doc_param_kinds(f).items():
        if kind == 'scalar':
            decl[('sym', nm)] = ()
    sh = Shapes(decl)
    s = sh.of(r, where='power_spectrum')
    ok = s == decl[('sym', 'mask')] and not sh.clashes
    chk.ob('C18-e', 'U-shape', f.key, 'noise, filter and mask share the (rows, cols) axes', ok,
           '; '.join(sorted(set(sh.clashes))[:2]) or f'shape {tuple(map(fmt, s)) if s is not None else "unknown"}', f.loc(p.node))



def gaussian_refusal_rule(chk, repo, clause, paths):
    """The Gaussian branch draws normal(img, sqrt(img)) and casts to int: a negative pixel makes the scale NaN and the cast
    turns NaN (and anything beyond the integer range) into -2**63 without complaint, so the refusal has to be a test of
    the signal itself on the way to the draw (or an error state that makes the invalid square root raise)."""
    f = repo.func('detector.shot_noise')

    def tests(p, what):
        """polarity of a path condition that compares the smallest / largest signal (or any / all of a comparison)"""
        out = []
        for c, pol in literals(p.conds):
            a = c.single_atom() if isinstance(c, Poly) else None
            if a is None or a[0] != 'app':
                continue
            inner = [x for x in nf.value_atoms(c) if is_app(x, ('amin', 'amax', 'any', 'all', 'min', 'max', 'nanmin', 'nanmax'))]
            if not inner or ('sym', 'img') not in nf.value_atoms(c):
                continue
            txt = fmt(c)
            if what == 'neg' and ('amin' in txt or 'min(' in txt or ('lt(img, 0)' in txt) or 'le(0, img)' in txt):
                out.append(pol)
            if what == 'big' and ('amax' in txt or 'max(' in txt or 'lt(' in txt and 'img)' in txt and 'e+18' in txt):
                out.append(pol)
        return out
    from ..rules import literals
    draws = [p for p in returns(paths) if draw_atoms(p.ret, 'm:normal') or draw_atoms(p.ret, 'm:standard_normal')]
    raises = [p for p in paths if p.status == 'raise' and p.exc == 'ValueError']
    strict_state = False
    for p in draws:
        for e in p.events:
            if e.kind == 'call' and e.data.get('callee') == 'ext:numpy.errstate':
                kws = {k: repr(v) for k, v in (e.data.get('kwargs') or {}).items()}
                if 'raise' in kws.get('invalid', '') or 'raise' in kws.get('all', ''):
                    strict_state = True
    for what, label, why in (('neg', 'negative signal -> ValueError',
                              'sqrt of a negative pixel is an invalid-value condition, which errstate(divide=...) does not raise on: '
                              'the scale is NaN, the draw NaN and the cast to int returns -9.2e18 for that pixel'),
                             ('big', 'unrepresentably large signal -> ValueError',
                              'a draw beyond the integer range is cast to -9.2e18 without complaint')):
        guarded = bool(draws) and all(tests(p, what) for p in draws)
        refused = any(tests(p, what) for p in raises)
        ok = (guarded and refused) or (what == 'neg' and strict_state and bool(raises))
        if ok and what == 'big':
            # head-room: a draw lies several sigma = sqrt(signal) above the signal, so the largest admitted signal has to stay
            # that far below the largest integer (the Poisson sampler's own limit is 2**63 - 10*sqrt(2**63))
            limit = 2 ** 63 - 6 * (2 ** 63) ** 0.5
            bounds = []
            for p in draws:
                for c, pol in literals(p.conds):
                    if 'amax' in fmt(c) or 'max(' in fmt(c):
                        a = c.single_atom()
                        for x in (a[2] if a is not None and is_app(a, ('lt', 'le')) else []):
                            if isinstance(x, Poly) and x.const_value() is not None:
                                bounds.append(float(x.const_value()))
                            elif isinstance(x, Poly) and ('sym', 'img') not in nf.value_atoms(x):
                                bounds.append(None)
            if not bounds or any(b is None or b > limit for b in bounds):
                ok = False
                why = ('the largest admitted signal is ' + (f'{max(b for b in bounds if b is not None):.6g}' if any(b is not None for b in bounds)
                                                              else 'not a number known here (e.g. the largest integer itself)') +
                       ': a normal draw several sigma above it no longer fits a 64-bit integer and is cast to -9.2e18')
        chk.ob(clause, 'D-refusal', f.key, f'Gaussian method: {label}', ok if draws else None,
               'tested on the way to the draw' if ok else f'no test of the signal stands between the argument and the draw: {why}', f.loc())
