"""C13 - spectrum arithmetic is pointwise, commutative and unit agnostic."""
import ast

from .. import nf, bind
from ..nf import Poly, Tup, Const, Slice, NONE, TRUE, FALSE
from ..effects import Effects
from ..model import AnalysisError
from ..rules import run as analyse, returns, fmt, is_app, S, C, conds_str

OPS = {'__add__': ('add', 'numpy.add'), '__sub__': ('subtract', 'numpy.subtract'),
       '__mul__': ('multiply', 'numpy.multiply'), '__rmul__': ('multiply', 'numpy.multiply'),
       '__radd__': ('add', 'numpy.add'),        # 5 + s is s + 5: the commutative operators exist on both sides
       '__truediv__': ('divide', 'numpy.divide'), '__pow__': ('power', 'numpy.power')}
SPEC = 'radiometry.Spectrum'


def unit_atoms(obj):
    return {nf.attr(obj, 'waveunit').single_atom(), nf.attr(obj, '_waveunit').single_atom()}


def run(chk, repo, tier):
    from .common import no_hidden_state
    no_hidden_state(chk, repo, 'C13')
    chk.clause('C13-o', 'arithmetic, sampling, integrating and binning leave the operand spectra untouched', 8)
    from .common import operands_untouched
    operands_untouched(chk, repo, 'C13-o', ['radiometry.Spectrum._ufunc', 'radiometry.Spectrum.add', 'radiometry.Spectrum.subtract', 'radiometry.Spectrum.multiply', 'radiometry.Spectrum.divide', 'radiometry.Spectrum.power', 'radiometry._interp_common', 'radiometry.Spectrum.sample', 'radiometry.Spectrum.integrate', 'radiometry.Spectrum.bin'], allow=[])
    chk.clause('C13-a', 'operator table: dunder -> named method -> numpy ufunc', 14)
    chk.clause('C13-b', 'operands are not modified by arithmetic, sampling, binning or integration', 6)
    chk.clause('C13-c', 'the unit of each operand is consulted before their wavelength grids are combined', 2)
    from .c14 import unit_label_order_rule
    unit_label_order_rule(chk, repo, 'C13-c')
    from .c14 import rescaled_copy_rule
    rescaled_copy_rule(chk, repo, 'C13-c')
    chk.clause('C13-d', 'no internal call relies on the hard-coded default wavelength unit', 5)
    chk.clause('C13-e', 'the result is a new Spectrum; scalar/vector operands (numpy scalars included) keep the wavelength grid', 5)
    chk.clause('C13-f', 'common grid built symmetrically in the first operand\'s unit; both operands sampled and filled the same way, each through its own class', 5)
    chk.clause('C13-g', 'operand samples are taken on the closed range of the operand; min sampling over both operands', 2)
    chk.not_decided += ['interpolated values', 'grid construction numerics']

    from .extra_rules import sampling_rules
    sampling_rules(chk, repo, 'C13-g')
    from .extra_rules import sample_order_rule
    sample_order_rule(chk, repo, 'C13-f')
    cls = repo.cls(SPEC)
    # ---------------------------------------------------------------- C13-a
    for dunder, (meth, ufunc) in OPS.items():
        fd = cls.find_method(dunder)
        if fd is None:
            chk.ob('C13-a', 'T-operator', SPEC, f'{dunder} defined', False, f'{dunder} is missing')
            continue
        _, paths, _ = analyse(repo, fd)
        ok = False
        for p in returns(paths):
            cs = p.calls(f'{SPEC}.{meth}')
            ok = len(cs) == 1 and cs[0].bound.get('other') == S('other') and p.ret == cs[0].result
        chk.ob('C13-a', 'T-operator', f'{SPEC}.{dunder}', f'delegates to {meth}(other)', ok, '', fd.loc())
        # ... with the documented defaults of the method: an operator that chooses a sampling, an interpolation or a fill value
        # of its own makes `a / b` something else than `a.divide(b)`
        import ast as _ast
        extra = []
        for node in _ast.walk(fd.node):
            if isinstance(node, _ast.Call) and isinstance(node.func, _ast.Attribute) and node.func.attr == meth:
                extra += [k.arg or '**' for k in node.keywords] + [f'positional #{i + 1}' for i in range(1, len(node.args))]
        chk.ob('C13-a', 'T-operator', f'{SPEC}.{dunder}', f'hands {meth} the operand only (sampling, method and fill value stay the defaults)',
               not extra, f'also passes {", ".join(extra)}' if extra else '', fd.loc())
        fm = cls.find_method(meth)
        _, paths, _ = analyse(repo, fm)
        ok, det = bool(returns(paths)), ''
        for p in returns(paths):           # every path: no shortcut around the ufunc (the result is always a new Spectrum)
            cs = p.calls(f'{SPEC}._ufunc')
            good = False
            if not cs and not repo.has_func(f'{SPEC}._ufunc'):
                # the shared helper is gone (split, merged): whichever function of the package is handed the ufunc stands in
                # for it, provided it also gets the other operand and the three options, and its result is returned
                want_u = Const(('ext', ufunc))
                alt = [e for e in p.events if e.kind == 'call' and e.depth == 0 and repo.has_func(str(e.data.get('callee'))) and
                       any(v == want_u for v in (e.data.get('bound') or {}).values())]
                if len(alt) == 1:
                    b = alt[0].bound
                    seen = set()
                    for v in b.values():
                        seen |= set(nf.value_atoms(v)) if v is not None else set()
                    good = any(v == S('other') for v in b.values()) and p.ret == alt[0].result
                    if good and not all(('sym', k) in seen for k in ('sampling', 'method', 'fill_value')):
                        good = None
                    det = det or ('' if good else f'undecided: the options are not visibly handed to {alt[0].data.get("callee")}'
                                  if good is None else f'{alt[0].data.get("callee")} does not get the operand / its result is not returned')
                else:
                    good, det = None, 'undecided: Spectrum._ufunc is gone and no single call takes the ufunc'
                ok = None if (good is None and ok) else (ok and good)
                continue
            if len(cs) == 1:
                u = cs[0].bound.get('ufunc')
                b = cs[0].bound
                good = u == Const(('ext', ufunc)) and b.get('other') == S('other') and b.get('sampling') == S('sampling') \
                    and b.get('method') == S('method') and b.get('fill_value') == S('fill_value') and p.ret == cs[0].result
                det = det or ('' if good else f'ufunc = {u!r}')
            else:
                det = f'a path returns {fmt(p.ret)[:80]} without applying the ufunc [{conds_str(p)[-80:]}]'
            ok = ok and good
        chk.ob('C13-a', 'T-operator', f'{SPEC}.{meth}', f'applies {ufunc} on every path', ok, det, fm.loc())

    # ---------------------------------------------------------------- C13-b
    eff = Effects(repo)
    for key in (f'{SPEC}._ufunc', 'radiometry._interp_common', f'{SPEC}.sample', f'{SPEC}.bin', f'{SPEC}.integrate',
                f'{SPEC}.asarray'):
        f = repo.func(key)
        s = eff.summary(f)
        ws = [w for w in s.writes if w.param in ('self', 'other', 's1', 's2')]
        chk.ob('C13-b', 'E1-write', key, 'operands untouched', not ws,
               '; '.join(sorted({f'{w.how} on `{w.param}` (in {w.func})' for w in ws}))[:300], f.loc())

    # ---------------------------------------------------------------- C13-c
    fi = repo.func('radiometry._interp_common')
    _, paths, _ = analyse(repo, fi, types={('sym', 's1'): cls, ('sym', 's2'): cls})
    rets = returns(paths)
    if not rets:
        raise AnalysisError('_interp_common: no returning path')
    for op_name in ('s1', 's2'):
        consulted = True
        for p in rets:
            seen = set()
            for c, _, _ in p.conds:
                seen |= nf.value_atoms(c)
            for e in p.events:
                if e.kind == 'call':
                    for v in (e.data.get('bound') or {}).values():
                        seen |= nf.value_atoms(v)
            consulted = consulted and bool(seen & unit_atoms(S(op_name)))
        chk.ob('C13-c', 'D-must-consult', fi.key, f'unit of `{op_name}` is read before the grids are combined', consulted,
               '' if consulted else f'{op_name}.waveunit is never read: operands in different units are combined as raw numbers',
               fi.loc())

    # ---------------------------------------------------------------- C13-d
    n = 0
    for key in ('radiometry._interp_common', f'{SPEC}.bin', f'{SPEC}.resample', 'detector.qe_asarray',
                f'{SPEC}.sample', 'radiometry.Blackbody.sample'):
        caller = repo.func(key)
        types = {('sym', 's1'): cls, ('sym', 's2'): cls, ('sym', 'qe'): cls}
        for site in bind.sites(repo, caller, types=types):
            dflt = {nm: d for nm, d, k in site.callee.params() if nm == 'waveunit'}
            if 'waveunit' not in dflt or not isinstance(dflt['waveunit'], ast.Constant) or \
                    not isinstance(dflt['waveunit'].value, str):
                continue
            if site.callee.name not in ('sample', 'bin', 'resample'):
                continue
            n += 1
            explicit = 'waveunit' in site.binding or site.star
            chk.ob('C13-d', 'B5-default', key, f'call #{n} of {site.callee.key} passes waveunit', explicit,
                   '' if explicit else f'relies on the default waveunit={dflt["waveunit"].value!r} of {site.callee.key}',
                   site.loc())

    # the common grid spans [min, max] with a step no coarser than the requested one: ceil(span/step) + 1 samples
    fic = repo.func('radiometry._interp_common')
    _, gp, _ = analyse(repo, fic, types={('sym', 's1'): cls, ('sym', 's2'): cls})
    okg, ng, detg = True, 0, ''
    for p in returns(gp):
        for e in p.events:
            if e.kind == 'call' and e.data.get('callee') == 'ext:numpy.linspace':
                a = e.data.get('args', [])
                sm = p.calls('radiometry._sampling')
                if len(a) < 3 or not sm:
                    continue
                ng += 1
                lo, hi, num = a[0], a[1], a[2]
                want = nf.ceil((hi - lo) / sm[0].result) + 1
                got = nf.strip_apps(num, ('cast', 'int', 'copy'))
                ia = got.single_atom() if isinstance(got, Poly) else None
                if ia is not None and is_app(ia, 'int'):
                    got = ia[2][0]
                # int(x) + 1 with x = ceil(...)
                flat = nf.subst_value(num, {b: b[2][0] for b in nf.value_atoms(num) if is_app(b, 'int') and isinstance(b[2][0], Poly)})
                if flat != want:
                    okg, detg = False, f'linspace(..., num={fmt(num)[:120]}); expected ceil(span/step) + 1'
                # ... of floating-point wavelengths: a grid forced into the element type of an operand (dtype=s1.wave.dtype)
                # truncates every point for an integer-valued grid
                kw_ = e.data.get('kwargs') or {}
                if kw_.get('dtype') is not None and kw_.get('dtype') != NONE:
                    dk = kw_['dtype']
                    if not (isinstance(dk, Const) and 'float' in repr(dk.value)):
                        okg, detg = False, f'the common grid is created with dtype={fmt(dk)[:50]}: with integer wavelengths its points are truncated'
    if not ng:
        # no linspace: a grid stepped with np.arange(min, max (+ slack), step) ends where the float steps happen to end - it
        # covers the union exactly only when the span is a multiple of the step
        for p in returns(gp):
            for e in p.events:
                if e.kind == 'call' and e.data.get('callee') == 'ext:numpy.arange' and len(e.data.get('args', [])) == 3:
                    st_ = e.data['args'][2]
                    if any(is_app(x, 'call:radiometry._sampling') for x in nf.value_atoms(st_)):
                        okg = False
                        detg = f'grid = arange({", ".join(fmt(x)[:40] for x in e.data["args"])}): it does not end on the largest ' \
                               f'wavelength of the union unless the span is a multiple of the step'
    chk.ob('C13-f', 'N-formula', fic.key, 'common grid has ceil(span/step) + 1 samples (never coarser than the requested sampling)',
           (okg and ng > 0) if (ng or not okg) else None, detg or f'{ng} grid construction(s)', fic.loc())

    # ---------------------------------------------------------------- C13-e
    fu = repo.func(f'{SPEC}._ufunc')
    _, paths, _ = analyse(repo, fu)
    rets = returns(paths)
    new_ok = bool(rets)
    keep_ok = False
    two_ok, two_seen = True, False
    value_ok, value_det = True, ''
    scalar_conv = ''

    def other_is_spectrum(p):
        from ..rules import literals
        for c, pol in literals(p.conds):
            a = c.single_atom() if isinstance(c, Poly) else None
            if a is not None and is_app(a, 'isinstance') and a[2] and a[2][0] == S('other') and pol:
                tgt = a[2][1] if len(a[2]) > 1 else None

                def unwrap(x):
                    xa = x.single_atom() if isinstance(x, Poly) else None
                    return xa[1] if xa is not None and xa[0] == 'val' else x
                tgt = unwrap(tgt)
                items = [unwrap(i) for i in (tgt.items if isinstance(tgt, Tup) else [tgt])]
                if items and all(isinstance(i, Const) and getattr(i.value, 'key', None) == SPEC for i in items):
                    return True         # (a test against Spectrum alone: a tuple that also admits numbers says nothing)
        return False
    for p in rets:
        if other_is_spectrum(p) and not p.calls('radiometry._interp_common'):
            two_ok = False      # two spectra combined without bringing them onto a common grid
        ctor = [e for e in p.events if e.kind == 'call' and e.data.get('new') == SPEC and e.depth == 0]
        new_ok = new_ok and len(ctor) == 1 and p.ret == ctor[0].data['result']
        if ctor:
            b = ctor[0].bound
            # self.waveunit, or what its getter returns when evaluated in place (the unit object's name / None)
            alts = lambda nm: (nf.attr(S('self'), nm), nf.attr(nf.attr(S('self'), '_' + nm), 'name')) + \
                ((NONE,) if any(pol and fmt(c) == f'is(self._{nm}, (None))' for c, pol, _ in p.conds) else ())
            new_ok = new_ok and b.get('waveunit') in alts('waveunit') and b.get('valueunit') in alts('valueunit')
            ic = p.calls('radiometry._interp_common')
            if not ic and other_is_spectrum(p) and not repo.has_func('radiometry._interp_common'):
                continue            # the common grid is built in place: judged by the rules about that grid
            if not ic:
                wv = b.get('wave')
                keep_ok = wv in (nf.attr(S('self'), 'wave'), nf.attr(S('self'), '_wave'))
                va = b.get('value').single_atom() if isinstance(b.get('value'), Poly) else None
                keep_ok = keep_ok and va is not None and is_app(va, 'callv')
                if va is not None and is_app(va, 'callv') and len(va[2]) >= 3:
                    # ... of the stored values and the operand as given: a conversion of the operand to the element type of
                    # the spectrum truncates 0.25 to 0 for integer-valued spectra
                    ops = va[2][1:3]
                    mine = {nf.vkey(nf.attr(S('self'), 'value')), nf.vkey(nf.attr(S('self'), '_value'))}
                    theirs = [x for x in ops if nf.vkey(x) not in mine]
                    if len(theirs) == 1 and theirs[0] != S('other'):
                        conv = [x for x in nf.value_atoms(theirs[0]) if is_app(x, ('cast', 'm:astype', 'asarray', 'array'))
                                and any(isinstance(y, Tup) and 'dtype' in repr(y) for y in x[2]) or is_app(x, ('cast', 'm:astype'))]
                        if conv:
                            scalar_conv = f'the operand is converted before the operation: {fmt(theirs[0])[:100]}'
            else:
                r = ic[0].result
                ok_i = b.get('wave') == nf.index(r, C(0)) and ic[0].bound.get('s1') == S('self') and \
                    ic[0].bound.get('s2') == S('other') and ic[0].bound.get('sampling') == S('sampling') and \
                    ic[0].bound.get('method') == S('method') and ic[0].bound.get('fill_value') == S('fill_value')
                two_seen = True
                two_ok = two_ok and ok_i
                vv = b.get('value')
                va2 = vv.single_atom() if isinstance(vv, Poly) else None
                plain = va2 is not None and is_app(va2, 'callv') and \
                    {nf.vkey(x) for x in va2[2][1:3]} == {nf.vkey(nf.index(r, C(1))), nf.vkey(nf.index(r, C(2)))} if va2 is not None and is_app(va2, 'callv') and len(va2[2]) >= 3 else False
                if not plain and va2 is not None and is_app(va2, 'callv') and len(va2[2]) == 2:
                    # ufunc(*operands) with `wave, *operands = _interp_common(...)`: everything after the grid, in order
                    sa = va2[2][1].single_atom() if isinstance(va2[2][1], Poly) else None
                    plain = sa is not None and is_app(sa, 'starred') and sa[2][0] == nf.index(r, Slice(C(1), NONE))
                if not plain:
                    value_ok = False
                    value_det = f'value = {fmt(vv)[:120]}'
    # numbers that reach the element-wise branch: numpy's integer scalars are not instances of int
    ok_sc, det_sc = None, 'dispatch not understood'
    for p in rets:
        if p.calls('radiometry._interp_common'):
            continue
        from ..rules import literals
        tests = []
        for c, pol in literals(p.conds):
            a = c.single_atom() if isinstance(c, Poly) else None
            if a is not None and is_app(a, 'isinstance') and a[2] and a[2][0] == S('other'):
                tests.append((repr(a[2][1]) if len(a[2]) > 1 else '', pol))
            elif a is not None and is_app(a, ('numpy.isscalar', 'isscalar')) and a[2] and a[2][0] == S('other') and pol:
                tests.append(('numpy.isscalar', pol))
        pos = [t for t, pol in tests if pol]
        if not pos:
            if tests:
                ok_sc, det_sc = True, 'everything that is not a Spectrum is handed to the ufunc'
            continue
        txt = ' '.join(pos)
        np_scalar = any(k in txt for k in ('numpy.number', 'numpy.generic', 'numpy.integer', 'numbers.Number', 'numbers.Real',
                                           'numbers.Integral', 'numpy.isscalar', 'numpy.ScalarType'))
        if np_scalar:
            ok_sc, det_sc = True, 'numpy scalars are admitted'
        elif "'int'" in txt and "'float'" in txt:
            ok_sc = False
            det_sc = 'the element-wise branch asks isinstance(other, (int, float, ...)) only: np.int64 / np.float32 are neither, ' \
                     'so `spectrum * np.int64(2)` raises TypeError'
    chk.ob('C13-e', 'T-dispatch', fu.key, 'numpy scalars are scalars: they reach the element-wise branch', ok_sc, det_sc, fu.loc())
    chk.ob('C13-e', 'D-flow', fu.key, 'two spectra: grid and values from _interp_common(self, other, ...)',
           (two_ok and two_seen) if repo.has_func('radiometry._interp_common') else None,
           '' if repo.has_func('radiometry._interp_common') else 'undecided: the helper that builds the common grid is gone', fu.loc())
    chk.ob('C13-e', 'D-flow', fu.key, 'two spectra: the value is the operation applied to the two interpolated values and nothing else '
           '(fill values, infinities and NaNs included)', (value_ok and two_seen) if (two_seen or not value_ok) else None, value_det, fu.loc())
    chk.ob('C13-e', 'D-flow', fu.key, 'returns a new Spectrum in the first operand\'s units', new_ok, '', fu.loc())
    # ndarray (op) Spectrum reaches the reflected method only if numpy defers to the Spectrum
    pri = False
    for node in ast.walk(cls.node):
        if isinstance(node, (ast.Assign, ast.AnnAssign)):
            for t in (node.targets if isinstance(node, ast.Assign) else [node.target]):
                nm = t.attr if isinstance(t, ast.Attribute) else t.id if isinstance(t, ast.Name) else None
                if nm in ('__array_priority__', '__array_ufunc__'):
                    pri = True
    # reflected operators exist for the commutative operations only: `__rsub__ = __sub__` makes `10 - s` mean `s - 10`
    bad_alias = []
    for node in cls.node.body:
        if isinstance(node, ast.Assign) and len(node.targets) == 1 and isinstance(node.targets[0], ast.Name) and isinstance(node.value, ast.Name):
            t_, v_ = node.targets[0].id, node.value.id
            if t_ in ('__rsub__', '__rtruediv__', '__rdiv__', '__rpow__', '__rfloordiv__', '__rmod__') and v_ == '__' + t_[3:]:
                bad_alias.append(f'{t_} = {v_}')
        elif isinstance(node, ast.FunctionDef) and node.name in ('__rsub__', '__rtruediv__', '__rpow__', '__rfloordiv__', '__rmod__'):
            # written out: has to exchange the operands, which a call of the forward method with the same order does not
            calls_fwd = [x for x in ast.walk(node) if isinstance(x, ast.Call) and isinstance(x.func, ast.Attribute)
                         and x.func.attr == '__' + node.name[3:] and isinstance(x.func.value, ast.Name) and x.func.value.id == 'self']
            if calls_fwd:
                bad_alias.append(f'{node.name} calls self.{calls_fwd[0].func.attr}(other)')
    chk.ob('C13-a', 'T-operator', SPEC, 'no reflected form of a non-commutative operator is the forward operator', not bad_alias,
           '; '.join(bad_alias) + (': `x - s` is evaluated as `s - x`' if bad_alias else ''), cls.loc() if hasattr(cls, 'loc') else '')
    chk.ob('C13-a', 'T-operator', SPEC, 'numpy defers to the Spectrum (array * spectrum is one Spectrum, not an array of them)', pri,
           '__array_priority__ / __array_ufunc__ is set' if pri else 'neither __array_priority__ nor __array_ufunc__ is set: '
           'ndarray.__mul__ broadcasts over the Spectrum object and __rmul__ is never asked', cls.loc() if hasattr(cls, 'loc') else '')
    chk.ob('C13-e', 'D-flow', fu.key, 'scalar/vector operand: wavelength grid unchanged, ufunc(self.value, other)', keep_ok, '', fu.loc())
    chk.ob('C13-e', 'T-dtype', fu.key, 'scalar/vector operand enters the operation as given (numpy promotes, nothing is truncated beforehand)',
           not scalar_conv, scalar_conv or 'no conversion of the operand to the element type of the spectrum', fu.loc())

    # ---------------------------------------------------------------- C13-f
    # the operands are left as they were: what is converted for a mixed-unit operation is a deep copy, converted by rebinding
    from .c15 import spectrum_storage_rules
    spectrum_storage_rules(chk, repo, 'C13-f')
    # each operand is sampled through its own class: a Blackbody orders the positional options of sample() differently
    from .c15 import sample_keyword_rule as _sample_keyword_rule
    _sample_keyword_rule(chk, repo, 'C13-f')
    # the second operand of a mixed-unit operation is converted with Spectrum.to: every value unit is rescaled with its grid
    from . import c14 as _c14
    from .common import Remap as _Remap13
    from ..resilient import run_nested as _run_nested13
    nd13 = list(chk.not_decided)
    _run_nested13(_c14, _Remap13(chk, {'C14-c': 'C13-f'}), repo, tier, 'to_rules')
    _run_nested13(_c14, _Remap13(chk, {'C14-a': 'C13-f'}), repo, tier, 'wave_unit_rules')
    chk.not_decided[:] = nd13
    _, paths, _ = analyse(repo, fi, types={('sym', 's1'): cls, ('sym', 's2'): cls}, unroll=True)
    for p in returns(paths):
        tag = conds_str(p)[:80]
        smp = p.calls(f'{SPEC}.sample')
        if len(smp) != 2:
            raise AnalysisError(f'_interp_common: expected two sample calls, found {len(smp)}')
        a, b = smp[0].bound, smp[1].bound
        moved13 = repo.signature_moved('radiometry._interp_common')
        fill13 = a.get('fill_value') if moved13 and a.get('fill_value') is not None else S('fill_value')
        same = all(a.get(k) == b.get(k) for k in ('method', 'fill_value', 'waveunit')) and \
            (moved13 or (a.get('method') == S('method') and a.get('fill_value') == S('fill_value')))
        chk.ob('C13-f', 'N-sibling', fi.key, f'both operands sampled with the same method, fill value and unit [{tag}]', same,
               f'first: method={fmt(a.get("method"))}, fill={fmt(a.get("fill_value"))}, unit={fmt(a.get("waveunit"))}; '
               f'second: method={fmt(b.get("method"))}, fill={fmt(b.get("fill_value"))}, unit={fmt(b.get("waveunit"))}',
               fi.loc(smp[0].node))
        lin = [e for e in p.events if e.kind == 'call' and e.data.get('callee') == 'ext:numpy.linspace']
        if len(lin) != 1:
            raise AnalysisError('_interp_common: common grid (linspace) not found')
        lo, hi = lin[0].data['args'][0], lin[0].data['args'][1]
        la, ha = lo.single_atom(), hi.single_atom()
        o1, o2 = smp[0].bound.get('self'), smp[1].bound.get('self')
        w = lambda o, f: {nf.app(f, nf.attr(o, 'wave')), nf.app(f, nf.attr(o, '_wave'))}
        sym_lo = la is not None and is_app(la, 'min') and len(la[2]) == 2 and \
            any(x in w(o1, 'amin') for x in la[2]) and any(x in w(o2, 'amin') for x in la[2])
        sym_hi = ha is not None and is_app(ha, 'max') and len(ha[2]) == 2 and \
            any(x in w(o1, 'amax') for x in ha[2]) and any(x in w(o2, 'amax') for x in ha[2])
        chk.ob('C13-f', 'N-symmetric', fi.key, f'grid spans min of the minima to max of the maxima of both operands [{tag}]',
               sym_lo and sym_hi, f'linspace({fmt(lo)[:100]}, {fmt(hi)[:100]}, ...)', fi.loc(lin[0].node))
        # an operand may be a subclass with a sample() of its own (a Blackbody evaluates Planck's law): what is sampled is the
        # operand or a copy of it, never a plain Spectrum rebuilt from its tabulated samples
        built = {nf.vkey(e.data.get('result')): e for e in p.events if e.kind == 'call' and e.data.get('new')}
        rebuilt = [f'{built[nf.vkey(o)].data.get("new")}(...) built at {built[nf.vkey(o)].loc()}' for o in (o1, o2)
                   if isinstance(o, Poly) and nf.vkey(o) in built]
        chk.ob('C13-f', 'T-class', fi.key, f'each operand is sampled through its own class (copies keep the class) [{tag}]', not rebuilt,
               ('sampled object: ' + '; '.join(rebuilt) + ' - a Blackbody operand would be interpolated from its table instead of '
                'evaluated by its own sample()') if rebuilt else 'the operands or copies of them', fi.loc(smp[1].node))
        # the result is labelled with the first operand's units (_ufunc): the common grid therefore has to be in that unit -
        # the first operand takes part as it is, only the second one is ever converted
        chk.ob('C13-f', 'D-flow', fi.key, f'the first operand is sampled as it is (the grid is in its unit, which labels the result) [{tag}]',
               o1 == S('s1'), '' if o1 == S('s1') else f'the first operand is replaced by {fmt(o1)[:60]} before sampling: the grid is in the '
               "other operand's unit while the result carries the first operand's unit label", fi.loc(smp[0].node))
        # when the second operand was converted, nothing of the common grid may come from its unconverted wavelengths
        if o2 != S('s2'):
            raw = {nf.attr(S('s2'), 'wave').single_atom(), nf.attr(S('s2'), '_wave').single_atom()}
            used = [x for x in lin[0].data['args'] if isinstance(x, Poly) and raw & nf.value_atoms(x)]
            chk.ob('C13-f', 'D-must-not-depend', fi.key, f'grid built from the converted operand only [{tag}]', not used,
                   'the common grid (range or sampling step) is computed from s2.wave before its unit conversion: '
                   + '; '.join(fmt(x)[:120] for x in used) if used else '', fi.loc(lin[0].node))
        # each operand's samples land in its own slots, filled with fill_value elsewhere
        r = p.ret
        okfill = isinstance(r, Tup) and len(r) == 3
        if okfill:
            for val, sm in zip(r.items[1:], smp):
                va = val.single_atom() if isinstance(val, Poly) else None
                starts = (fill13 * nf.app('ones', nf.attr(r.items[0], 'shape')),
                          fill13 * nf.app('ones', Tup([nf.attr(r.items[0], 'size')])),
                          fill13 * nf.app('ones', nf.attr(r.items[0], 'size')),
                          nf.app('full', nf.attr(r.items[0], 'shape'), fill13))
                okfill = okfill and va is not None and is_app(va, 'setitem') and va[2][2] == sm.result and va[2][0] in starts
        det_fill = ''
        if not (isinstance(r, Tup) and len(r) == 3) or any(isinstance(x, Poly) and x.single_atom() is not None and
                                                            x.single_atom()[0] in ('loop', 'iter') for x in (r.items if isinstance(r, Tup) else ())):
            okfill, det_fill = None, f'undecided: the returned triple is not resolved: {fmt(r)[:160]}'
        chk.ob('C13-f', 'N-sibling', fi.key, f'values start as fill_value and receive the samples [{tag}]', okfill, det_fill, fi.loc())
