"""C19 - pixel, jitter and smear blurs are flux-preserving convolutions on any shape."""
from fractions import Fraction

from .. import nf, dims
from ..nf import Poly, Tup, Const, Slice, NONE
from ..model import AnalysisError
from ..ranges import Ranges, Rng, INF
from ..shapes import Shapes, declare_2d
from ..rules import run as analyse, returns, fmt, is_app, S, C, conds_str

BLURS = ('detector.pixel', 'convolvable.jitter', 'convolvable.smear')


def uses_outside_shape(v, name):
    """Does value v use symbol `name` other than through `name.shape`?"""
    def walk(x):
        if isinstance(x, Poly):
            return any(walk(a) for m, _ in x.terms for a, _e in m)
        if isinstance(x, Tup):
            return any(walk(i) for i in x.items)
        if isinstance(x, Slice):
            return walk(x.lo) or walk(x.hi) or walk(x.step)
        if isinstance(x, tuple):
            if x == ('sym', name):
                return True
            if len(x) == 3 and x[0] == 'attr' and x[1] == ('sym', name) and x[2] in ('shape', 'dtype', 'ndim'):
                return False
            return any(walk(i) for i in x)
        return False
    return walk(v)


from ..npmodel import P as P_


def conv_form(ret):
    """ret = c * abs(ifft2(fft2(img) * kernel)) -> (outer factor, kernel) or None."""
    absx = [a for a in ret.atoms(deep=False) if is_app(a, 'abs')] if isinstance(ret, Poly) else []
    for a in absx:
        inner = a[2][0]
        ia = inner.single_atom() if isinstance(inner, Poly) else None
        if ia is None or not is_app(ia, 'fft.ifft2'):
            continue
        prod = ia[2][0]
        ffts = [x for x in prod.atoms(deep=False) if is_app(x, 'fft.fft2') and x[2][0] == S('img')]
        if len(ffts) != 1:
            continue
        kernel = prod / Poly.atom(ffts[0])
        return Poly.atom(a), prod, kernel
    return None


def _total_test(c):
    """c tests whether the total of an image (the input or its blur) vanishes -> the polarity of c under which it does"""
    a = c.single_atom() if isinstance(c, Poly) else None
    if a is None:
        return None

    def is_total(v):
        va = v.single_atom() if isinstance(v, Poly) else None
        return va is not None and is_app(va, ('sum', 'any', 'count_nonzero', 'amax'))
    if is_total(c):
        return False                    # `if total:` - taken when it does not vanish
    if is_app(a, ('eq', 'le', 'lt')) and len(a[2]) == 2 and all(isinstance(x, Poly) for x in a[2]):
        l, r = a[2]
        if is_total(l) and r.is_zero():
            return True if a[1] in ('eq', 'le') else None        # total == 0, total <= 0
        if is_total(r) and l.is_zero():
            return True if a[1] == 'eq' else False               # 0 < total, 0 <= total (the latter says nothing)
    return None


def _total_state(p):
    """'zero' / 'nonzero' / None: what the path conditions say about the total that the result is rescaled with"""
    for c, pol, _ in p.conds:
        t = _total_test(c)
        a = c.single_atom() if isinstance(c, Poly) else None
        if t is None or (a is not None and is_app(a, 'le') and a[2][0].is_zero()):
            continue
        return 'zero' if bool(pol) == t else 'nonzero'
    return None


def smear_direction_rule(chk, repo, clause):
    """the smear direction comes from the global random generator exactly when no angle was given (shared with C10-c)"""
    fs, sp, _ = analyse(repo, 'convolvable.smear')
    rnd = [p for p in returns(sp) if any(is_app(a, 'random.uniform') for a in nf.value_atoms(p.ret))]
    det_ = [p for p in returns(sp) if p not in rnd]
    want_c = nf.app('is', S('angle'), nf.Poly.atom(('val', nf.NONE)))
    # (a guard on the total of the blurred image splits either case in two without changing which direction is used)
    g_ok = bool(rnd) and bool(det_) and all([(c, pol) for c, pol, _ in q.conds if _total_test(c) is None] == [(want_c, True)]
                                            for q in rnd)
    chk.ob(clause, 'D-guard', fs.key, 'random direction exactly when angle is None', g_ok,
           'random path taken when ' + '; '.join(conds_str(p) for p in rnd) + ' (a truthiness test would also discard angle=0)',
           fs.loc())
    # ... and only then: with an angle given the call is a pure function of its arguments - a number drawn and thrown away
    # still advances the global generator, and whatever draws from it next (cosmic rays, another smear) changes
    drawn = [f'{e.data.get("callee")} at {e.loc()}' for p in det_ for e in p.events
             if e.kind == 'call' and str(e.data.get('callee', '')).startswith(('ext:numpy.random.', 'ext:random.'))]
    chk.ob(clause, 'E-global', fs.key, 'with an angle given nothing is drawn from the global random generator', (not drawn) if det_ else None,
           ('; '.join(sorted(set(drawn))[:2]) + ' is evaluated although the angle was given') if drawn else '', fs.loc())
    a_ok = bool(det_) and all(any(is_app(a, 'deg2rad') and a[2][0] == S('angle') for a in nf.value_atoms(p.ret)) for p in det_)
    chk.ob(clause, 'D-flow', fs.key, 'a given angle (degrees) is what the kernel is rotated by', a_ok, '', fs.loc())
    # ... by one and the same angle: the sine and the cosine of the projection take the same argument (in radians)
    def trig_args(p):
        return {nf.vkey(a[2][0]): a[2][0] for a in nf.value_atoms(p.ret) if is_app(a, ('sin', 'cos')) and a[2]}
    t_ok, t_det = True, ''
    for p in returns(sp):
        ta = trig_args(p)
        if not ta:
            continue
        want_det = nf.app('deg2rad', S('angle'))
        if len(ta) != 1 or (p in det_ and list(ta.values())[0] != want_det):
            t_ok = False
            t_det = f'[{conds_str(p)[:60]}] sine / cosine are taken of ' + ' and '.join(sorted(fmt(v)[:40] for v in ta.values()))
    chk.ob(clause, 'D-flow', fs.key, 'sine and cosine of the projection take the same angle, in radians', t_ok,
           t_det or 'one angle per path', fs.loc())
    # ... projected onto the direction of the smear: sin(angle) times the row frequency plus cos(angle) times the column
    # frequency (the streak turns clockwise with the angle; the other sign is its mirror image for every oblique angle)
    p_ok, p_det, n_p = None, 'undecided: the sinc argument is not a sum of (trig factor) x (frequency grid) terms', 0
    for p in returns(sp):
        sincs = {x for x in nf.value_atoms(p.ret) if is_app(x, 'sinc')}
        if len(sincs) > 1:
            p_ok = False
            p_det = ('the transfer function is a product of ' + ' and '.join(sorted(nf.fmt_atom(x)[:50] for x in sincs)[:2]) +
                     ': one sinc per axis is the blur of a rectangle, a smear is ONE sinc of the frequency along its direction')
            continue
        for a in sincs:
            arg = a[2][0]
            if not isinstance(arg, Poly) or len(arg.terms) != 2:
                continue
            per_axis = {}
            for mono, coef in arg.terms:
                grids = [x for x, e in mono if is_app(x, 'meshgrid') and e == 1 and len(x[2]) == 4]
                trig = [x for x, e in mono if is_app(x, ('sin', 'cos')) and e == 1]
                if len(grids) != 1 or len(trig) != 1:
                    per_axis = None
                    break
                g = grids[0]
                idx = g[2][3]
                k = int(idx.const_value()) if isinstance(idx, Poly) and idx.const_value() is not None else (idx if isinstance(idx, int) else None)
                mode = g[2][2].value if isinstance(g[2][2], Const) else g[2][2]
                if k not in (0, 1) or mode not in ('xy', 'ij'):
                    per_axis = None
                    break
                axis = (1 - k) if mode == 'xy' else k          # the array axis along which this grid varies
                per_axis[axis] = (trig[0][1], coef)
            if not per_axis or set(per_axis) != {0, 1}:
                continue
            n_p += 1
            good = per_axis[0][0] == 'sin' and per_axis[1][0] == 'cos' and per_axis[0][1] == per_axis[1][1]
            if not good:
                p_ok = False
                p_det = (f'rows: {per_axis[0][1]}*{per_axis[0][0]}(angle), columns: {per_axis[1][1]}*{per_axis[1][0]}(angle); the documented '
                         'direction is sin(angle)*rows + cos(angle)*columns')
            elif p_ok is None:
                p_ok, p_det = True, ''
    chk.ob(clause, 'N-formula', fs.key, 'the smear runs along sin(angle) x rows + cos(angle) x columns', p_ok, p_det or f'{n_p} kernel(s)', fs.loc())


def run(chk, repo, tier):
    from .common import no_hidden_state
    no_hidden_state(chk, repo, 'C19')
    chk.clause('C19-o', 'blurring leaves the input frame untouched', 3)
    from .common import operands_untouched
    operands_untouched(chk, repo, 'C19-o', ['detector.pixel', 'convolvable.jitter', 'convolvable.smear', 'detector.charge_diffusion'], allow=[])
    chk.clause('C19-a', 'the transfer function has the axes of fft2(img) for every image shape', 3)
    chk.clause('C19-b', 'results are moduli (never negative)', 3)
    chk.clause('C19-c', 'output = |ifft2(fft2(img) * kernel)| with a kernel that depends on the image shape only', 3)
    chk.clause('C19-d', 'unit gain at zero frequency and identity at zero extent (DC-vanishing argument, extent factor)', 5)
    chk.clause('C19-e', 'Gaussian constant exp(-2*pi^2*sigma^2*rho^2); extents enter as (extent/pixelscale)*oversample', 3)
    chk.clause('C19-f', 'jitter/smear rescale so that the total equals the input total, and never divide by a vanishing total', 4)
    chk.clause('C19-h', 'pixelate = pixel blur followed by flux-preserving rescale by 1/oversample', 1)
    chk.clause('C19-s', 'no blur mixes two different axes of the image (shape inference over detector/convolvable)', 1)
    chk.not_decided += ['equality with the exact circular convolution', 'treatment of the unpaired Nyquist sample']

    from . import common
    common.shape_scan(chk, repo, 'C19-s', ['detector', 'convolvable'])
    chk.clause('C19-g', 'the smear direction is drawn at random only when no angle was given (angle is None), '
               'otherwise it is the requested angle', 2)
    smear_direction_rule(chk, repo, 'C19-g')
    from .extra_rules import pixelate_rule
    pixelate_rule(chk, repo, 'C19-h')
    from ..effects import doc_param_kinds
    ish = declare_2d('img')[('sym', 'img')]
    for key in BLURS:
        f, paths, _ = analyse(repo, key)
        decl = declare_2d('img')
        for nm, kind in doc_param_kinds(f).items():
            if kind == 'scalar':
                decl[('sym', nm)] = ()
        rets = returns(paths)
        if not rets:
            raise AnalysisError(f'{key}: no returning path')
        for p in rets:
            tag = conds_str(p)
            cf = conv_form(p.ret)
            if cf is None:
                chk.ob('C19-c', 'D-structure', key, f'convolution structure [{tag}]', False,
                       f'result {fmt(p.ret)[:200]} is not c*|ifft2(fft2(img)*kernel)|', f.loc(p.node))
                continue
            absatom, prod, kernel = cf
            # the transfer function is used as it was computed: no entries overwritten afterwards, no cast to the element type
            # of the frame (an integer frame would turn every gain below 1 into 0)
            ka_ = kernel.single_atom() if isinstance(kernel, Poly) else None
            tampered = ''
            for x_ in nf.value_atoms(kernel) | ({ka_} if ka_ else set()):
                if is_app(x_, 'setitem') and len(x_[2]) == 3 and isinstance(x_[2][2], Poly) and x_[2][2].const_value() is not None:
                    tampered = f'kernel[{fmt(x_[2][1])[:50]}] = {fmt(x_[2][2])} overwrites the transfer function there'
                if is_app(x_, ('cast', 'm:astype')) and len(x_[2]) > 1 and ('sym', 'img') in nf.value_atoms(x_[2][1] if isinstance(x_[2][1], Poly) else P_(x_[2][1])):
                    tampered = f'the transfer function is cast to {fmt(x_[2][1])[:30]}: for an integer frame every gain below 1 becomes 0'
            if key != 'detector.pixel' or tampered:
                chk.ob('C19-e', 'N-const', key, f'the transfer function is applied as computed [{tag[:60]}]', not tampered,
                       tampered or 'no overwritten entries, no cast to the frame type', f.loc(p.node))
            indep = not uses_outside_shape(kernel, 'img')
            chk.ob('C19-c', 'D-must-not-depend', key, f'kernel independent of the pixel values [{tag}]', indep,
                   f'kernel = {fmt(kernel)[:200]}' + ('' if indep else ' depends on the pixel values'), f.loc(p.node))
            # the transforms run at the size of the frame: an explicit output size (`s=`) is (rows, cols) of the frame or absent
            resized = []
            for x_ in nf.value_atoms(p.ret):
                if is_app(x_, ('fft.ifft2', 'fft.fft2', 'fft.fftn', 'fft.ifftn')):
                    def _s_values(v, out):
                        if isinstance(v, Tup):
                            if len(v) == 2 and isinstance(v.items[0], Const) and v.items[0].value == 's':
                                out.append(v.items[1])
                            else:
                                for i_ in v.items:
                                    _s_values(i_, out)
                        return out
                    for sv in [z for y in x_[2][1:] for z in _s_values(y, [])]:
                        want_s = [nf.index(nf.attr(S('img'), 'shape'), C(k_)) for k_ in (0, 1)]
                        if not (isinstance(sv, Tup) and len(sv) == 2 and list(sv.items) == want_s) and sv != nf.attr(S('img'), 'shape'):
                            resized.append(f'{x_[1]}(..., s={fmt(sv)[:60]})')
            chk.ob('C19-a', 'U-shape', key, f'the transforms keep the (rows, cols) of the frame [{tag[:60]}]', not resized,
                   '; '.join(resized[:1]) + (': the frame is cropped / zero-padded to another shape (transposed for non-square frames)'
                                             if resized else ''), f.loc(p.node))
            # ---- C19-a shapes
            sh = Shapes(decl)
            ks = sh.of(kernel, where='kernel')
            ps = sh.of(prod, where='fft2(img)*kernel')
            ok = ks is not None and ps == ish and not sh.clashes and \
                (len(ks) == 2 and all(k == i or k == Poly.const(1) for k, i in zip(ks, ish)))
            chk.ob('C19-a', 'U-shape', key, f'kernel axes = image axes (rows, cols) [{tag}]', ok,
                   '; '.join(sh.clashes) or (f'kernel shape {tuple(map(fmt, ks)) if ks is not None else "unknown"}, image shape '
                                             f'{tuple(map(fmt, ish))}'), f.loc(p.node))
            # ---- C19-b sign
            env = {('sym', 'img'): Rng(0, INF)}
            r = Ranges(env=env).of(p.ret)
            chk.ob('C19-b', 'R-sign', key, f'result is non-negative for non-negative images [{tag}]', r.nonneg,
                   f'range {r!r}', f.loc(p.node))
            # ---- C19-d / e kernel analysis
            tfs = sorted([a for a in nf.value_atoms(kernel) if is_app(a, ('sinc', 'exp'))], key=nf.akey)
            if not tfs:
                raise AnalysisError(f'{key}: transfer function is not a product of sinc/exp factors: {fmt(kernel)[:200]}')

            def is_freq(a):
                if is_app(a, 'fft.fftfreq'):
                    return True
                if is_app(a, 'meshgrid'):
                    return all(isinstance(x, Poly) and x.single_atom() is not None and is_app(x.single_atom(), 'fft.fftfreq')
                               for x in a[2][:2])
                if is_app(a, ('numpy.broadcast_arrays', 'broadcast_arrays', 'ix_', 'numpy.ix_')):
                    return bool(a[2]) and all(isinstance(x, Poly) and x.single_atom() is not None and is_freq(x.single_atom())
                                              for x in a[2] if not isinstance(x, Tup))
                if a[0] == 'idx':
                    return is_freq(a[1])
                if a[0] == 'poly':
                    # sqrt(xx^2 + yy^2): every monomial carries a frequency atom
                    return all(any(is_freq(b) for b, _ in m) for m, _ in a[1].terms)
                return False
            ext = {'convolvable.jitter': 'scale', 'convolvable.smear': 'distance'}.get(key)
            for tfa in tfs:
                arg = tfa[2][0]
                dc = isinstance(arg, Poly) and bool(arg.terms) and all(any(e > 0 and is_freq(a) for a, e in m) for m, _ in arg.terms)
                chk.ob('C19-d', 'N-dc', key, f'{tfa[1]} argument vanishes at zero frequency [{tag}]', dc,
                       f'argument {fmt(arg)[:200]}' + ('' if dc else ': a term without a frequency factor makes the DC gain differ from 1'),
                       f.loc(p.node))
                if ext:
                    has_ext = all(any(e > 0 and a == ('sym', ext) for a, e in m) for m, _ in arg.terms)
                    chk.ob('C19-d', 'N-dc', key, f'identity at zero extent: `{ext}` is a factor of the argument [{tag}]', has_ext,
                           f'argument {fmt(arg)[:200]}', f.loc(p.node))
                    # physical extent only through (extent/pixelscale)*oversample
                    ratio_ok = True
                    for m, _ in arg.terms:
                        d = dict(m)
                        e_ext = d.get(('sym', ext), 0)
                        ratio_ok = ratio_ok and d.get(('sym', 'pixelscale'), 0) == -e_ext and d.get(('sym', 'oversample'), 0) == e_ext
                    chk.ob('C19-e', 'U-ratio', key, f'extent enters as ({ext}/pixelscale)*oversample [{tag}]', ratio_ok,
                           f'argument {fmt(arg)[:200]}', f.loc(p.node))
            if key == 'detector.pixel':
                # the pixel aperture's transfer function itself, sign included: sinc(f_row*os) * sinc(f_col*os) at every
                # frequency (its modulus is a different filter: the side lobes of the sinc are negative from oversample 3 on)
                from ..elem import ElemEval, Unsupported
                i_, j_ = S('@i'), S('@j')
                okk, det_k = None, ''
                try:
                    el = ElemEval(Shapes(decl)).at(kernel, (i_, j_))
                    osf = S('oversample')
                    want = nf.app('sinc', nf.app('fftfreq_at', ish[0], i_) * osf) * nf.app('sinc', nf.app('fftfreq_at', ish[1], j_) * osf)
                    okk = el == want
                    det_k = f'kernel[i, j] = {fmt(el)[:200]}'
                except Unsupported as ex:
                    det_k = f'undecided: kernel not understood element-wise ({ex})'
                    ka_ = kernel.single_atom() if isinstance(kernel, Poly) else None
                    if ka_ is not None and is_app(ka_, 'setitem') and len(ka_[2]) == 3 and isinstance(ka_[2][2], Poly) \
                            and ka_[2][2].const_value() is not None:
                        # entries of the transfer function are overwritten with a constant after it was built: at those
                        # frequencies the filter is no longer the pixel's sinc (whatever index picks them - n//2 is the
                        # Nyquist bin for even n only, a paired frequency for odd n and the DC bin for n = 1)
                        okk = False
                        det_k = f'kernel[{fmt(ka_[2][1])[:60]}] = {fmt(ka_[2][2])} overwrites the transfer function there'
                chk.ob('C19-e', 'N-const', key, 'pixel transfer function sinc(f_row*oversample)*sinc(f_col*oversample), sign included', okk,
                       det_k, f.loc(p.node))
            if key == 'convolvable.jitter':
                tfa = tfs[0]
                arg = tfa[2][0]
                # element [i, j] of the exponent, however the frequency grid is built (meshgrid, broadcasting, helpers)
                from ..elem import ElemEval, Unsupported
                i_, j_ = S('@i'), S('@j')
                ok, det_e = None, ''
                try:
                    el = ElemEval(Shapes(decl)).at(arg, (i_, j_))
                    fr = nf.app('fftfreq_at', ish[0], i_)
                    fc = nf.app('fftfreq_at', ish[1], j_)
                    want = -2 * nf.PI ** 2 * (S('scale') / S('pixelscale') * S('oversample')) ** 2 * (fr ** 2 + fc ** 2)
                    ok = tfa[1] == 'exp' and len(tfs) == 1 and el == want
                    det_e = f'exponent[i, j] = {fmt(el)[:220]}'
                except Unsupported as ex:
                    det_e = f'undecided: exponent not understood element-wise ({ex})'
                chk.ob('C19-e', 'N-const', key, 'Gaussian MTF exp(-2*pi^2*sigma^2*rho^2), rho^2 = xx^2 + yy^2', ok,
                       det_e or f'argument {fmt(arg)[:220]}', f.loc(p.node))
            if key == 'convolvable.smear':
                # the directional sinc: at frequency (f_row, f_col) its argument is (cos(angle)*f_col + sin(angle)*f_row) times
                # the extent in samples - the angle is measured from the column (x) axis towards the row axis
                tfa = tfs[0]
                arg = tfa[2][0]
                from ..elem import ElemEval, Unsupported
                i_, j_ = S('@i'), S('@j')
                okd, det_d = None, ''
                try:
                    el = ElemEval(Shapes(decl)).at(arg, (i_, j_))
                    fr = nf.app('fftfreq_at', ish[0], i_)
                    fc = nf.app('fftfreq_at', ish[1], j_)
                    angs = [a for a in nf.value_atoms(arg) if is_app(a, ('cos', 'sin'))]
                    ang = angs[0][2][0] if angs else None
                    if ang is not None and all(a[2][0] == ang for a in angs):
                        scale_ = S('distance') / S('pixelscale') * S('oversample')
                        want = (nf.app('cos', ang) * fc + nf.app('sin', ang) * fr) * scale_
                        swapped = (nf.app('cos', ang) * fr + nf.app('sin', ang) * fc) * scale_
                        okd = True if (tfa[1] == 'sinc' and el == want) else (False if el == swapped else None)
                        det_d = f'argument[i, j] = {fmt(el)[:200]}' + ('' if okd is not False else
                                                                     ': cos(angle) multiplies the row frequency - the angle is measured from the wrong axis')
                except Unsupported as ex:
                    det_d = f'undecided: argument not understood element-wise ({ex})'
                chk.ob('C19-e', 'U-axis', key, f'smear direction: cos(angle) along the columns, sin(angle) along the rows [{tag[:40]}]', okd,
                       det_d or f'argument {fmt(arg)[:200]}', f.loc(p.node))
            if ext:
                # identity at zero extent must be *reached*: nothing is divided by a quantity that vanishes with the extent
                bad_div = []
                for e in p.events:
                    if e.kind == 'arith' and e.data.get('op') in ('div', 'floordiv', 'mod') and isinstance(e.data.get('right'), Poly):
                        d = e.data['right']
                        if d.terms and all(any(a == ('sym', ext) and ex > 0 for a, ex in m) for m, _ in d.terms):
                            bad_div.append(f'{fmt(e.data["left"])[:40]} / {fmt(d)[:60]} at {e.loc()}')
                    if e.kind == 'arith' and e.data.get('op') == 'pow' and isinstance(e.data.get('left'), Poly) and \
                            isinstance(e.data.get('right'), Poly) and (e.data['right'].const_value() or 0) < 0:
                        d = e.data['left']
                        if d.terms and all(any(a == ('sym', ext) and ex > 0 for a, ex in m) for m, _ in d.terms):
                            bad_div.append(f'({fmt(d)[:60]})**{fmt(e.data["right"])} at {e.loc()}')
                chk.ob('C19-d', 'N-dc', key, f'zero extent is evaluated without dividing by it [{tag}]', not bad_div,
                       '; '.join(bad_div[:2]) or 'no divisor vanishes with the extent', f.loc(p.node))
            if key != 'detector.pixel' or p.ret / absatom != Poly.const(1):
                # C19-f: ret = out * sum(img)/sum(out)
                out = absatom
                c = p.ret / out
                state = _total_state(p)
                # `sum(out) or 1`, `max(sum(out), tiny)`: the total where it does not vanish, something harmless where it does
                total = nf.app('sum', out)
                safe = {a: total for a in nf.value_atoms(c) if is_app(a, ('or', 'max', 'maximum', 'fmax')) and len(a[2]) == 2
                        and total in a[2] and any(isinstance(x, Poly) and (x.const_value() or 0) > 0 for x in a[2])}
                if safe:
                    c = nf.subst_value(c, safe)
                    state = 'nonzero'
                if state == 'zero':
                    # the blurred image is identically zero (it is a modulus): it is returned as it is, with total 0
                    okf = c == Poly.const(1) or (isinstance(p.ret, Poly) and p.ret.is_zero())
                    chk.ob('C19-f', 'N-identity', key, f'an image without signal comes back unscaled [{tag[:60]}]', okf,
                           f'result = out * {fmt(c)[:160]}', f.loc(p.node))
                    continue
                okf = c * nf.app('sum', out) == nf.app('sum', S('img'))
                chk.ob('C19-f', 'N-identity', key, f'sum(result) = sum(img) [{tag[:60]}]', okf,
                       f'result = out * {fmt(c)[:160]}', f.loc(p.node))
                divides = any(a == nf.app('sum', out).single_atom() and ex < 0 for m, _ in c.terms for a, ex in m) \
                    if isinstance(c, Poly) else False
                chk.ob('C19-f', 'D-guard', key, f'the total divided by is known not to be zero [{tag[:60]}]',
                       (state == 'nonzero') if divides else None,
                       'guarded by the path condition' if state == 'nonzero' else
                       'out * sum(img) / sum(out) is evaluated for every image: an all-zero frame (no signal) gives 0/0 = NaN in every '
                       'pixel instead of the zero frame', f.loc(p.node))
