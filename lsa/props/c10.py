"""C10 - calls are pure: no hidden mutation of inputs, no dependence on history."""
import ast
import os

from ..resilient import run_nested as _run_nested
from .. import nf, bind
from ..nf import Poly, Tup, Const, NONE, TRUE, FALSE
from ..effects import Effects
from ..model import AnalysisError, Repo
from ..report import VERIF
from ..rules import conds_str, run as analyse, returns, fmt, is_app, S, alias_root, root_sym
from . import common

# documented in-place behaviour (property text + docstrings); value = reason / condition
ALLOW = {
    ('fourier.dft2', 'out'): 'explicit output buffer',
    ('fourier.idft2', 'out'): 'explicit output buffer',
    ('field.insert', 'out'): 'accumulate-into-array',
    ('wavefront.Wavefront.insert', 'out'): 'accumulate-into-array',
    ('propagate.propagate_fft', 'scratch'): 'documented scratch buffer',
    ('plane.Plane.fit_tilt', 'self'): ('inplace', True),
    ('radiometry.Spectrum.append', 'self'): ('copy', False),
    ('radiometry.Spectrum.resample', 'self'): 'spectrum editing method',
    ('radiometry.Spectrum.trim', 'self'): 'spectrum editing method',
    ('radiometry.Spectrum.crop', 'self'): 'spectrum editing method',
    ('radiometry.Spectrum.pad', 'self'): 'spectrum editing method',
    ('radiometry.Spectrum.to', 'self'): 'spectrum editing method',
}
GLOBAL_RNG_USERS = {'detector._nrays', 'detector._cosmic_ray', 'convolvable.smear', 'detector.cosmic_rays'}


def allowed(f, w):
    if w.param == f.params()[0][0] and f.cls is not None and (f.name == '__init__' or f.is_setter):
        # a constructor / setter (re)binds attributes of its object; writing *into* the array an attribute holds is something
        # else: attributes keep the caller's own arrays (np.asarray), so that is a write to an array supplied earlier
        return str(w.how).startswith('attribute store')
    a = ALLOW.get((f.key, w.param))
    if a is None:
        return False
    if isinstance(a, tuple):
        return w.cond_has(a[0], a[1])
    return True


def module_write_rule(repo, eff):
    """E4 instances: (func key, name, how, loc)"""
    out = []
    for f in repo.all_functions():
        s = eff.summary(f)
        for name, how, loc in s.global_writes:
            out.append((f.key, name, how, loc))
    return out


def shared_tilt_rule(chk, repo, eff, clause):
    """The Tilt objects a plane records are handed to every wavefront that passes it by reference (Plane.multiply extends
    the wavefront's list with them, Field.__mul__ builds new lists of the same objects): a later tilt fit may grow or
    replace the plane's list, but an entry that is already there is never modified - the wavefronts computed before
    would change with it."""
    import re
    bad, n = [], 0
    for f in repo.all_functions():
        s = eff.summary(f)
        for w in s.writes:
            if not re.search(r'\.tilt\b', w.detail):
                continue
            n += 1
            if re.search(r'\.tilt\b.', w.detail):
                bad.append(f'{f.key}: {w.how} on `{w.detail}` at {w.loc}')
    chk.ob(clause, 'E-ownership', 'package', 'recorded Tilt objects are shared with the wavefronts that passed the plane: entries of a '
           'tilt list are never modified in place', (not bad) if n else None,
           ('; '.join(sorted(set(bad))[:3]) + ' - the entry is the object earlier wavefronts hold, so their result changes after the fact')
           if bad else f'{n} write(s) reach a tilt list, all of them append to / extend / rebind the list itself', '')


def plane_copy_rules(chk, repo, clause):
    """Plane.copy is deep, and fit_tilt(inplace=False) hands back such a copy on every path: what a plane multiplies by is
    then independent of what is done to its copies (C10-f; the phasor of C07 reads the same arrays)"""
    fc = repo.func('plane.Plane.copy')
    _, paths, _ = analyse(repo, fc)
    rets = returns(paths)
    deep = bool(rets) and all(isinstance(p.ret, Poly) and p.ret.single_atom() is not None and
                              is_app(p.ret.single_atom(), 'deepcopy') and p.ret.single_atom()[2][0] == S('self')
                              for p in rets)
    chk.ob(clause, 'E-ownership', fc.key, 'deep copy', deep,
           'returns copy.deepcopy(self)' if deep else f'returns {", ".join(fmt(p.ret) for p in rets)} (arrays shared with the original)',
           fc.loc())
    ff = repo.func('plane.Plane.fit_tilt')
    _, fpaths, _ = analyse(repo, ff, config={'inplace': FALSE})
    alias = [p for p in returns(fpaths) if root_sym(p.ret) == 'self' and not (isinstance(p.ret, Poly) and p.ret.single_atom() is not None
                                                                               and is_app(p.ret.single_atom(), 'call:plane.Plane.copy'))]
    chk.ob(clause, 'E-ownership', ff.key, 'inplace=False returns a copy on every path (also when there is nothing to fit)', not alias,
           '; '.join(f'returns {fmt(p.ret)[:40]} when {conds_str(p)[-100:]}' for p in alias[:2]) or 'every path returns self.copy()', ff.loc())


def run(chk, repo, tier):
    chk.clause('C10-a', 'no public function writes a caller-owned array/object outside the documented in-place list', 100)
    chk.clause('C10-b', 'memoised coordinate vectors are never written nor returned', 1)
    chk.clause('C10-c', 'seeded functions draw only from default_rng(seed); global-RNG users are exactly the documented ones', 6)
    chk.clause('C10-d', 'no function writes a module-level object (positive-control fixture must match)', 2)
    chk.clause('C10-e', "a plane's recorded tilt is history independent (reader/writer slot agreement)", 1)
    chk.clause('C10-f', 'Field.__mul__ builds new tilt lists; Plane.copy is deep; copies only are written when inplace=False', 3)
    chk.clause('C10-g', 'a reused scratch buffer does not influence the result: the used region is zeroed, filled and transformed consistently', 4)
    from . import c09 as _c09
    _run_nested(_c09, common.Remap(chk, {'C09-d': 'C10-g'}), repo, tier)
    chk.not_decided += ['bit-for-bit repeatability (assumes numpy/scipy are pure)']

    eff = Effects(repo)
    # ---------------------------------------------------------------- C10-a
    n_pub = n_sites = 0
    for f in sorted(repo.public_functions(), key=lambda f: f.key + str(f.is_setter)):
        s = eff.summary(f)
        if s.failed:
            raise AnalysisError(f'effect summary of {f.key} failed: {s.failed}')
        n_pub += 1
        bad = {}
        for w in s.writes:
            n_sites += 1
            if allowed(f, w):
                continue
            bad.setdefault(w.param, []).append(w)
        name = f.key + ('#setter' if f.is_setter else '')
        if not bad:
            chk.ob('C10-a', 'E1-write', name, 'caller-owned inputs untouched', True,
                   f'{len(s.writes)} write(s), all on fresh values or documented in-place targets', f.loc())
        for param, ws in sorted(bad.items()):
            w = ws[0]
            origins = sorted({x.func for x in ws})
            chk.ob('C10-a', 'E1-write', name, f'writes caller-owned `{param}`', False,
                   f'{w.how} on `{w.detail}` at {w.loc}' + (f' reached through {w.via}' if w.via else '')
                   + f' modifies the caller-supplied `{param}` (write sites in: {", ".join(origins[:4])}); '
                     'not a documented in-place operation', w.loc)
    chk.stats['public_functions'] = n_pub
    chk.stats['write_sites_classified'] = n_sites

    # ---------------------------------------------------------------- C10-b
    common.cache_untouched(chk, repo, 'C10-b')

    # ---------------------------------------------------------------- C10-c
    common.seed_rules(chk, repo, eff, 'C10-c', GLOBAL_RNG_USERS)
    # the documented user of the global generator among the convolutions draws from it only when asked to (angle=None):
    # with a given angle - 0 included - the call is a pure function of its arguments
    from .c19 import smear_direction_rule
    smear_direction_rule(chk, repo, 'C10-c')

    # ---------------------------------------------------------------- C10-d
    mw = module_write_rule(repo, eff)
    for fk, name, how, loc in mw:
        chk.ob('C10-d', 'E4-module-state', fk, f'writes module-level `{name}`', False,
               f'{how} on module-level object `{name}`: results would depend on call history', loc)
    chk.ob('C10-d', 'E4-module-state', 'package', 'no module-level writes', not mw,
           f'{sum(1 for _ in repo.all_functions())} functions scanned', '')
    # class-level mutable attributes mutated in place are shared between all instances
    n_cls = 0
    for m in repo.modules.values():
        for c in m.classes.values():
            for name, val in c.class_attrs.items():
                if not isinstance(val, (ast.List, ast.Dict, ast.Set, ast.ListComp, ast.DictComp)) and not (
                        isinstance(val, ast.Call) and (getattr(val.func, 'attr', '') in ('zeros', 'ones', 'array', 'empty')
                                                       or getattr(val.func, 'id', '') in ('list', 'dict', 'set'))):
                    continue
                n_cls += 1
                rebound = any(isinstance(n, ast.Attribute) and isinstance(n.ctx, ast.Store) and n.attr == name
                              and isinstance(n.value, ast.Name) and n.value.id == 'self'
                              for k in c.mro() for fn in k.methods.values() if fn.name == '__init__'
                              for n in ast.walk(fn.node))
                mutated = []
                for k in [c] + [x for mm in repo.modules.values() for x in mm.classes.values() if x.is_subclass_of(c.key)]:
                    for fn in k.methods.values():
                        for w in eff.summary(fn).writes:
                            if w.param == 'self' and w.detail.endswith('.' + name) and w.how != 'attribute store .' + name:
                                mutated.append(f'{fn.key} ({w.how} at {w.loc})')
                chk.ob('C10-d', 'E4-class-state', c.key, f'class-level mutable attribute `{name}`', rebound or not mutated,
                       f'`{name}` is one object shared by every instance and is modified in place by ' + ', '.join(sorted(set(mutated))[:3])
                       if mutated and not rebound else 'never modified in place (or rebound per instance in __init__)',
                       f'{m.relpath}:{val.lineno}')
    chk.stats['class_level_mutables'] = n_cls
    fx = os.path.join(VERIF, 'fixtures', 'module_state')
    frepo = Repo(fx)
    fmw = module_write_rule(frepo, Effects(frepo))
    if len(fmw) < 3:
        raise AnalysisError(f'positive control for E4 matched {len(fmw)} of 3 planted module-state writes: rule is dead')
    chk.ob('C10-d', 'E4-module-state', 'fixture', 'positive control', True,
           f'{len(fmw)} planted module-state writes recognised in fixtures/module_state')

    common.lazy_attribute_rule(chk, repo, 'C10-d', sorted(m.name for m in repo.modules.values()))
    # ---------------------------------------------------------------- C10-e
    shared_tilt_rule(chk, repo, eff, 'C10-f')
    common.tilt_slot_agreement(chk, repo, 'C10-e')
    # the same total tilt reached by one fit or by several gives the same shift: every recorded tilt adds its own
    # displacement to the shift it is handed, component by component
    from .c04 import additive as _additive, folding as _folding, fit_tilt_rule as _fit_tilt_rule10
    _additive(chk, repo, 'C10-e')
    _folding(chk, repo, 'C10-e')
    with chk.guard(['C10-e'], 'plane.Plane.fit_tilt'):
        _fit_tilt_rule10(chk, repo, 'C10-e')

    # ---------------------------------------------------------------- C10-f
    common.mul_concat(chk, repo, 'C10-f')
    # a spectrum keeps the arrays it was given: converting or editing it rebinds them, it never writes into them
    from .c15 import spectrum_storage_rules as _spectrum_storage_rules
    _spectrum_storage_rules(chk, repo, 'C10-f')
    plane_copy_rules(chk, repo, 'C10-f')
    from . import c17 as _c17
    nd_ = list(chk.not_decided)
    _run_nested(_c17, common.Remap(chk, {'C17-e': 'C10-f'}), repo, tier)
    chk.not_decided[:] = nd_
    for key, cfg in (('plane.Plane.fit_tilt', {'inplace': FALSE}), ('plane.Plane.rescale', None),
                     ('plane.Plane.resample', None)):
        f = repo.func(key)
        s = eff.summary(f, cfg)
        ws = [w for w in s.writes if w.param == 'self']
        chk.ob('C10-f', 'E-ownership', key, 'original plane untouched' + (' [inplace=False]' if cfg else ''), not ws,
               '; '.join(f'{w.how} on {w.detail} at {w.loc}' for w in ws[:3]) or 'all writes go to the copy', f.loc())
