"""C05 - propagation conserves energy (structural necessary conditions)."""
from fractions import Fraction

from ..resilient import run_nested as _run_nested
from .. import nf
from ..nf import Poly, Tup, Const, NONE, TRUE, FALSE
from ..model import AnalysisError
from ..ranges import Ranges, Rng
from ..rules import run as analyse, returns, fmt, is_app, S, C, pair, root_sym, conds_str
from ..npmodel import nf_abs
from .c01 import dft2_gain
from .prop_flow import DftFlow, configs


def run(chk, repo, tier):
    from .common import no_hidden_state
    no_hidden_state(chk, repo, 'C05')
    chk.clause('C05-a', 'unitary factor is sqrt|alpha_row*alpha_col| (axis symmetric), applied exactly when unitary; '
                        'the propagator asks for the unitary transform', 5)
    chk.clause('C05-b', 'FFT path is orthonormal and transforms the field embedded in zeros (scratch region zeroed first)', 5)
    chk.clause('C05-c', 'intensity is never negative: |.|^2-derived values accumulated into zeros', 3)
    chk.clause('C05-d', 'normalize_power: c^2 * sum|array|^2 = power', 1)
    chk.clause('C05-o', 'combining and reading out fields leaves them untouched (a second read-out gives the same energy)', 3)
    from .common import operands_untouched
    operands_untouched(chk, repo, 'C05-o', ['field.merge', 'field._merge', 'field.reduce', 'wavefront.Wavefront.intensity',
                                            'wavefront.Wavefront.field', 'propagate.propagate_dft'], allow=[])
    from .c06 import insert_rules
    insert_rules(chk, repo, 'C05-c')
    chk.clause('C05-e', 'a masked output window is the bounding box of the mask placed with the floor(n/2) convention: the energy '
                        'reported for a window is that of exactly its samples', 2)
    from . import extent_rules as X
    from .prop_flow import own_storage_rule
    own_storage_rule(chk, repo, 'C05-o')
    # accumulating an image with a weight adds weight * |field|^2: the weight enters once, after the modulus
    from .c07 import insert_twin_rule as _insert_twin_rule5
    _insert_twin_rule5(chk, repo, 'C05-c')
    # a product wavefront owns its tilt list: tilting it must not tilt the wavefront it was made from
    from . import common as _common5
    _common5.mul_concat(chk, repo, 'C05-o')
    # the field that is transformed is the product of the plane phasors: a product that crops or misplaces an operand (a
    # scalar plane after an off-centre pupil) loses part of the energy before the unitary transform sees it
    chk.clause('C05-p', 'products of fields keep every sample of the overlap; a scalar operand takes the array operand\'s shape and offset', 3)
    from .c06 import product_rules as _product_rules5
    _product_rules5(chk, repo, 'C05-p')
    from .prop_flow import skip_rule as _skip_rule
    _skip_rule(chk, repo, 'C05-o')
    with chk.guard(['C05-e'], 'propagate._mask_shift'):
        X.mask_window_identities(chk, repo, 'C05-e')
    # which samples a product, a window or an output plane keeps is decided by the extent predicates: a field whose extent
    # touches the other one in a single row is still there (and so is its energy)
    X.extent_identities(chk, repo, 'C05-e')
    # ... and which samples of a pupil take part at all: every non-zero one (a mask that leaves out the negative samples of a
    # signed amplitude leaves out their power)
    from .extra_rules import mask_support_rule
    mask_support_rule(chk, repo, 'C05-e')
    # the energy captured by a window is that of the samples the contract says are evaluated
    from .c02 import contracts

    class _Only:
        def __init__(self, chk):
            self.chk = chk

        def ob(self, clause, *a, **k):
            if clause == 'C05-e':
                return self.chk.ob(clause, *a, **k)

        def undecided(self, clause, *a, **k):
            if clause == 'C05-e':
                return self.chk.undecided(clause, *a, **k)
    contracts(_Only(chk), repo, 'C05-e', 'x', 'x', 'x')
    chk.not_decided += ['Parseval to rounding on commensurate grids', 'monotonicity of captured energy in the window '
                        '(follows from C05-c and C02-e, not evaluated)']
    a = pair('alpha')
    a0, a1 = a.items
    f = repo.func('fourier.dft2')
    gt, gf = dft2_gain(repo, TRUE), dft2_gain(repo, FALSE)
    want = nf_abs(a0 * a1).pow(Fraction(1, 2))
    chk.ob('C05-a', 'N-gain', f.key, 'unitary gain', gt == want, f'gain {fmt(gt)}; expected {fmt(want)}', f.loc())
    chk.ob('C05-a', 'N-gain', f.key, 'no gain when not unitary', gf == nf.ONE, f'gain {fmt(gf)}', f.loc())
    if gt is not None:
        m = {a0.single_atom(): a1, a1.single_atom(): a0}
        chk.ob('C05-a', 'N-symmetry', f.key, 'unitary gain symmetric in the two axes', nf.subst_value(gt, m) == gt,
               f'gain {fmt(gt)} changes when alpha_row and alpha_col are exchanged', f.loc())
    for cfg, label in configs()[:2]:
        fl = DftFlow(repo, cfg, label)
        ed = fl.one('fourier.dft2')
        chk.ob('C05-a', 'D-flow', 'propagate.propagate_dft', f'transform requested unitary [{label}]',
               ed.bound.get('unitary') == TRUE, f'unitary={fmt(ed.bound.get("unitary"))}', fl.f.loc(ed.node))

    # ---------------------------------------------------------------- C05-b
    # the unitarity of propagate._fft2 (norm='ortho', or 1/sqrt(rows*cols) by hand) is rule C09-h, run below under C05-b
    from .common import Remap
    from . import c09
    _run_nested(c09, Remap(chk, {'C09-d': 'C05-b', 'C09-e': 'C05-b', 'C09-h': 'C05-b', 'C09-g': 'C05-b', 'C09-b': 'C05-b',
                                 'C09-c': 'C05-b'}), repo, tier)
    # the inverse transform conserves energy with the same flag: its gain is that of the forward transform for every sampling
    from . import c01 as _c01_5
    nd5 = list(chk.not_decided)
    _run_nested(_c01_5, Remap(chk, {'C01-h': 'C05-a'}), repo, tier, fname='run_check')
    chk.not_decided[:] = nd5

    # ---------------------------------------------------------------- C05-c
    fi, paths, _ = analyse(repo, 'field.insert', config={'intensity': TRUE, 'weight': C(1)},
                           types={('sym', 'field'): repo.cls('field.Field')})
    ok, n, det = True, 0, ''
    for p in returns(paths):
        for e in p.writes():
            if root_sym(e.target) == 'out' and e.data.get('aug') == 'add':
                n += 1
                fd = nf.attr(S('field'), 'data').single_atom()
                r = Ranges(is_complex=lambda a: a == fd).of(e.data.get('rhs'))
                if not r.nonneg:
                    ok, det = False, f'added value {fmt(e.data.get("rhs"))} has range {r!r}'
    chk.ob('C05-c', 'R-sign', fi.key, 'the intensity branch adds a non-negative value', ok and n > 0,
           det or f'{n} path(s): abs()-derived', fi.loc())
    for key in ('wavefront.Wavefront.intensity',):
        fw, wp, _ = analyse(repo, key, inline=['wavefront.Wavefront.insert'], types={('sym', 'self'): repo.cls('wavefront.Wavefront')})
        okz = oki = False
        for p in returns(wp):
            ins = p.calls('field.insert')
            from .common import loop_accumulator
            lp, var = loop_accumulator(p, ins[0].bound.get('out')) if ins else (None, None)
            if lp is not None:
                pre = lp['pre'].get(var)
                pa = pre.single_atom() if isinstance(pre, Poly) else None
                okz = pa is not None and is_app(pa, 'zeros')
            elif ins:
                # the accumulator threaded through a fold that hands it back: every insert works on the initial array
                oa_ = ins[0].bound.get('out').single_atom() if isinstance(ins[0].bound.get('out'), Poly) else None
                okz = oa_ is not None and is_app(oa_, 'zeros') and ins[0].in_loop
            oki = len(ins) == 1 and ins[0].bound.get('intensity') == TRUE and ins[0].bound.get('weight') == C(1)
        chk.ob('C05-c', 'R-sign', key, 'starts from zeros', okz, '', fw.loc())
        chk.ob('C05-c', 'R-sign', key, 'adds only intensities with weight 1', oki, '', fw.loc())

    # ---------------------------------------------------------------- C05-d
    fn, np_, _ = analyse(repo, 'util.normalize_power')
    rets = returns(np_)
    if not rets:
        raise AnalysisError('normalize_power: no returning path')
    arr = S('array')
    sig = nf.app('sum', nf_abs(arr) ** 2)
    for pth in rets:
        r = pth.ret
        c = r / arr if isinstance(r, Poly) else None
        ok = c is not None and ('sym', 'array') not in {x for x in c.atoms(deep=False)} and c ** 2 * sig == S('power')
        det = f'scale factor c = {fmt(c)}; c^2*sum|a|^2 = {fmt(c ** 2 * sig) if c is not None else "?"}'
        if not ok and nf.strip_apps(r, ('copy', 'asarray', 'zeros_like')) in (arr, C(0)):
            # the array handed back as it is: only right where it carries no power at all (nothing can be normalised),
            # i.e. under a test that the array is exactly zero - a tolerance test also catches faint fields
            exact = False
            for cnd, pol, _ in pth.conds:
                ca = cnd.single_atom() if isinstance(cnd, Poly) else None
                if ca is None:
                    continue
                if is_app(ca, ('any', 'm:any', 'count_nonzero')) and pol is False and ca[2] and nf.strip_apps(ca[2][0], ('abs',)) == arr:
                    exact = True
                if is_app(ca, 'eq') and pol and C(0) in ca[2] and any(x in (sig, nf.app('sum', nf_abs(arr))) for x in ca[2]):
                    exact = True
            tol = [fmt(cnd)[:60] for cnd, pol, _ in pth.conds if any(is_app(x, ('allclose', 'isclose', 'numpy.allclose', 'numpy.isclose', 'math.isclose')) for x in nf.value_atoms(cnd))]
            ok = True if exact else (False if tol else None)
            det = f'returned unscaled under [{conds_str(pth)[:100]}]' + (': a tolerance test, fields fainter than the tolerance '
                                                                        'lose their normalisation' if tol and not exact else '')
        chk.ob('C05-d', 'N-identity', fn.key, f'c^2 * sum(|array|^2) = power [{conds_str(pth)[:60]}]', ok, det, fn.loc(pth.node))
