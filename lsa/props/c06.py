"""C06 - field and extent bookkeeping."""
import ast

from .. import nf
from ..nf import Poly, Tup, Const, Slice, NONE, TRUE, FALSE
from ..model import AnalysisError, dotted
from ..rules import run as analyse, returns, fmt, is_app, S, C, pair, quad, conds_str, root_sym, identity_holds
from . import extent_rules as X

HALF = X.HALF


def insert_paths(repo):
    """Paths of field.insert with symbolic pair-valued shapes/offset."""
    fld = S('field')
    oshape = pair('out_shape', nf.attr(S('out'), 'shape'))
    fshape = pair('field_shape', nf.attr(nf.attr(fld, 'data'), 'shape'))
    foff = pair('field_offset', nf.attr(fld, 'offset'))
    facts = {nf.attr(S('out'), 'shape').single_atom(): oshape,
             nf.attr(nf.attr(fld, 'data'), 'shape').single_atom(): fshape,
             nf.attr(fld, 'shape').single_atom(): fshape,
             nf.attr(fld, 'offset').single_atom(): foff}
    f, paths, _ = analyse(repo, 'field.insert', facts=facts, types={('sym', 'field'): repo.cls('field.Field')})
    return f, paths, oshape, fshape, foff


def insert_accumulates(chk, repo, clause, analysed=None):
    """Inserting *adds* to what the array already holds: every write into out is an in-place addition
    (a plain store would drop the contributions of the fields inserted before)."""
    f, paths = analysed if analysed is not None else insert_paths(repo)[:2]
    not_add = [(p, e) for p in returns(paths) for e in p.writes()
               if root_sym(e.target) == 'out' and not (e.data.get('how') == 'setitem' and e.data.get('aug') == 'add')]
    chk.ob(clause, 'E-accumulate', 'field.insert', 'every write into out is `out[...] += value`', not not_add,
           '; '.join(f'{e.data.get("how")} {fmt(e.data.get("value"))[:80]} [{conds_str(p)[-60:]}]' for p, e in not_add[:2]) or
           'all stores accumulate', f.loc(not_add[0][1].node) if not_add else f.loc())
    return not_add


def _fast_path_cond(c, oshape, fshape, foff):
    """and(eq(field.shape, out.shape), array_equal(field.offset, [0, 0])) in any order."""
    a = c.single_atom() if isinstance(c, Poly) else None
    if a is None or not is_app(a, 'and') or len(a[2]) != 2:
        return False
    has_shape = has_off = False
    for t in a[2]:
        ta = t.single_atom() if isinstance(t, Poly) else None
        if ta is None:
            continue
        if is_app(ta, 'eq'):
            vals = {nf.vkey(x) for x in ta[2]}
            from ..npmodel import P
            has_shape = has_shape or vals == {nf.vkey(P(fshape)), nf.vkey(P(oshape))} or \
                vals == {nf.vkey(P(Tup(fshape.items, 'vec'))), nf.vkey(P(Tup(oshape.items, 'vec')))}
        if is_app(ta, 'array_equal'):
            from ..npmodel import P
            zero = Tup([C(0), C(0)], 'list')
            vals = {nf.vkey(x) for x in ta[2]}
            has_off = has_off or vals == {nf.vkey(foff), nf.vkey(zero)} or vals == {nf.vkey(P(foff)), nf.vkey(P(zero))}
    return has_shape and has_off


def boundary_fold(chk, repo, clause):
    f, paths, _ = analyse(repo, 'field.boundary')
    rets = returns(paths)
    if not rets:
        raise AnalysisError('field.boundary has no returning path')
    n = 0
    for p in rets:
        loops = [lp for lp in p.state.loops if lp['func'] == f.key]
        if not loops:
            # accepted alternative design: reductions over comprehensions
            r = p.ret
            if isinstance(r, Tup) and len(r) == 4:
                for k, it in enumerate(r.items):
                    a = it.single_atom() if isinstance(it, Poly) else None
                    MINS, MAXS = ('amin', 'min', 'm:min', 'minimum', 'nanmin'), ('amax', 'max', 'm:max', 'maximum', 'nanmax')
                    right, wrong = (MINS, MAXS) if k % 2 == 0 else (MAXS, MINS)
                    okk = a is not None and is_app(a, right)
                    if not okk and isinstance(it, Poly):
                        ats = nf.value_atoms(it)
                        big = nf.sym('sys.maxsize')
                        if any(is_app(x, wrong) for x in ats):
                            okk = False
                        elif any(is_app(x, right) for x in ats):
                            okk = True            # the reduction of a table of extents, read out of a row / converted to a scalar
                        elif it in ((big, nf.sym('inf')) if k % 2 == 0 else (-big, -nf.sym('inf'))):
                            okk = True            # the identity of the fold, returned for an empty collection
                        else:
                            okk = None
                    n += 1
                    chk.ob(clause, 'R-fold', f.key, f'component {k} is a min/max reduction', okk, fmt(it), f.loc(p.node))
            continue
        lp = loops[0]
        kinds = {}
        for ends, conds in zip(lp['ends'], lp['conds']):
            for name, v in ends.items():
                phi = lp['phi'][name]
                if v == phi:
                    continue
                for c, pol, _ in conds:
                    a = c.single_atom() if isinstance(c, Poly) else None
                    if a is not None and is_app(a, 'lt') and pol:
                        if a[2][0] == phi and a[2][1] == v:
                            kinds[name] = 'max'
                        elif a[2][1] == phi and a[2][0] == v:
                            kinds[name] = 'min'
                a = v.single_atom() if isinstance(v, Poly) else None
                if a is not None and is_app(a, ('max', 'maximum')) and phi in a[2]:
                    kinds[name] = 'max'
                if a is not None and is_app(a, ('min', 'minimum')) and phi in a[2]:
                    kinds[name] = 'min'
        for name, kind in sorted(kinds.items()):
            pre = lp['pre'].get(name)
            big = S('sys.maxsize')
            inf = S('inf')
            if kind == 'max':
                ok = pre in (-big, -inf, -big - 1)
                want = '-sys.maxsize (or -inf): extents may be wholly negative'
            else:
                ok = pre in (big, inf)
                want = 'sys.maxsize (or inf)'
            n += 1
            chk.ob(clause, 'R-fold', f.key, f'running {kind} `{name}` starts at an identity of {kind}', ok,
                   f'`{name}` starts at {fmt(pre)}; a running {kind} must start at {want}', f.loc(lp['node']))
        # accumulator k of the returned (rmin, rmax, cmin, cmax) folds component k of each field's extent
        if isinstance(p.ret, Tup) and len(p.ret) == 4:
            for k, it in enumerate(p.ret.items):
                ia = it.single_atom() if isinstance(it, Poly) else None
                names = [nm for nm, phi in lp['phi'].items() if nm in kinds and ia is not None and ia[0] == 'loop'
                         and phi.single_atom() is not None and phi.single_atom()[:2] == ia[:2]]
                if not names:
                    chk.undecided(clause, 'R-fold', f.key, f'returned component {k} folds extent[{k}]',
                                  f'component {k} = {fmt(it)[:80]} is not one of the running minima / maxima', f.loc(p.node))
                    continue
                name, phi = names[0], lp['phi'][names[0]]
                good, det = True, ''
                for ends in lp['ends']:
                    v = ends.get(name)
                    a = v.single_atom() if isinstance(v, Poly) else None
                    if v == phi:
                        continue
                    if a is not None and a[0] == 'idx':
                        oa = a          # conditional assignment `if f < acc: acc = f`
                    elif a is None or not is_app(a, ('max', 'maximum', 'min', 'minimum')):
                        good, det = None, f'`{name}` <- {fmt(v)[:100]}'
                        break
                    else:
                        others = [x for x in a[2] if x != phi]
                        oa = others[0].single_atom() if len(others) == 1 and isinstance(others[0], Poly) else None
                    comp_ok = oa is not None and oa[0] == 'idx' and oa[2] == C(k) and oa[1][0] == 'attr' and oa[1][2] == 'extent'
                    kind_ok = kinds[name] == ('min' if k % 2 == 0 else 'max')
                    det = f'`{name}` <- {fmt(v)[:100]}'
                    good = good and comp_ok and kind_ok
                chk.ob(clause, 'R-fold', f.key, f'returned component {k} is the running {"min" if k % 2 == 0 else "max"} of extent[{k}]',
                       good, det, f.loc(lp['node']))
    if n < 4:
        raise AnalysisError(f'field.boundary: only {n} of 4 fold accumulators recognised')


def run(chk, repo, tier):
    from .common import no_hidden_state
    no_hidden_state(chk, repo, 'C06')
    chk.clause('C06-o', 'products, merges, reductions and inserts leave their operands untouched (insert accumulates into out only)', 8)
    from .common import operands_untouched
    operands_untouched(chk, repo, 'C06-o', ['field.merge', 'field._merge', 'field.reduce', 'field._reduce', 'field.overlap', 'field.insert', 'field.Field.__mul__', 'field.Field._mul_array', 'field.Field._mul_scalar', 'field._mul_broadcast'], allow=[('field.insert', 'out')])
    chk.clause('C06-a', 'bounding-box folds start from an identity of the fold (extents may be negative)', 4)
    chk.clause('C06-b', 'extent identities; merge offset/shape/slices consistent with the bounding box', 16)
    chk.clause('C06-c', 'insert alignment invariant on all clipping paths (both axes)', 5)
    chk.clause('C06-d', 'scalar broadcast inherits the other operand\'s shape and offset; product uses the intersection', 3)
    chk.clause('C06-e', 'a merge is a sum: every field is added at its own slice into zeros', 2)
    chk.clause('C06-f', 'reduce merges every overlapping group and returns only when no pair intersects', 3)
    chk.not_decided += ['inequality reasoning, e.g. that a field wholly outside the target inserts nothing '
                        '(needs a relational numeric domain)']

    boundary_fold(chk, repo, 'C06-a')
    X.extent_identities(chk, repo, 'C06-b')

    merge_helper_rules(chk, repo)

    # ---------------------------------------------------------------- C06-c
    insert_rules(chk, repo)
    # ... and what is added there is the field's own samples times the weight (their squared modulus times the weight on the
    # intensity branch): the same slices, the weight applied once
    from .c07 import insert_twin_rule as _insert_twin_rule
    _insert_twin_rule(chk, repo, 'C06-c')

    # ---------------------------------------------------------------- C06-d
    product_rules(chk, repo)
    scalar_product_rule(chk, repo)

    # ---------------------------------------------------------------- C06-e
    f, paths, _ = analyse(repo, 'field._merge')
    rets = returns(paths)
    ok_sum, ok_zero, det = False, False, ''
    sums = []
    for p in rets:
        sums.append(False)
        for e in p.writes():
            if e.data.get('how') == 'setitem' and e.in_loop and e.data.get('aug') == 'add':
                rhs = e.data.get('rhs')
                key = e.data.get('key')
                ra = rhs.single_atom() if isinstance(rhs, Poly) else None
                ka = key.single_atom() if isinstance(key, Poly) else None
                # field.data of fields[k] added at slices[k] (same k)
                if ra is not None and ra[0] == 'attr' and ra[2] == 'data' and ka is not None and ka[0] == 'idx' \
                        and ra[1][0] == 'idx' and ra[1][2] == ka[2] and ra[1][1] == ('sym', 'fields'):
                    sl = Poly.atom(ka[1])
                    # field k goes to entry k of the slice list; the list itself is the helper's (its entries are C06-b's
                    # subject) - a list built in another way pairs the fields correctly, what it holds is not decided here
                    sums[-1] = True if is_app(ka[1], 'call:field._merge_slices') else None
                    det = f'out[{fmt(key)[:120]}] += {fmt(rhs)}'
                elif ra is not None and ra[0] == 'attr' and ra[2] == 'data' and ra[1][0] == 'idx' and ra[1][1] == ('sym', 'fields') \
                        and key is not None and ra[1] in nf.value_atoms(key):
                    # the slice is worked out from the field that is being added (a window computed per field): field k goes
                    # where its own extent says; what that window is is the subject of C06-b
                    sums[-1] = None
                    det = f'out[<window of fields[k]>] += {fmt(rhs)}'
                elif ra is not None and ra[0] == 'attr' and ra[2] == 'data' and ra[1][0] == 'idx' and ra[1][1] == ('sym', 'fields') \
                        and key == nf.ELLIPSIS:
                    # one-element fields on the origin summed into a 0-d accumulator: everything goes to the only sample
                    sums[-1] = None if sums[-1] is False else sums[-1]
                    det = det or f'out[...] += {fmt(rhs)}'
                root = e.target.single_atom() if isinstance(e.target, Poly) else None
                t = e.target
                while isinstance(t, Poly) and t.single_atom() is not None and is_app(t.single_atom(), 'setitem'):
                    t = t.single_atom()[2][0]
                ta = t.single_atom() if isinstance(t, Poly) else None
                ok_zero = ta is not None and (is_app(ta, 'zeros') or ta[0] == 'loop')
        zs = [e for e in p.events if e.kind == 'call' and e.data.get('callee') == 'ext:numpy.zeros']
        ok_zero = ok_zero and bool(zs)
    ok_sum = False if (not sums or any(x is False for x in sums)) else (None if any(x is None for x in sums) else True)
    chk.ob('C06-e', 'D-sum', f.key, 'every field is added (+=) at its own slice', ok_sum,
           ('undecided: ' if ok_sum is None else '') + det if det else 'no `out[slices[k]] += fields[k].data` accumulation found', f.loc())
    chk.ob('C06-e', 'D-sum', f.key, 'accumulator starts as zeros of the merged shape', ok_zero, '', f.loc())
    # what comes back is a Field built from the accumulated data and the merged offset: the constructor derives the extent
    # from them (a copy of one input with data and offset replaced keeps that input's extent, which overlap tests and later
    # merges then use)
    built, detb = None, ''
    for p in rets:
        ctor = [e for e in p.events if e.kind == 'call' and e.data.get('new') == 'field.Field' and e.depth == 0]
        if ctor and p.ret == ctor[-1].data.get('result'):
            built = True if built is None else built
        else:
            built = False
            detb = f'returns {fmt(p.ret)[:80]}, which is not a newly constructed Field'
    chk.ob('C06-e', 'D-flow', f.key, 'the merged field is a newly constructed Field (extent derived from its data and offset)', built, detb, f.loc())

    # the public merge refuses two fields exactly when the caller asked for overlap to be enforced and they do not overlap:
    # with enforce_overlap=False any two fields are summed
    if repo.has_func('field.merge'):
        fmg = repo.func('field.merge')
        okm, detm = True, ''
        for cfg, label in ((TRUE, 'True'), (FALSE, 'False')):
            _, mp, _ = analyse(repo, fmg, config={'enforce_overlap': cfg})
            raises = [p for p in mp if p.status == 'raise']
            rets_m = [p for p in mp if p.status != 'raise']
            if cfg == FALSE and (raises or not rets_m):
                okm, detm = False, f'enforce_overlap=False still refuses [{conds_str(raises[0])[:80] if raises else "no returning path"}]'
            if cfg == TRUE and not (raises and rets_m and all(any('overlap' in fmt(c) for c, _pl, _n in p.conds) for p in raises)):
                okm, detm = (False, 'enforce_overlap=True does not refuse non-overlapping fields') if okm else (okm, detm)
        chk.ob('C06-e', 'D-guard', fmg.key, 'merge refuses exactly: overlap enforced and the fields do not overlap', okm, detm, fmg.loc())
    slice_count_rule(chk, repo, 'C06-e')
    disjoint_rules(chk, repo)


def _skip_is_outside(p, oshape, fshape, foff):
    """Does the condition under which insert returns without adding anything imply that the field's window
    [ul, ul + F) misses [0, O) on some axis?  Each disjunct of the deciding test must entail one of
    ul + F <= 0, ul >= O (rows or columns); a disjunct that can hold for an overlapping field is shown with numbers."""
    from .. import linear
    from ..rules import literals
    outside = []
    for k in (0, 1):
        O, F, off = oshape.items[k], fshape.items[k], foff.items[k]
        ul = HALF(O) - HALF(F) + off
        outside += [(ul + F, 'le0', k), (O - ul, 'le0', k)]
    disj = []
    for c, pol, _ in p.conds:
        a = c.single_atom() if isinstance(c, Poly) else None
        if a is not None and is_app(a, 'or') and pol:
            disj = [x for x in a[2] if isinstance(x, Poly)]
        elif a is not None and is_app(a, ('le', 'lt')) and pol:
            disj = disj or [c]
    if not disj:
        return None, 'the test that decides to add nothing was not recognised'
    try:
        for d in disj:
            base = linear.literal_constraints(d, True)
            atoms = set(d.atoms(deep=True))
            axioms = linear.floor_half_axioms(atoms)
            for k in (0, 1):
                axioms += [linear.le(linear.Lin({}, 1), linear.linearise(oshape.items[k])),
                           linear.le(linear.Lin({}, 1), linear.linearise(fshape.items[k]))]
            if any(linear.entails(base + axioms + linear.floor_half_axioms(set(g.atoms(deep=True))), linear.le(linear.linearise(g), linear.Lin()))
                   for g, _, _ in outside):
                continue
            rng = {}
            for k in (0, 1):
                rng.update({oshape.items[k].single_atom(): range(1, 6), fshape.items[k].single_atom(): range(1, 5),
                            foff.items[k].single_atom(): range(-6, 7)})
            # a point where the disjunct holds although the windows overlap on both axes
            for k in (0, 1):
                free = {a_: r for a_, r in rng.items()
                        if a_ in {oshape.items[k].single_atom(), fshape.items[k].single_atom(), foff.items[k].single_atom()}}
                try:
                    if not set(linear.free_atoms([x for a_ in [d.single_atom()] for x in a_[2]])) <= set(free):
                        continue
                except linear.NotLinear:
                    continue
                g1, g2 = outside[2 * k][0], outside[2 * k + 1][0]
                inside = [(nf.app('lt', Poly.const(0), g1), True), (nf.app('lt', Poly.const(0), g2), True)]
                env = linear.witness([(d, True)] + inside, Poly.const(-1), 'ge0', free)
                if env is not None:
                    nums = {fmt(Poly.atom(a_)): v for a_, v in env.items()}
                    return False, f'nothing is added when {fmt(d)[:100]}, which also holds for a field that overlaps the array: {nums}'
            return None, f'not decided whether {fmt(d)[:100]} implies that the field lies outside the array'
    except linear.NotLinear as ex:
        return None, f'skip condition not linear ({ex})'
    return True, 'every alternative of the test entails ul + F <= 0 or ul >= O on some axis'


def insert_bounds_rule(chk, repo, clause):
    """Every slice bound that insert hands to numpy lies inside its array: 0 <= start, stop <= size on both axes, for
    the target window and for the part of the field alike.  A negative stop does not clip, it counts from the other
    end: the two slices then differ in length and the `+=` raises (or, for a length-1 remainder, broadcasts).  Decided in
    the linear domain from the path conditions (with floor(n/2) axioms and sizes >= 1); a bound that is not entailed is
    reported with concrete shapes and offset that satisfy the path conditions and push it out of range."""
    from .. import linear
    from ..rules import literals
    f, paths, oshape, fshape, foff = insert_paths(repo)
    bad, undecided, n = [], [], 0
    for p in returns(paths):
        ws = [e for e in p.writes() if e.data.get('how') == 'setitem' and root_sym(e.target) == 'out']
        if len(ws) != 1:
            continue
        key = ws[0].data.get('key')
        if not (isinstance(key, Tup) and len(key) == 2 and all(isinstance(s_, Slice) for s_ in key.items)):
            continue            # the whole-array fast path
        fsl = None
        for a in nf.value_atoms(ws[0].data.get('value')):
            if a[0] == 'idx' and isinstance(a[2], Tup) and len(a[2]) == 2 and all(isinstance(s_, Slice) for s_ in a[2].items) \
                    and a[1][0] == 'attr' and a[1][2] == 'data':
                fsl = a[2]
        if fsl is None:
            continue
        lits = literals(p.conds)
        lin_lits = []
        for c, pol in lits:
            ca = c.single_atom() if isinstance(c, Poly) else None
            if ca is None or not is_app(ca, ('lt', 'le', 'eq', 'ne')):
                continue
            try:
                linear.literal_constraints(c, pol)
                lin_lits.append((c, pol))
            except linear.NotLinear:
                pass
        for k in (0, 1):
            O, F, off = oshape.items[k], fshape.items[k], foff.items[k]
            axioms = [linear.le(linear.Lin({}, 1), linear.linearise(O)), linear.le(linear.Lin({}, 1), linear.linearise(F))]
            cons = list(axioms)
            atoms = set()
            for c, pol in lin_lits:
                cons += linear.literal_constraints(c, pol)
                atoms |= set(c.atoms(deep=True)) if hasattr(c, 'atoms') else set()
            for name, sl, size in (('target window', key.items[k], O), ('field part', fsl.items[k], F)):
                for which, bnd in (('start', sl.lo), ('stop', sl.hi)):
                    if not isinstance(bnd, Poly):
                        continue
                    n += 1
                    try:
                        bl = linear.linearise(bnd)
                        ats = set(bnd.atoms(deep=True)) | {x for c, _ in lin_lits for x in c.atoms(deep=True)}
                        low = linear.entails_with_axioms(cons, linear.le(linear.Lin(), bl), ats)
                        high = linear.entails_with_axioms(cons, linear.le(bl, linear.linearise(size)), ats)
                    except linear.NotLinear as ex:
                        undecided.append(f'{name} {which} on axis {k}: {ex}')
                        continue
                    if low and high:
                        continue
                    rng = {O.single_atom(): range(1, 6), F.single_atom(): range(1, 5), off.single_atom(): range(-9, 10)}
                    other = 1 - k
                    rng.update({oshape.items[other].single_atom(): [3], fshape.items[other].single_atom(): [2],
                                foff.items[other].single_atom(): [0]})
                    here = [(c, pol) for c, pol in lin_lits
                            if not ({oshape.items[other].single_atom(), fshape.items[other].single_atom(), foff.items[other].single_atom()}
                                    & set(c.atoms(deep=True)))]
                    env = None
                    try:
                        if not low:
                            env = linear.witness(here, bnd, 'ge0', rng)
                        if env is None and not high:
                            env = linear.witness(here, bnd - size, 'le0', rng)
                    except linear.NotLinear as ex:
                        undecided.append(f'{name} {which} on axis {k}: {ex}')
                        continue
                    if env is None:
                        undecided.append(f'{name} {which} on axis {k} [{conds_str(p)[-60:]}]')
                        continue
                    val = linear.evaluate(bnd, env)
                    bad.append(f'{name} {which} on axis {k} is {int(val)} for a field of {env[F.single_atom()]} sample(s) at offset '
                               f'{env[off.single_atom()]} in a target of {env[O.single_atom()]}')
    chk.ob(clause, 'R-bounds', f.key, 'every slice bound lies inside its array (no negative stop that would count from the other end)',
           (not bad) if (n and (bad or not undecided)) else None,
           ('; '.join(sorted(set(bad))[:3]) + ': a field wholly outside the target must add nothing, here the slices wrap and the '
            'accumulation raises') if bad else (f'{n} bounds entailed by the path conditions' if not undecided else
                                               'not decided: ' + '; '.join(undecided[:2])), f.loc())


def origin_shortcut_rule(chk, f, sp, b):
    """The scalar shortcut of the merge helpers (shape (), one Ellipsis per field) is for fields that all sit at the origin
    as one-element fields: it may be taken only when the bounding box is (0, 0, 0, 0).  Decided in the linear domain:
    the path conditions, with rmin <= rmax and cmin <= cmax, must entail each bound = 0; otherwise a small bounding box
    that satisfies the conditions and is not the origin is shown."""
    from .. import linear
    from ..rules import literals
    ok, det = None, 'condition of the shortcut not understood as linear comparisons of the bounding box'
    try:
        bl = [linear.linearise(x) for x in b]
        cons = [linear.le(bl[0], bl[1]), linear.le(bl[2], bl[3])]
        lits = literals(sp.conds)
        for c, pol in lits:
            cons += linear.literal_constraints(c, pol)
        zero = linear.Lin()
        proved = all(linear.entails(cons, linear.le(x, zero)) and linear.entails(cons, linear.le(zero, x)) for x in bl)
        if proved:
            ok, det = True, 'the path conditions entail rmin = rmax = cmin = cmax = 0'
        else:
            import itertools
            atoms = [x.single_atom() for x in b]
            for vals in itertools.product(range(-2, 3), repeat=4):
                if vals[0] > vals[1] or vals[2] > vals[3] or vals == (0, 0, 0, 0):
                    continue
                env = dict(zip(atoms, vals))
                good = True
                for c, pol in lits:
                    a = c.single_atom()
                    if a is not None and is_app(a, ('lt', 'le', 'eq')):
                        x, y = linear.evaluate(a[2][0], env), linear.evaluate(a[2][1], env)
                        t = {'lt': x < y, 'le': x <= y, 'eq': x == y}[a[1]]
                    else:
                        t = linear.evaluate(c, env) != 0
                    good = good and (t == bool(pol))
                if good:
                    ok = False
                    det = f'the shortcut is also taken for the bounding box (rmin, rmax, cmin, cmax) = {vals}, which is not a ' \
                          'one-element field at the origin: the merged array becomes 0-d'
                    break
    except linear.NotLinear as ex:
        det += f' ({ex})'
    chk.ob('C06-b', 'N-identity', f.key, 'scalar shortcut only for the bounding box (0, 0, 0, 0)', ok, det, f.loc(sp.node))


def merge_helper_rules(chk, repo):
    """_merge_shape / _merge_offset / _merge_slices against the bounding box of the fields (C06-b; routed into C03 and C07)"""
    # merge helpers against the bounding box
    for fn in ('_merge_shape', '_merge_offset', '_merge_slices'):
        f, paths, _ = analyse(repo, f'field.{fn}', inline=[k.key for k in repo.all_functions() if k.module.name == 'extent'])
        rets = returns(paths)
        calls = [c for p in rets for c in p.calls('field.boundary')]
        if not calls:
            # the bounding box is handed in: find the parameter that _merge binds to boundary(fields)
            from ..rules import quad
            _, mp, _ = analyse(repo, 'field._merge')
            par = None
            for q in returns(mp):
                bnds = [c for c in q.calls('field.boundary') if c.bound.get('fields') == S('fields')]
                for c in q.calls(f'field.{fn}'):
                    for nm, v in c.bound.items():
                        if bnds and v == bnds[0].result:
                            par = nm
            if par is None:
                chk.undecided('C06-b', 'N-identity', f.key, 'consistent with the bounding box of the fields',
                              'neither calls boundary(fields) nor receives its result from _merge', f.loc())
                continue
            bq = quad('bounds')
            f, paths, _ = analyse(repo, f'field.{fn}', config={par: bq},
                                  inline=[k.key for k in repo.all_functions() if k.module.name == 'extent'])
            rets = returns(paths)
            b = list(bq.items)
        else:
            b = [nf.index(calls[0].result, C(i)) for i in range(4)]
        # the path for fields that are not all one-element fields at the origin (that one returns () / [Ellipsis])
        def special(p_):
            r_ = p_.ret
            return (isinstance(r_, Tup) and len(r_) == 0) or (isinstance(r_, Tup) and len(r_) == 1 and r_.items[0] == nf.ELLIPSIS) \
                or _repeated_list(r_) is not None
        general = [p_ for p_ in rets if not special(p_)] or rets[-1:]
        p = general[-1]
        for sp in [p_ for p_ in rets if special(p_)]:
            origin_shortcut_rule(chk, f, sp, b)
        if fn == '_merge_shape':
            want = Tup([b[1] - b[0] + 1, b[3] - b[2] + 1])
            chk.ob('C06-b', 'N-identity', f.key, 'shape of the bounding box', p.ret == want,
                   f'returns {fmt(p.ret)}; expected {fmt(want)}', f.loc(p.node))
        elif fn == '_merge_offset':
            want = Tup([b[0] + HALF(b[1] - b[0] + 1), b[2] + HALF(b[3] - b[2] + 1)])
            chk.ob('C06-b', 'N-identity', f.key, '= array_center(boundary)', p.ret == want,
                   f'returns {fmt(p.ret)}; expected {fmt(want)}', f.loc(p.node))
        else:
            # the appended (row, col) slices in the loop
            ok, det, n = True, '', 0
            cands = [e.data['args'][0] for e in p.events
                     if e.kind == 'write' and e.data.get('how') == 'method:append' and e.in_loop]
            ra = p.ret.single_atom() if isinstance(p.ret, Poly) else None
            def over_fields(seq):
                sa = seq.single_atom() if isinstance(seq, Poly) else None
                return seq == S('fields') or (sa is not None and is_app(sa, ('listcomp', 'genexp')) and len(sa[2]) == 2
                                              and over_fields(sa[2][1]))
            if ra is not None and is_app(ra, ('listcomp', 'genexp')) and len(ra[2]) == 2 and over_fields(ra[2][1]):
                cands.append(ra[2][0].single_atom()[1] if isinstance(ra[2][0], Poly) and ra[2][0].single_atom() is not None
                             and ra[2][0].single_atom()[0] == 'val' else ra[2][0])
            for v in cands:
                if True:
                    if isinstance(v, Tup) and len(v) == 2 and all(isinstance(s, Slice) for s in v.items):
                        n += 1
                        ext = None
                        for a in nf.value_atoms(v):
                            if a[0] == 'attr' and a[2] == 'extent':
                                ext = Poly.atom(a)
                        if ext is None:
                            ok, det = False, f'slice {fmt(v)} not derived from field.extent'
                            continue
                        fe = [nf.index(ext, C(i)) for i in range(4)]
                        for k, s in enumerate(v.items):
                            lo, hi = fe[2 * k], fe[2 * k + 1]
                            good = s.lo == lo - b[2 * k] and s.hi - s.lo == hi - lo + 1
                            if not good:
                                ok, det = False, f'axis {k}: slice {fmt(s)}; expected {fmt(lo - b[2 * k])}:{fmt(hi - b[2 * k] + 1)}'
            chk.ob('C06-b', 'N-identity', f.key, 'slice = field extent relative to the bounding box',
                   (ok and n > 0) if (n or not ok) else None,
                   det or ('start = fmin - min, length = fmax - fmin + 1 on both axes' if n else
                           f'undecided: no per-field (row, col) slice pair recognised in {fmt(p.ret)[:100]}'), f.loc())



def _repeated_list(v):
    """v = [item, ...] * n  ->  (items, n)"""
    a = v.single_atom() if isinstance(v, Poly) else None
    if a is not None and is_app(a, 'repeat_list') and isinstance(a[2][0], Tup):
        return a[2][0], a[2][1]
    return None


def slice_count_rule(chk, repo, clause):
    """_merge walks zip(fields, slices): a field without a slice of its own is silently left out of the sum, so every
    return of _merge_slices must hold one slice per field (the all-at-the-origin shortcut included)."""
    f, paths, _ = analyse(repo, 'field._merge_slices')
    fields = S('fields')
    nfields = {nf.app('len', fields)}
    # ... in the order of the fields: _merge pairs them up with zip(fields, slices)
    import ast as _ast
    reordered = []
    for node in _ast.walk(f.node):
        if isinstance(node, _ast.Call):
            nm_ = node.func.id if isinstance(node.func, _ast.Name) else (node.func.attr if isinstance(node.func, _ast.Attribute) else '')
            if nm_ in ('sorted', 'reversed') and any(isinstance(x, _ast.Name) and x.id == 'fields' for a_ in node.args for x in _ast.walk(a_)):
                reordered.append(f'`{_ast.unparse(node)[:50]}` at {f.loc(node)}')
            if nm_ in ('sort', 'reverse') and isinstance(node.func, _ast.Attribute) and isinstance(node.func.value, _ast.Name) \
                    and node.func.value.id == 'fields':
                reordered.append(f'`{_ast.unparse(node)[:50]}` at {f.loc(node)}')
    chk.ob(clause, 'N-sibling', f.key, 'the slices come back in the order of the fields (paired by zip in _merge)', not reordered,
           '; '.join(reordered[:2]) + (': slices in another order than the fields they belong to' if reordered else ''), f.loc())

    def over_fields(seq):
        sa = seq.single_atom() if isinstance(seq, Poly) else None
        if seq == fields:
            return True
        if sa is not None and is_app(sa, ('enumerate', 'listcomp', 'genexp', 'reversed', 'list', 'tuple')) and sa[2]:
            return over_fields(sa[2][-1])
        if sa is not None and is_app(sa, 'range') and len(sa[2]) == 1:
            return sa[2][0] in nfields
        if sa is not None and is_app(sa, 'zip'):
            return any(isinstance(x, Poly) and over_fields(x) for x in sa[2])
        return False
    for p in returns(paths):
        r = p.ret
        ok, det = None, f'returns {fmt(r)[:120]}'
        rep = _repeated_list(r)
        ra = r.single_atom() if isinstance(r, Poly) else None
        if isinstance(r, Tup):
            if not any(isinstance(i, Poly) and fields.single_atom() in nf.value_atoms(i) for i in r.items):
                ok = False
                det = f'returns a list of {len(r)} slice(s) however many fields there are: zip(fields, slices) in _merge stops ' \
                      f'after {len(r)} field(s) and the others are left out of the sum'
        elif rep is not None:
            ok = True if (len(rep[0]) == 1 and rep[1] in nfields) else None
        elif ra is not None and is_app(ra, ('listcomp', 'genexp')) and len(ra[2]) == 2:
            ok = True if over_fields(ra[2][1]) else None
        elif ra is not None and ra[0] == 'loop':
            for lp in p.state.loops:
                appended = []
                for ends in lp['ends']:
                    cnt = 0
                    v = ends.get(str(ra[1]).split('@')[0])
                    while isinstance(v, Poly) and v.single_atom() is not None and is_app(v.single_atom(), ('append', 'mut:append')):
                        cnt += 1
                        v = v.single_atom()[2][0]
                    if not (isinstance(v, Poly) and v.single_atom() is not None and v.single_atom()[:2] == ra[:2]):
                        cnt = None          # grown some other way
                    appended.append(cnt)
                if appended and isinstance(lp.get('iter'), Poly) and over_fields(lp['iter']):
                    if all(c == 1 for c in appended):
                        ok = True
                    elif any(c == 0 for c in appended if c is not None):
                        ok, det = False, 'some iteration over the fields appends no slice'
        chk.ob(clause, 'D-sum', f.key, f'one slice per field [{conds_str(p)[:60]}]', ok, det, f.loc(p.node))


def _loop_exit_is_full_scan(repo, fd):
    """The grouping written as a loop that merges until nothing is left to merge ends correctly only when the loop's exit
    test is the outcome of a scan over *all* pairs of groups (`combinations(range(len(..)), 2)` - directly or in a helper
    that looks for the first intersecting pair).  A loop that runs until a work list is empty sets groups aside after one
    pass: one that grew afterwards is never compared with them again.  -> None (exit fed by a full scan; the rest is not
    decided here) / False."""
    def scans_all_pairs(fn_node):
        has_comb = has_int = False
        for n in ast.walk(fn_node):
            if isinstance(n, ast.Call):
                d = dotted(n.func) or ''
                if d.split('.')[-1] == 'combinations' and len(n.args) == 2 and isinstance(n.args[1], ast.Constant) and n.args[1].value == 2:
                    has_comb = True
                if d.split('.')[-1] in ('intersect', '_overlap'):
                    has_int = True
        return has_comb and has_int
    mod = fd.module
    whiles = [n for n in ast.walk(fd.node) if isinstance(n, ast.While)]
    if not whiles:
        return None
    for w in whiles:
        if not any(isinstance(n, ast.Call) and isinstance(n.func, ast.Attribute) and n.func.attr in ('extend', 'append') for n in ast.walk(w)):
            continue
        names = {n.id for n in ast.walk(w.test) if isinstance(n, ast.Name)}
        fed = False
        for n in ast.walk(fd.node):
            if isinstance(n, (ast.Assign, ast.NamedExpr)):
                tgts = n.targets if isinstance(n, ast.Assign) else [n.target]
                tnames = {x.id for t in tgts for x in ast.walk(t) if isinstance(x, ast.Name)}
                if not (tnames & names):
                    continue
                for c in ast.walk(n.value):
                    if isinstance(c, ast.Call):
                        d = dotted(c.func) or ''
                        callee = mod.functions.get(d.split('.')[-1]) if d else None
                        if callee is not None and scans_all_pairs(callee.node):
                            fed = True
                if scans_all_pairs(n.value):
                    fed = True
        if scans_all_pairs(w.test):
            fed = True
        if not fed:
            return False
    return None


def _union_of_extents(evs, st):
    """the extent stored for the merged group, when it is written as (min, max, min, max) of the two extents that were
    found to intersect -> (bool, detail) or None when the stored value is not of that form"""
    tested = [e for e in evs if e.kind == 'call' and e.data.get('callee') == 'extent.intersect']
    if not tested or not st:
        return None
    bound = tested[-1].bound
    a, b = bound.get('a'), bound.get('b')
    val = evs[st[-1]].data.get('value')
    if not (isinstance(val, Tup) and len(val) == 4 and isinstance(a, (Poly, Tup)) and isinstance(b, (Poly, Tup))):
        return None
    wrong = []
    for k, item in enumerate(val.items):
        ia = item.single_atom() if isinstance(item, Poly) else None
        if ia is None or not is_app(ia, ('min', 'max', 'minimum', 'maximum')) or len(ia[2]) != 2:
            return None
        want_kind = 'min' if k in (0, 2) else 'max'
        ops = {nf.vkey(x) for x in ia[2]}
        if ops != {nf.vkey(nf.index(a, C(k))), nf.vkey(nf.index(b, C(k)))}:
            wrong.append(f'component {k} is {fmt(item)[:80]}')
        elif not ia[1].startswith(want_kind):
            wrong.append(f'component {k} ({"rmin rmax cmin cmax".split()[k]}) takes the {ia[1]} of the two groups; the union needs the {want_kind}')
    if wrong:
        return False, 'merged group extent: ' + '; '.join(wrong[:2])
    return True, 'merged group extent = (min, max, min, max) of the two intersecting group extents'


def _list_version_of(v, target):
    """v denotes the list `target` after an in-place extension (x += y / x.extend(y) leave the same object)"""
    a = v.single_atom() if isinstance(v, Poly) else None
    if a is None and isinstance(v, Poly) and isinstance(target, Poly) and target.single_atom() is not None:
        # `x += y` on lists is modelled as x + y: the extended list contains the old one as a summand
        ta = target.single_atom()
        return any(m == ((ta, 1),) and c == 1 for m, c in v.terms)
    for _ in range(4):
        if a is None:
            return False
        if Poly.atom(a) == target:
            return True
        if is_app(a) and (a[1].startswith('mut:') or a[1] in ('iadd', 'augadd', 'add_inplace')) and a[2] and isinstance(a[2][0], Poly):
            a = a[2][0].single_atom()
            continue
        return False
    return False


def insert_rules(chk, repo, clause='C06-c'):
    """field.insert adds exactly the part of the field that falls inside the array: accumulate-only stores, window and
    field slice of equal length, aligned at floor(n/2) + offset, clipped by the size of the same axis (C06-c; reused by
    C02, C03, C04, C05, C07)."""
    f, paths, oshape, fshape, foff = insert_paths(repo)
    n = 0
    not_add = insert_accumulates(chk, repo, clause, (f, paths))
    insert_bounds_rule(chk, repo, clause)
    for p in returns(paths):
        ws = [e for e in p.writes() if e.data.get('how') == 'setitem' and root_sym(e.target) == 'out']
        if not ws and p.ret == S('out'):
            # nothing is added: legitimate exactly when the field lies wholly outside the array on some axis
            verdict, why = _skip_is_outside(p, oshape, fshape, foff)
            chk.ob(clause, 'D-guard', 'field.insert', f'out is returned untouched only for a field wholly outside it [{conds_str(p)[-50:]}]',
                   verdict, why, f.loc(p.node))
            continue
        if len(ws) != 1:
            if not_add:
                continue
            raise AnalysisError(f'field.insert: expected exactly one store into out per path, got {len(ws)}')
        key = ws[0].data['key']
        if key == nf.ELLIPSIS:
            # the whole-array fast path is only legitimate for an equally shaped, un-shifted field
            conds = [(c, pol) for c, pol, _ in p.conds if fmt(c) != 'intensity']
            good = len(conds) == 1 and conds[0][1] is True and _fast_path_cond(conds[0][0], oshape, fshape, foff)
            chk.ob(clause, 'D-guard', 'field.insert', 'whole-array fast path only for equal shape and zero offset', good,
                   f'fast path taken when {fmt(conds[0][0]) if conds else "always"}; it must require field.shape == out.shape '
                   f'and field.offset == (0, 0) on both axes', f.loc(ws[0].node))
            continue
        if not (isinstance(key, Tup) and len(key) == 2 and all(isinstance(s, Slice) for s in key.items)):
            raise AnalysisError(f'field.insert: out slice not understood: {fmt(key)}')
        val = ws[0].data.get('rhs')
        fslices = None
        for a in nf.value_atoms(val):
            if a[0] == 'idx' and isinstance(a[2], Tup) and len(a[2]) == 2 and all(isinstance(s, Slice) for s in a[2].items) \
                    and a[1] == nf.attr(S('field'), 'data').single_atom():
                fslices = a[2]
        if fslices is None:
            raise AnalysisError('field.insert: field slice not found in the stored value')
        if any(isinstance(key.items[ax].hi - key.items[ax].lo, Poly) and (key.items[ax].hi - key.items[ax].lo).is_zero() and
               (fslices.items[ax].hi - fslices.items[ax].lo).is_zero() for ax in (0, 1)
               if all(isinstance(x, Poly) for x in (key.items[ax].hi, key.items[ax].lo, fslices.items[ax].hi, fslices.items[ax].lo))):
            # an empty window on both sides: the accumulation adds nothing - the same question as a return without a store
            verdict, why = _skip_is_outside(p, oshape, fshape, foff)
            chk.ob(clause, 'D-guard', 'field.insert', f'out is returned untouched only for a field wholly outside it [{conds_str(p)[-50:]}]',
                   verdict, why, f.loc(p.node))
            continue
        for ax in (0, 1):
            o, fs = key.items[ax], fslices.items[ax]
            ul = HALF(oshape.items[ax]) - HALF(fshape.items[ax]) + foff.items[ax]
            n += 1
            chk.ob(clause, 'N-identity', 'field.insert', f'axis {ax} equal lengths [{conds_str(p)}]',
                   identity_holds((o.hi - o.lo) - (fs.hi - fs.lo), nf.ZERO, p.conds),
                   f'out slice {fmt(o)} and field slice {fmt(fs)} differ in length by {fmt((o.hi - o.lo) - (fs.hi - fs.lo))}',
                   f.loc(ws[0].node))
            chk.ob(clause, 'N-identity', 'field.insert', f'axis {ax} alignment [{conds_str(p)}]',
                   identity_holds(o.lo - fs.lo, ul, p.conds),
                   f'out.start - field.start = {fmt(o.lo - fs.lo)}; the upper-left corner is {fmt(ul)}',
                   f.loc(ws[0].node))
            # the written window lies inside the array: clipped to [0, out.shape[ax]] of the *same* axis
            from ..rules import literals
            lits = literals(p.conds)
            n_ax, n_other = oshape.items[ax], oshape.items[1 - ax]
            lo0 = C(0) if o.lo == NONE else o.lo

            def le_known(x, y):
                # x <= y established by a path condition (or x == y)
                if x == y:
                    return True
                return any((c == nf.app('lt', y, x) and pol is False) or (c == nf.app('le', x, y) and pol is True) for c, pol in lits)
            up = le_known(o.hi, n_ax)
            low = le_known(C(0), lo0)
            verdict, det_b = True, f'{fmt(o)} within [0, {fmt(n_ax)}]'
            if not up:
                wrong = n_other != n_ax and le_known(o.hi, n_other)
                verdict = False if wrong else None
                det_b = (f'upper bound {fmt(o.hi)[:80]} is limited by {fmt(n_other)} (the other axis), not by {fmt(n_ax)}' if wrong else
                         f'undecided: no path condition bounds {fmt(o.hi)[:80]} by {fmt(n_ax)}')
            elif not low:
                verdict, det_b = None, f'undecided: no path condition shows {fmt(lo0)[:80]} >= 0'
            chk.ob(clause, 'N-bounds', 'field.insert', f'axis {ax} window clipped to the array [{conds_str(p)}]', verdict, det_b,
                   f.loc(ws[0].node))
    if n < 2:
        raise AnalysisError('field.insert: no clipping path analysed')



def product_rules(chk, repo, clause='C06-d'):
    """Field products: scalar broadcasting (mirror-image cases) and the overlap product (C06-d; reused by C03, C07)."""
    if not repo.has_func('field._mul_broadcast'):
        return product_by_reference(chk, repo, clause)
    f, paths, _ = analyse(repo, 'field._mul_broadcast')
    ad, ao, bd, bo = S('a_data'), S('a_offset'), S('b_data'), S('b_offset')
    sw = {('sym', 'a_data'): bd, ('sym', 'b_data'): ad, ('sym', 'a_offset'): bo, ('sym', 'b_offset'): ao}
    rets = returns(paths)
    only_a = [p for p in rets if p.ret.items[0] != ad and p.ret.items[2] == bd]
    only_b = [p for p in rets if p.ret.items[2] != bd and p.ret.items[0] == ad]
    ok_a = len(only_a) == 1 and only_a[0].ret.items[1] == bo and \
        only_a[0].ret.items[0] == nf.app('broadcast_to', ad, nf.attr(bd, 'shape'))
    ok_b = len(only_b) == 1 and only_b[0].ret.items[3] == ao and \
        only_b[0].ret.items[2] == nf.app('broadcast_to', bd, nf.attr(ad, 'shape'))
    chk.ob(clause, 'N-twin', f.key, 'scalar a inherits b\'s shape and offset', ok_a, '', f.loc())
    chk.ob(clause, 'N-twin', f.key, 'scalar b inherits a\'s shape and offset', ok_b, '', f.loc())
    # the two cases are mirror images: the test that makes a "one element" is the test that makes b one
    def scalar_test(p, who):
        out = []
        from ..rules import literals
        for c, pol in literals(p.conds):
            if pol and ('sym', who) in nf.value_atoms(c) and not ('sym', 'a_data' if who == 'b_data' else 'b_data') in nf.value_atoms(c):
                out.append(c)
        return out
    ta = scalar_test(only_a[0], 'a_data') if only_a else []
    tb = scalar_test(only_b[0], 'b_data') if only_b else []
    mirror = len(ta) == 1 and len(tb) == 1 and nf.subst_value(ta[0], sw) == tb[0]
    size1 = mirror and ta[0] == nf.app('eq', nf.attr(ad, 'size'), C(1))
    chk.ob(clause, 'N-twin', f.key, 'both operands are recognised as one-element fields by the same test (size == 1)',
           bool(mirror and size1), f'a: {[fmt(t) for t in ta]}; b: {[fmt(t) for t in tb]}', f.loc())
    fm = repo.func('field.Field._mul_array')
    _, paths, _ = analyse(repo, fm)
    okm, det, nn = True, '', 0
    for p in returns(paths):
        if not p.calls('extent.intersection_slices') and not p.calls('extent.intersection_shift'):
            continue        # the non-overlapping branch
        nn += 1
        r = p.ret
        bc = [e for e in p.calls('field._mul_broadcast')]
        ex = [e for e in p.calls('extent.array_extent')]
        sl = [e for e in p.calls('extent.intersection_slices')]
        sh = [e for e in p.calls('extent.intersection_shift')]
        if len(bc) != 1 or len(ex) != 2 or len(sl) != 1 or len(sh) != 1:
            nn -= 1         # written some other way: no structural verdict (the reference comparison decides)
            continue
        B = [nf.index(bc[0].result, C(i)) for i in range(4)]
        good = ex[0].bound['shape'] == nf.attr(B[0], 'shape') and ex[0].bound['shift'] == B[1] and \
            ex[1].bound['shape'] == nf.attr(B[2], 'shape') and ex[1].bound['shift'] == B[3] and \
            sl[0].bound['a'] == ex[0].result and sl[0].bound['b'] == ex[1].result and \
            sh[0].bound['a'] == ex[0].result and sh[0].bound['b'] == ex[1].result
        data, off = r.items
        good = good and off == sh[0].result and \
            data == nf.index(B[0], nf.index(sl[0].result, C(0))) * nf.index(B[2], nf.index(sl[0].result, C(1)))
        if not good:
            okm, det = False, f'product {fmt(data)} at offset {fmt(off)} is not built from the intersection of the broadcast extents'
    chk.ob(clause, 'D-flow', fm.key, 'product = overlapping parts of the broadcast operands at the intersection shift',
           (okm and nn > 0) if nn else None, det or ('' if nn else 'the overlap is not taken through intersection_slices / '
                                                     'intersection_shift: decided by the reference comparison below'), fm.loc())
    product_by_reference(chk, repo, clause)



MUL_ARRAY_REFERENCE = """
def _mul_array(self, other):
    a_data, a_offset, b_data, b_offset = self.data, self.offset, other.data, other.offset
    if a_data.shape != b_data.shape:
        if a_data.size == 1:
            a_data = np.broadcast_to(a_data, b_data.shape)
            a_offset = b_offset
        if b_data.size == 1:
            b_data = np.broadcast_to(b_data, a_data.shape)
            b_offset = a_offset
    a_extent = lentil.extent.array_extent(a_data.shape, a_offset)
    b_extent = lentil.extent.array_extent(b_data.shape, b_offset)
    if lentil.extent.intersect(a_extent, b_extent):
        a_slice, b_slice = lentil.extent.intersection_slices(a_extent, b_extent)
        return a_data[a_slice] * b_data[b_slice], lentil.extent.intersection_shift(a_extent, b_extent)
    return [], None
"""


def product_by_reference(chk, repo, clause):
    """The broadcasting helper is gone (merged / restructured): compare the product of two fields, as a value, with the
    reference construction - a one-element operand takes the other's shape and offset, the product is taken over the
    intersection of the two extents and sits at the intersection shift, and there is no product without overlap."""
    from .common import agrees_with_reference
    from .extent_rules import extent_inline
    inl = extent_inline(repo) + [f.key for f in repo.all_functions() if f.module.name == 'field' and f.cls is None
                                 and f.name.startswith('_')]
    cls = repo.cls('field.Field')
    agrees_with_reference(chk, clause, repo, 'field.Field._mul_array', MUL_ARRAY_REFERENCE,
                          'product of two fields = reference construction', inline=inl,
                          types={('sym', 'self'): cls, ('sym', 'other'): cls})


def scalar_product_rule(chk, repo, clause='C06-d'):
    """Two one-element fields multiply only where they sit on the same sample: the offsets (lists, tuples or arrays,
    whatever the caller passed) are compared element by element with np.array_equal, not with ``==`` as a truth value."""
    f = repo.func('field.Field._mul_scalar')
    _, paths, _ = analyse(repo, f)
    so, oo = nf.attr(S('self'), 'offset'), nf.attr(S('other'), 'offset')
    tests = set()
    for p in returns(paths):
        for c, pol, _ in p.conds:
            if nf.value_atoms(c) & {so.single_atom(), oo.single_atom()}:
                tests.add(c)
    ok = bool(tests) and all(c.single_atom() is not None and is_app(c.single_atom(), ('array_equal', 'array_equiv', 'allclose'))
                            and set(map(nf.vkey, c.single_atom()[2][:2])) == {nf.vkey(so), nf.vkey(oo)} for c in tests)
    chk.ob(clause, 'T-comparison', f.key, 'the offsets of two one-element fields are compared by value (np.array_equal)',
           ok if tests else None, '; '.join(sorted(fmt(c)[:80] for c in tests)) or 'undecided: no test of the offsets found', f.loc())


def overlap_rule(chk, repo, clause='C06-f'):
    """`overlap(fields)` says whether the fields form one connected group of pixels: for two fields their extents meet; for
    more it is what is left after reducing them (a meets b, b meets c, a and c apart is still one group) - the answer
    agrees with what `reduce` returns.  Testing every pair is a different question."""
    if not repo.has_func('field.overlap'):
        return
    fo = repo.func('field.overlap')
    _, paths, _ = analyse(repo, fo)
    ok, det, n = True, '', 0
    for p in returns(paths):
        from ..rules import literals
        two = any(pol and isinstance(c, Poly) and c.single_atom() is not None and is_app(c.single_atom(), 'eq')
                  and {fmt(x) for x in c.single_atom()[2]} == {'len(fields)', '2'} for c, pol in literals(p.conds))
        seen = set()
        for v in [p.ret] + [c for c, _pol, _n in p.conds]:
            seen |= {a[1] for a in nf.value_atoms(v) if a[0] == 'app'} if isinstance(v, (Poly, Tup)) else set()
        grouped = bool(seen & {'call:field._reduce', 'call:field.reduce', 'call:field._disjoint'})
        n += 1
        if two:
            pair_ok = 'call:extent.intersect' in seen or grouped
            if not pair_ok:
                ok, det = False, f'two fields: returns {fmt(p.ret)[:80]} without comparing their extents'
        elif not grouped:
            pairwise = 'call:extent.intersect' in seen
            ok = False if pairwise else (None if ok else ok)
            det = (f'[{conds_str(p)[:60]}] returns {fmt(p.ret)[:100]}: every pair is tested, so a chain a-b-c whose ends are apart is '
                   'reported as not overlapping although reduce() merges it into one field') if pairwise else \
                f'undecided: [{conds_str(p)[:60]}] returns {fmt(p.ret)[:80]}'
    chk.ob(clause, 'D-flow', fo.key, 'overlap of more than two fields is decided by reducing them to connected groups',
           (ok and n > 0) if ok is not None else None, det or f'{n} path(s)', fo.loc())


def disjoint_rules(chk, repo):
    """reduce / _disjoint: every (transitively) overlapping group is merged (C06-f; reused by C03-c, C07-a)."""
    # ---------------------------------------------------------------- C06-f
    overlap_rule(chk, repo, 'C06-f')
    fd = repo.func('field._disjoint')
    _, paths, _ = analyse(repo, fd)
    rets = returns(paths)
    def intersect_truth(p):
        """effective truth of the intersect(...) test on path p (through not / and / or), None if not tested"""
        from ..interp import _literals
        lits = []
        for c, pol, _ in p.conds:
            _literals(c, pol, lits)
        for c, pol in lits:
            a = c.single_atom() if isinstance(c, Poly) else None
            if a is not None and is_app(a, 'call:extent.intersect'):
                return pol
        return None
    def recursive(p_):
        return isinstance(p_.ret, Poly) and p_.ret.single_atom() is not None and is_app(p_.ret.single_atom(), 'call:field._disjoint')
    inloop = [p for p in rets if intersect_truth(p) is True]
    if not inloop and any(recursive(p) for p in rets):
        # the pair test is not a branch condition of this function (a generator / next() picks the pair): the paths that
        # merge and start over are the ones that return the recursive call
        inloop = [p for p in rets if recursive(p)]
        guarded = None
    else:
        guarded = True
    final = [p for p in rets if p not in inloop]
    ok_rec = bool(inloop) and all(recursive(p) for p in inloop)
    if ok_rec and guarded is None:
        ok_rec = None
    # the merge written as a loop that runs until no pair is left (pair picked by a helper / a generator): the same steps are
    # then found in the loop body; how the pair is selected is not decided here
    body_states = []
    if not inloop:
        for p in rets:
            for lp in p.state.loops:
                for b in lp['states']:
                    evs_b = b.events[lp['n_pre_events']:]
                    if any(e.kind == 'write' and e.data.get('how') in ('method:extend',) for e in evs_b):
                        body_states.append((p, evs_b))
        if body_states:
            ok_rec = _loop_exit_is_full_scan(repo, fd)
        else:
            # neither a pair test among the branch conditions, nor a restart, nor a loop that extends a group: the merge is
            # organised in a way this rule does not follow
            ok_rec = None
    chk.ob('C06-f', 'structural', fd.key, 'an intersecting pair is merged and the scan restarts', ok_rec,
           'return inside the pair loop is the recursive call guarded by intersect(...)' if ok_rec else
           (('the merge restarts the scan; how the touching pair is selected is not a branch condition (undecided)' if inloop else
             'undecided: no pair test, restart or group extension is visible in this function') if ok_rec is None else
            ('groups are set aside by a loop whose exit is not the outcome of a scan over all pairs: a group that has grown is not '
             'tested again against the groups already set aside' if body_states else
             'the pair loop does not restart after merging an intersecting pair')), fd.loc())
    # the merged group's extent must be recomputed from the group *after* the new members joined it
    ok_ord, n_ord, det_ord = True, 0, ''
    for p, evs in [(p, p.events) for p in inloop] + body_states:
        ext = [i for i, e in enumerate(evs) if e.kind == 'write' and (e.data.get('how') == 'method:extend' or
                                                                     (e.data.get('how') == 'augassign' and e.data.get('op') == 'add'))]
        bnd = [i for i, e in enumerate(evs) if e.kind == 'call' and e.data.get('callee') == 'field.boundary']
        bres = {nf.vkey(evs[i].data.get('result')) for i in bnd}
        st = [i for i, e in enumerate(evs) if e.kind == 'write' and e.data.get('how') == 'setitem'
              and (e.data.get('key') == nf.Const('extent') or (e.data.get('value') is not None and nf.vkey(e.data.get('value')) in bres))]
        n_ord += 1
        good = len(ext) == 1 and len(bnd) == 1 and len(st) == 1 and ext[0] < bnd[0] < st[0]
        if good:
            e_ext, e_b, e_st = evs[ext[0]], evs[bnd[0]], evs[st[0]]
            arg = e_b.bound.get('fields')
            same_list = arg == e_ext.target or _list_version_of(arg, e_ext.target)
            good = same_list and e_st.data.get('value') == e_b.data.get('result')
            if not good:
                det_ord = f'boundary({fmt(arg)[:80]}) after extending {fmt(e_ext.target)[:80]}'
        elif ext and st and not bnd and _union_of_extents(evs, st) is not None:
            # no re-scan of the members: the stored extent must then be the union of the two group extents that were tested
            verdict, why = _union_of_extents(evs, st)
            det_ord = why
            ok_ord = (ok_ord and verdict) if ok_ord is not None else (False if not verdict else None)
            continue
        elif not ext or not bnd or not st:
            # one of the three steps is not visible as such on this path: no verdict
            det_ord = f'undecided: {len(ext)} group extension(s), {len(bnd)} boundary call(s), {len(st)} extent store(s) on the merging path'
            ok_ord = None if ok_ord is not False else ok_ord
            continue
        else:
            det_ord = f'{len(ext)} group extension(s), {len(bnd)} boundary call(s), {len(st)} extent store(s) on the merging path'
        ok_ord = (ok_ord and good) if ok_ord is not None else (False if not good else None)
    chk.ob('C06-f', 'D-order', fd.key, 'group extent = boundary(group) computed after the group was extended',
           (ok_ord if n_ord > 0 else None) if ok_ord is not None else None,
           det_ord or ('the extent of a merged group is not the bounding box of all its members' if n_ord else
                       'undecided: no merging path recognised'), fd.loc())
    params_ = set(fd.param_names())
    ok_fin = bool(final) and all(root_sym(p.ret) in params_ | {'fields'} or (isinstance(p.ret, Poly) and p.ret.single_atom() is not None
                                                                             and p.ret.single_atom()[0] in ('loop', 'sym')) for p in final)
    if body_states and not ok_fin:
        ok_fin = None
    chk.ob('C06-f', 'structural', fd.key, 'returns only after a full scan without intersection', ok_fin,
           '' if ok_fin else f'{len(final)} non-recursive exits', fd.loc())
    fr = repo.func('field.reduce')
    _, paths, _ = analyse(repo, fr)
    merged = single = False
    recognised = False

    def classify(v, conds):
        nonlocal merged, single, recognised
        a = v.single_atom() if isinstance(v, Poly) else None
        lens = [(c, pol) for c, pol in conds if any(is_app(x, 'len') for x in nf.value_atoms(c))]
        if len(lens) != 1:
            return
        c, pol = lens[0]
        ca = c.single_atom()
        # lt(1, len(group)) i.e. len(group) > 1
        if not (ca is not None and is_app(ca, 'lt') and ca[2][0] == C(1)):
            return
        recognised = True
        if a is not None and is_app(a, 'call:field._merge') and pol:
            merged = True
        elif a is not None and a[0] == 'idx' and a[2] == C(0) and not pol:
            single = True
    for p in returns(paths):
        for lp in [lp for lp in p.state.loops if lp['func'] == fr.key]:
            for bs, conds in zip(lp['states'], lp['conds']):
                for e in bs.events[lp['n_pre_events']:]:
                    if e.kind == 'write' and e.data.get('how') == 'method:append':
                        classify(e.data['args'][0], [(c, pl) for c, pl, _ in conds])
        ra = p.ret.single_atom() if isinstance(p.ret, Poly) else None
        if ra is not None and is_app(ra, 'listcomp'):
            ea = ra[2][0].single_atom() if isinstance(ra[2][0], Poly) else None
            if ea is not None and is_app(ea, 'ifexp') and len(ea[2]) == 3:
                # one element per group, chosen by a conditional expression
                from ..interp import canon_cond
                for val, pol in ((ea[2][1], True), (ea[2][2], False)):
                    cc, cp = canon_cond(ea[2][0], pol)
                    classify(val, [(cc, cp)])
            else:
                classify(ra[2][0], [(c, pl) for c, pl, _ in p.conds])
    okr = (merged and single) if recognised else None
    chk.ob('C06-f', 'structural', fr.key, 'groups with more than one member are merged, singletons passed through', okr,
           '', fr.loc())
    # a group is a set of fields whose bounding boxes are connected, not a set of pairwise overlapping fields: it has to be
    # summed without an overlap test between its members (the public merge(a, b) refuses non-overlapping operands)
    enforcing = []
    for p in paths:
        for e in p.events:
            if e.kind == 'call' and e.data.get('callee') == 'field.merge':
                eo = (e.data.get('bound') or {}).get('enforce_overlap')
                if eo is None or eo != FALSE:
                    enforcing.append(e.loc())
    chk.ob('C06-f', 'structural', fr.key, 'the members of a group are summed without a pairwise overlap test',
           not enforcing, (f'merge(a, b) with enforce_overlap left on at {sorted(set(enforcing))[0]}: two members of one group that do not '
                           'overlap each other (A-B-C in a row) make the reduction raise') if enforcing else
           'groups go through _merge (no overlap test)', fr.loc())
    # ... on every path: a path that hands the fields back without grouping them (an early return behind some test of
    # the whole collection) skips the merge for collections the test misjudges
    bypass = [p for p in returns(paths) if not any(is_app(a, 'call:field._reduce') for a in nf.value_atoms(p.ret))
              and not p.calls('field._reduce')]
    chk.ob('C06-f', 'structural', fr.key, 'every path returns the groups found by _reduce',
           (not bypass) if returns(paths) else None,
           '; '.join(f'returns {fmt(p.ret)[:60]} [{conds_str(p)[:80]}]' for p in bypass[:2]) or f'{len(returns(paths))} path(s)', fr.loc())
