"""C15 - spectrum integration, binning and resizing keep the spectrum well formed."""
import ast

from .. import nf
from ..nf import Poly, Tup, Const, Slice, NONE, TRUE, FALSE
from ..model import AnalysisError, dotted
from ..rules import run as analyse, returns, fmt, is_app, S, C, conds_str, seg

SPEC = 'radiometry.Spectrum'
SELF = S('self')


def sattr(name, obj=SELF):
    return (nf.attr(obj, name), nf.attr(obj, '_' + name))


def stores(path, n_pre=0):
    out = {}
    for e in path.events[n_pre:]:
        if e.kind == 'write' and e.data.get('how') == 'attrstore' and e.depth == 0 and e.target == SELF:
            out[e.data['attr']] = (e.data['value'], e)
    return out


def twin(v, mapping):
    """v with wave-like atoms replaced by their value-like twins."""
    return nf.subst_value(v, mapping)


def run(chk, repo, tier):
    from .common import no_hidden_state
    no_hidden_state(chk, repo, 'C15')
    chk.clause('C15-a', 'the grid stays strictly increasing: three validations dominate the store; every grid write goes through the setter', 5)
    chk.clause('C15-b', 'one value per wavelength: wave and value are updated together with twin right-hand sides', 6)
    chk.clause('C15-c', 'retained samples are not altered: selections / stacking of the original arrays only', 5)
    chk.clause('C15-d', 'closed ranges: crop keeps min <= w <= max, integrate selects start <= w <= end, trim keeps first..last', 5)
    chk.clause('C15-e', 'bin: one value per centre; power preservation multiplies all bins by one common factor', 3)
    chk.clause('C15-f', 'quadrature terms are the textbook trapezoid and Simpson terms over consecutive edges', 4)
    chk.not_decided += ['linearity, additivity, exactness of the quadratures', 'positivity of Simpson weights']

    cls = repo.cls(SPEC)
    # ---------------------------------------------------------------- C15-a
    setter = cls.find_setter('wave')
    if setter is None:
        raise AnalysisError('Spectrum.wave has no setter')
    _, paths, _ = analyse(repo, setter)
    val = S('value')
    checks = {
        'positive': nf.app('any', nf.app('le', val, C(0))),
        'sorted': nf.app('not', nf.app('all', nf.app('eq', nf.app('sort', val), val))),
        'unique': nf.app('any', nf.app('eq', nf.index(val, Slice(C(1), NONE)) - nf.index(val, Slice(NONE, C(-1))), C(0))),
    }
    store_paths = [p for p in paths if p.status != 'raise']
    for name, term in checks.items():
        guarded = bool(store_paths) and all(any(c == term and pol is False for c, pol, _ in p.conds) for p in store_paths)
        refused = any(p.status == 'raise' and p.exc == 'ValueError' and p.conds and p.conds[-1][0] == term and p.conds[-1][1]
                      for p in paths)
        chk.ob('C15-a', 'D-dominance', f'{SPEC}.wave#setter', f'`{name}` validation precedes the store and raises ValueError',
               guarded and refused, f'expected test {fmt(term)}', setter.loc())
    okst = all(any(e.kind == 'write' and e.data.get('attr') == '_wave' and e.data.get('value') == val for e in p.events)
               for p in store_paths)
    chk.ob('C15-a', 'D-dominance', f'{SPEC}.wave#setter', 'stores the validated array', okst and bool(store_paths), '', setter.loc())
    writers = []
    for f in repo.all_functions():
        if f.module.name != 'radiometry':
            continue
        for node in ast.walk(f.node):
            if isinstance(node, ast.Attribute) and isinstance(node.ctx, ast.Store) and node.attr == '_wave':
                writers.append((f, node))
    bad = [(f, n) for f, n in writers if not (f.is_setter and f.name == 'wave')]
    chk.ob('C15-a', 'E-who-writes', SPEC, 'only the validating setter writes the grid', not bad and bool(writers),
           '; '.join(f'{f.key} at {f.loc(n)}' for f, n in bad) or f'{len(writers)} store(s), all in the setter',
           setter.loc())

    # ------------------------------------------------------------ C15-b / c / d
    wave_t, value_t = sattr('wave'), sattr('value')
    base_map = {wave_t[0].single_atom(): value_t[0], wave_t[1].single_atom(): value_t[1]}

    def edit_paths(meth, config=None):
        f = cls.find_method(meth)
        _, pp, _ = analyse(repo, f, config=config, types={('sym', 'other'): cls})
        return f, pp

    # crop
    f, pp = edit_paths('crop')
    n_both = 0
    okb = okc = True
    detb = ''
    cmp_seen = set()
    for p in [x for x in pp if x.status != 'raise']:
        # crop assigns twice (min side, max side): compare every wave store with the value store that follows it
        evs = [e for e in p.events if e.kind == 'write' and e.data.get('how') == 'attrstore' and e.target == SELF
               and e.data.get('attr') in ('wave', 'value')]
        for i in range(0, len(evs) - 1, 2):
            w, v = evs[i], evs[i + 1]
            n_both += 1
            if w.data['attr'] != 'wave' or v.data['attr'] != 'value':
                okb, detb = False, 'wave and value are not updated pairwise'
                continue
            wa = w.data['value'].single_atom() if isinstance(w.data['value'], Poly) else None
            va = v.data['value'].single_atom() if isinstance(v.data['value'], Poly) else None
            pure = wa is not None and va is not None and is_app(wa, 'delete') and is_app(va, 'delete') and wa[2][1] == va[2][1]
            okb = okb and pure
            # the deleted index set
            if pure:
                for a in nf.value_atoms(wa[2][1]):
                    if is_app(a, ('lt', 'le')):
                        cmp_seen.add(a)
                okc = okc and _selection_of_self(wa[2][0], 'wave') and _selection_of_self(va[2][0], 'value')
        if len(evs) % 2:
            okb, detb = False, 'odd number of wave/value stores on a path'
    chk.ob('C15-b', 'D-pairing', f.key, 'wave and value deleted with the same index set', okb and n_both > 0, detb, f.loc())
    chk.ob('C15-c', 'D-selection', f.key, 'retained samples are a pure selection of the original arrays', okc and n_both > 0, '', f.loc())
    lo_ok = any(a[1] == 'lt' and _selection_of_self(a[2][0], 'wave') and a[2][1] == S('min_wave') for a in cmp_seen)
    hi_ok = any(a[1] == 'lt' and a[2][0] == S('max_wave') and _selection_of_self(a[2][1], 'wave') for a in cmp_seen)
    strict = all(a[1] == 'lt' for a in cmp_seen)
    chk.ob('C15-d', 'T-comparison', f.key, 'deletes only w < min_wave (keeps w >= min_wave)', lo_ok and strict,
           '; '.join(sorted(nf.fmt_atom(a) for a in cmp_seen)), f.loc())
    chk.ob('C15-d', 'T-comparison', f.key, 'deletes only w > max_wave (keeps w <= max_wave)', hi_ok and strict,
           '; '.join(sorted(nf.fmt_atom(a) for a in cmp_seen)), f.loc())

    # trim
    f, pp = edit_paths('trim')
    okb = okc = okd = False
    for p in [x for x in pp if x.status != 'raise']:
        st = stores(p)
        if not st:
            continue
        if set(st) != {'wave', 'value'}:
            okb = False
            break
        wv, vv = st['wave'][0], st['value'][0]
        okb = twin(wv, base_map) == vv
        wa = wv.single_atom() if isinstance(wv, Poly) else None
        okc = wa is not None and wa[0] == 'idx' and _is_self_array(Poly.atom(wa[1]), 'wave') and isinstance(wa[2], Slice)
        ends = p.calls(f'{SPEC}.ends')
        if okc and len(ends) == 1:
            s = wa[2]
            okd = s.lo == nf.index(ends[0].result, C(0)) and s.hi == nf.index(ends[0].result, C(1)) + 1
    chk.ob('C15-b', 'D-pairing', f.key, 'wave and value sliced identically', okb, '', f.loc())
    chk.ob('C15-c', 'D-selection', f.key, 'retained samples are a slice of the original arrays', okc, '', f.loc())
    chk.ob('C15-d', 'T-comparison', f.key, 'keeps index_min .. index_max inclusive', okd, '', f.loc())
    fe = cls.find_method('ends')
    _, pe, _ = analyse(repo, fe)
    oke = False
    for p in returns(pe):
        wh = [a for a in nf.value_atoms(p.ret) if is_app(a, 'where')]
        oke = bool(wh) and all(any(is_app(x, 'lt') and x[2][0] == S('tol') for x in nf.value_atoms(Poly.atom(a))) for a in wh)
    chk.ob('C15-d', 'T-comparison', fe.key, 'samples strictly above the relative tolerance', oke, '', fe.loc())

    # append
    for cfg, label in (({'copy': FALSE}, 'copy=False'), ({'copy': TRUE}, 'copy=True')):
        f, pp = edit_paths('append', cfg)
        okb = okc = False
        for p in [x for x in pp if x.status != 'raise']:
            evs = {}
            for e in p.events:
                if e.kind == 'write' and e.data.get('how') == 'attrstore' and e.data.get('attr') in ('wave', 'value') and e.depth == 0:
                    evs[e.data['attr']] = e
            if set(evs) != {'wave', 'value'}:
                continue
            tgt = evs['wave'].target
            wv, vv = evs['wave'].data['value'], evs['value'].data['value']
            m = dict(base_map)
            for nm in ('wave', '_wave'):
                m[nf.attr(S('other'), nm).single_atom()] = nf.attr(S('other'), nm.replace('wave', 'value'))
                m[nf.attr(tgt, nm).single_atom()] = nf.attr(tgt, nm.replace('wave', 'value'))
            okb = twin(wv, m) == vv and evs['value'].target == tgt
            wa = wv.single_atom() if isinstance(wv, Poly) else None
            okc = wa is not None and is_app(wa, 'append') and len(wa[2]) == 2 and \
                wa[2][0] in (nf.attr(tgt, 'wave'), nf.attr(tgt, '_wave')) and wa[2][1] in sattr('wave', S('other'))
        chk.ob('C15-b', 'D-pairing', f.key, f'wave and value appended together [{label}]', okb, '', f.loc())
        chk.ob('C15-c', 'D-selection', f.key, f'original samples kept in front, the other spectrum\'s behind [{label}]', okc, '', f.loc())

    # pad
    f, pp = edit_paths('pad', {'mode': Const('constant')})
    okb = okc = False
    for p in [x for x in pp if x.status != 'raise']:
        st = stores(p)
        if set(st) != {'wave', 'value'}:
            continue
        wa = st['wave'][0].single_atom() if isinstance(st['wave'][0], Poly) else None
        va = st['value'][0].single_atom() if isinstance(st['value'][0], Poly) else None
        if wa is None or va is None or not is_app(wa, 'hstack') or not is_app(va, 'hstack'):
            continue
        wt, vt = wa[2][0], va[2][0]
        if not (isinstance(wt, Tup) and isinstance(vt, Tup) and len(wt) == 3 and len(vt) == 3):
            continue
        okc = _is_self_array(wt.items[1], 'wave') and _is_self_array(vt.items[1], 'value')
        okb = True
        for k in (0, 2):
            lv = vt.items[k]
            if isinstance(lv, Poly) and lv.is_zero():
                continue        # 0 * ones(shape) folds to 0 in the normal form
            ones = [a for a in nf.value_atoms(lv) if is_app(a, 'ones')]
            okb = okb and len(ones) == 1 and ones[0][2][0] == nf.attr(wt.items[k], 'shape')
    chk.ob('C15-b', 'D-pairing', f.key, 'padding values have the shape of the padding wavelengths', okb, '', f.loc())
    chk.ob('C15-c', 'D-selection', f.key, 'the original arrays sit unmodified in the middle', okc, '', f.loc())

    # resample
    f, pp = edit_paths('resample')
    okb = False
    for p in [x for x in pp if x.status != 'raise']:
        st = stores(p)
        smp = p.calls(f'{SPEC}.sample')
        okb = set(st) >= {'wave', 'value', 'waveunit'} and len(smp) == 1 and st['value'][0] == smp[0].result and \
            st['wave'][0] == S('wave') and smp[0].bound.get('wave') == S('wave') and \
            smp[0].bound.get('waveunit') == S('waveunit') and st['waveunit'][0] == S('waveunit')
    chk.ob('C15-b', 'D-pairing', f.key, 'values sampled at exactly the new grid, in the new unit', okb, '', f.loc())

    # integrate
    fi = cls.find_method('integrate')
    _, pi_, _ = analyse(repo, fi, config={'start': S('start'), 'end': S('end')})
    sel = set()
    for p in returns(pi_):
        if any(pol and fmt(c) in ('is(start, (None))', 'is(end, (None))') for c, pol, _ in p.conds):
            continue
        for a in nf.value_atoms(p.ret):
            if is_app(a, ('lt', 'le')):
                sel.add(a)
    lo = any(a[1] == 'le' and a[2][0] == S('start') and _is_self_array(a[2][1], 'wave') for a in sel)
    hi = any(a[1] == 'le' and _is_self_array(a[2][0], 'wave') and a[2][1] == S('end') for a in sel)
    chk.ob('C15-d', 'T-comparison', fi.key, 'selects start <= w <= end (closed on both sides)', lo and hi and len(sel) == 2,
           '; '.join(sorted(nf.fmt_atom(a) for a in sel)), fi.loc())

    # ------------------------------------------------------------ C15-e / f
    fb = cls.find_method('bin')
    for method, label in (('trapz', 'trapezoid'), ('simps', 'Simpson')):
        _, pb, _ = analyse(repo, fb, config={'interp_method': Const(method), 'preserve_power': TRUE,
                                             'waveunit': nf.attr(SELF, 'waveunit')})
        rets = returns(pb)
        if not rets:
            raise AnalysisError(f'Spectrum.bin({method}): no returning path')
        okq = okl = okp = True
        n = 0
        for p in rets:
            lps = [lp for lp in p.state.loops if lp['func'] == fb.key]
            if len(lps) != 1:
                okq = False
                continue
            lp = lps[0]
            n += 1
            it = lp['iter'].single_atom() if isinstance(lp['iter'], Poly) else None
            ends = lp['ends']
            phi = lp['phi'].get('bins')
            smp = [e for e in p.calls(f'{SPEC}.sample')]
            if len(ends) != 1 or phi is None or len(smp) != 1:
                okq = False
                continue
            end = ends[0].get('bins')
            ea = end.single_atom() if isinstance(end, Poly) else None
            if ea is None or not is_app(ea, 'append') or ea[2][0] != phi:
                okq = False
                continue
            term = ea[2][1]
            k = [a for a in nf.value_atoms(term) if a[0] == 'iter']
            if not k:
                okq = False
                continue
            kk = Poly.atom(k[0])
            fx = smp[0].result
            xx = smp[0].bound.get('wave')
            F = lambda i: nf.index(fx, i)
            X = lambda i: nf.index(xx, i)
            if method == 'trapz':
                want = Poly.const(1) / 2 * (F(kk - 1) + F(kk)) * (X(kk) - X(kk - 1))
                want_iter = ('range', (C(1), nf.attr(fx, 'size')))
            else:
                want = (X(kk + 1) - X(kk - 1)) / 6 * (F(kk - 1) + 4 * F(kk) + F(kk + 1))
                want_iter = ('range', (C(1), nf.attr(xx, 'size'), C(2)))
            okq = okq and term == want
            okl = okl and it is not None and is_app(it, 'range') and tuple(it[2]) == want_iter[1]
            # power preservation: bins * integrate(min, max)/sum(bins)
            ig = p.calls(f'{SPEC}.integrate')
            out = Poly.atom(('loop', phi.single_atom()[1], 'out'))
            okp = okp and len(ig) == 1 and p.ret == out * ig[0].result / nf.app('sum', out) and \
                ig[0].bound.get('method') == Const(method)
        chk.ob('C15-f', 'N-formula', fb.key, f'{label} term over consecutive edges', okq and n > 0, '', fb.loc())
        chk.ob('C15-f', 'N-formula', fb.key, f'{label} loop visits every bin once (stride {"1" if method == "trapz" else "2"})',
               okl and n > 0, '', fb.loc())
        chk.ob('C15-e', 'N-identity', fb.key, f'power preservation rescales all bins by integrate(min, max)/sum(bins) [{label}]',
               okp and n > 0, '', fb.loc())
    # bin edges: midpoints between centres; end treatment symmetric (half a step outwards) or inside (the end centres)
    wv = S('wave')
    dx = nf.app('diff', wv) / 2
    mid = nf.index(wv, Slice(C(0), C(-1))) + dx
    first, last = nf.index(wv, C(0)), nf.index(wv, C(-1))
    for ends_cfg, label, lo_e, hi_e in ((Const('symmetric'), 'symmetric', first - nf.index(dx, C(0)), last + nf.index(dx, C(-1))),
                                        (Const('inside'), 'inside', first, last)):
        _, pe, _ = analyse(repo, fb, config={'interp_method': Const('trapz'), 'ends': ends_cfg, 'preserve_power': FALSE,
                                             'waveunit': nf.attr(SELF, 'waveunit')})
        oke, det = False, ''
        for p in returns(pe):
            smp = p.calls(f'{SPEC}.sample')
            if len(smp) != 1:
                continue
            x = smp[0].bound.get('wave')
            want = nf.app('concatenate', Tup([Tup([lo_e], 'list'), mid, Tup([hi_e], 'list')], 'list'))
            oke = x == want
            det = f'edges = {fmt(x)[:220]}'
        chk.ob('C15-f', 'N-formula', fb.key, f'trapezoid bin edges are the midpoints, ends={label}', oke, det, fb.loc())
    _, pb, _ = analyse(repo, fb, config={'interp_method': Const('trapz'), 'preserve_power': FALSE,
                                         'waveunit': nf.attr(SELF, 'waveunit')})
    okn = all(isinstance(p.ret, Poly) and p.ret.single_atom() is not None and p.ret.single_atom()[0] == 'loop'
              for p in returns(pb)) and bool(returns(pb))
    chk.ob('C15-e', 'N-identity', fb.key, 'without power preservation the quadrature values are returned as they are', okn, '', fb.loc())


def _selection_of_self(v, name):
    """self.<name> or a delete(...) selection of it (crop deletes on both sides)."""
    while isinstance(v, Poly) and v.single_atom() is not None and is_app(v.single_atom(), 'delete'):
        v = v.single_atom()[2][0]
    return _is_self_array(v, name)


def _is_self_array(v, name):
    return isinstance(v, Poly) and v in sattr(name)
