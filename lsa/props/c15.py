"""C15 - spectrum integration, binning and resizing keep the spectrum well formed."""
from fractions import Fraction
import ast

from .. import nf
from ..nf import Poly, Tup, Const, Slice, NONE, TRUE, FALSE
from ..model import AnalysisError, dotted
from ..rules import run as analyse, returns, fmt, is_app, S, C, conds_str, seg

SPEC = 'radiometry.Spectrum'
SELF = S('self')


def sattr(name, obj=SELF):
    return (nf.attr(obj, name), nf.attr(obj, '_' + name))


def stores(path, n_pre=0):
    out = {}
    for e in path.events[n_pre:]:
        if e.kind == 'write' and e.data.get('how') == 'attrstore' and e.depth == 0 and e.target == SELF:
            # the backing attribute of a trivial setter (_value for value, _waveunit for waveunit) is the same store; the
            # wavelength grid is different: only the `wave` setter validates it (C15-a decides that one)
            name = e.data['attr']
            if name in ('_value', '_waveunit', '_valueunit'):
                name = name[1:]
            out[name] = (e.data['value'], e)
    return out


def _unit_of(v, want):
    """the stored unit is `want`: the name itself (through the setter) or Unit(want)"""
    if v == want:
        return True
    a = v.single_atom() if isinstance(v, Poly) else None
    if a is not None and is_app(a, 'call:radiometry.Unit'):
        return dict((k.items[0].value, k.items[1]) for k in a[2]).get('name') == want
    return False


def twin(v, mapping):
    """v with wave-like atoms replaced by their value-like twins."""
    return nf.subst_value(v, mapping)


def run(chk, repo, tier):
    from .common import no_hidden_state
    no_hidden_state(chk, repo, 'C15')
    chk.clause('C15-o', 'sampling, integrating and binning leave the spectrum untouched', 3)
    from .common import operands_untouched
    operands_untouched(chk, repo, 'C15-o', ['radiometry.Spectrum.sample', 'radiometry.Spectrum.integrate', 'radiometry.Spectrum.bin', 'radiometry.Spectrum.ends'], allow=[])
    # bin / sample / resample in another wavelength unit work on a converted copy: the factors between units
    from . import c14 as _c14_15
    from .common import Remap as _Remap15
    from ..resilient import run_nested as _run_nested15
    nd15 = list(chk.not_decided)
    _run_nested15(_c14_15, _Remap15(chk, {'C14-a': 'C15-c', 'C14-c': 'C15-c'}), repo, tier, 'wave_unit_rules')
    chk.not_decided[:] = nd15
    chk.clause('C15-a', 'the grid stays strictly increasing: three validations dominate the store; every grid write goes through the setter', 5)
    chk.clause('C15-b', 'one value per wavelength: wave and value are updated together with twin right-hand sides', 6)
    chk.clause('C15-c', 'retained samples are not altered: selections / stacking of the original arrays only', 5)
    chk.clause('C15-d', 'closed ranges: crop keeps min <= w <= max, integrate selects start <= w <= end, trim keeps first..last', 5)
    chk.clause('C15-e', 'bin: one value per centre; power preservation multiplies all bins by one common factor', 3)
    chk.clause('C15-g', 'bin edges keep their fractional part whatever the element type of the requested centres', 2)
    chk.clause('C15-f', 'quadrature terms are the textbook trapezoid and Simpson terms over consecutive edges', 4)
    chk.not_decided += ['linearity, additivity, exactness of the quadratures', 'positivity of Simpson weights']

    from .common import self_delegation_forwards
    self_delegation_forwards(chk, repo, 'C15-e', [f'{SPEC}.bin'])
    sample_keyword_rule(chk, repo, 'C15-e')
    # both quadrature branches of bin sample the edges with the caller's interpolation options: an option that one branch
    # forwards and the other leaves to sample()'s default makes the two rules disagree beyond the data range
    fb_ = repo.func(f'{SPEC}.bin')
    opts_ = [o for o in ('fill_value', 'waveunit') if o in fb_.param_names()]
    dropped, ns_ = [], 0
    for n_ in ast.walk(fb_.node):
        if isinstance(n_, ast.Call) and isinstance(n_.func, ast.Attribute) and n_.func.attr == 'sample' and \
                isinstance(n_.func.value, ast.Name) and n_.func.value.id == 'self':
            ns_ += 1
            if any(k.arg is None for k in n_.keywords):
                continue
            given_ = {k.arg for k in n_.keywords}
            for o in opts_:
                if o not in given_ and len(n_.args) < 2:
                    dropped.append(f'`{o}` is not handed to self.sample at {fb_.loc(n_)}')
    chk.ob('C15-e', 'N-sibling', fb_.key, 'every sample() call of bin forwards fill_value and waveunit', (not dropped) if ns_ else None,
           '; '.join(dropped[:2]), fb_.loc())
    cls = repo.cls(SPEC)
    # ---------------------------------------------------------------- C15-a
    setter = cls.find_setter('wave')
    if setter is None:
        raise AnalysisError('Spectrum.wave has no setter')
    _, paths, _ = analyse(repo, setter)
    val = S(setter.params()[1][0]) if len(setter.params()) > 1 else S('value')      # whatever the setter calls its argument
    step = nf.index(val, Slice(C(1), NONE)) - nf.index(val, Slice(NONE, C(-1)))
    # each validation, in the equivalent ways it can be written (the condition under which the setter refuses)
    checks = {
        'positive': [nf.app('any', nf.app('le', val, C(0))), nf.app('not', nf.app('all', nf.app('lt', C(0), val)))],
        'sorted': [nf.app('not', nf.app('all', nf.app('eq', nf.app('sort', val), val))),
                   nf.app('any', nf.app('ne', nf.app('sort', val), val))],
        'unique': [nf.app('any', nf.app('eq', step, C(0))), nf.app('not', nf.app('all', nf.app('ne', step, C(0)))),
                   nf.app('any', nf.app('eq', nf.app('diff', val), C(0))),
                   # a step counts as true exactly when it is not zero
                   nf.app('not', nf.app('all', step)), nf.app('not', nf.app('all', nf.app('diff', val)))],
    }
    store_paths = [p for p in paths if p.status != 'raise']
    from ..interp import canon_cond
    for name, forms in checks.items():
        verdict = False
        for term0 in forms:
            term, taken = canon_cond(term0, True)       # recorded conditions are canonical (`not x` taken = `x` not taken)
            guarded = bool(store_paths) and all(any(c == term and pol is (not taken) for c, pol, _ in p.conds) for p in store_paths)
            refused = any(p.status == 'raise' and p.exc == 'ValueError' and p.conds and p.conds[-1][0] == term
                          and p.conds[-1][1] is taken for p in paths)
            verdict = verdict or (guarded and refused)
        chk.ob('C15-a', 'D-dominance', f'{SPEC}.wave#setter', f'`{name}` validation precedes the store and raises ValueError',
               verdict, f'expected test {fmt(forms[0])}', setter.loc())
    okst = all(any(e.kind == 'write' and e.data.get('attr') == '_wave' and e.data.get('value') == val for e in p.events)
               for p in store_paths)
    chk.ob('C15-a', 'D-dominance', f'{SPEC}.wave#setter', 'stores the validated array', okst and bool(store_paths), '', setter.loc())
    writers = []
    for f in repo.all_functions():
        if f.module.name != 'radiometry':
            continue
        for node in ast.walk(f.node):
            if isinstance(node, ast.Attribute) and isinstance(node.ctx, ast.Store) and node.attr == '_wave':
                writers.append((f, node))
    # ... and nobody writes *into* the stored grid or values (x._wave[...] = ..., x.wave[k] = ..., in-place operators): that
    # by-passes the validation, and the arrays are shared with the caller and with spectra derived from this one
    for f in repo.all_functions():
        if f.module.name != 'radiometry':
            continue
        for node in ast.walk(f.node):
            tgt = None
            if isinstance(node, ast.Assign):
                tgt = [t for t in node.targets if isinstance(t, ast.Subscript)]
            elif isinstance(node, ast.AugAssign) and isinstance(node.target, ast.Subscript):
                tgt = [node.target]
            for t in tgt or []:
                base = t.value
                if isinstance(base, ast.Attribute) and base.attr in ('_wave', 'wave', '_value', 'value') and \
                        isinstance(base.value, ast.Name) and base.value.id in ('self', 'spectrum', 'new', 'other'):
                    writers.append((f, t))
    spectrum_storage_rules(chk, repo, 'C15-a')
    bad = [(f, n) for f, n in writers if not (f.is_setter and f.name == 'wave' and isinstance(n, ast.Attribute))]
    chk.ob('C15-a', 'E-who-writes', SPEC, 'only the validating setter writes the grid', not bad and bool(writers),
           '; '.join(f'{f.key} at {f.loc(n)}' for f, n in bad) or f'{len(writers)} store(s), all in the setter',
           setter.loc())

    # ------------------------------------------------------------ C15-b / c / d
    wave_t, value_t = sattr('wave'), sattr('value')
    base_map = {wave_t[0].single_atom(): value_t[0], wave_t[1].single_atom(): value_t[1]}

    def edit_paths(meth, config=None, **kw):
        f = cls.find_method(meth)
        _, pp, _ = analyse(repo, f, config=config, types={('sym', 'other'): cls}, **kw)
        return f, pp

    # crop
    f, pp = edit_paths('crop', unroll=True)       # the two limits may be rows of a table walked by a loop
    n_both = 0
    okb = okc = True
    detb = ''
    cmp_seen = set()
    keep_seen = set()
    for p in [x for x in pp if x.status != 'raise']:
        # crop assigns twice (min side, max side): compare every wave store with the value store that follows it
        evs = [e for e in p.events if e.kind == 'write' and e.data.get('how') == 'attrstore' and e.target == SELF
               and e.data.get('attr') in ('wave', 'value')]
        for i in range(0, len(evs) - 1, 2):
            w, v = evs[i], evs[i + 1]
            n_both += 1
            if w.data['attr'] != 'wave' or v.data['attr'] != 'value':
                okb, detb = False, 'wave and value are not updated pairwise'
                continue
            wa = w.data['value'].single_atom() if isinstance(w.data['value'], Poly) else None
            va = v.data['value'].single_atom() if isinstance(v.data['value'], Poly) else None
            pure = wa is not None and va is not None and is_app(wa, 'delete') and is_app(va, 'delete') and wa[2][1] == va[2][1]
            kept = wa is not None and va is not None and wa[0] == 'idx' and va[0] == 'idx' and wa[2] == va[2] and \
                not isinstance(wa[2], (Slice, Tup))
            okb = okb and (pure or kept)
            # the deleted index set
            if pure:
                for a in nf.value_atoms(wa[2][1]):
                    if is_app(a, ('lt', 'le')):
                        cmp_seen.add(a)
                okc = okc and _selection_of_self(wa[2][0], 'wave') and _selection_of_self(va[2][0], 'value')
            elif kept:
                # the same written as a keep mask: x[wave >= min_wave], x[wave <= max_wave]
                negated = set()
                for a in nf.value_atoms(wa[2]):
                    # ~(w < lo) keeps what `lo <= w` keeps (the wavelengths are validated numbers)
                    if is_app(a, ('invert', 'logical_not', 'not')) and isinstance(a[2][0], Poly) and a[2][0].single_atom() is not None \
                            and is_app(a[2][0].single_atom(), ('lt', 'le')):
                        inner = a[2][0].single_atom()
                        negated.add(inner)
                        keep_seen.add(('app', 'le' if inner[1] == 'lt' else 'lt', (inner[2][1], inner[2][0])))
                for a in nf.value_atoms(wa[2]):
                    if is_app(a, ('lt', 'le')) and a not in negated:
                        keep_seen.add(a)
                okc = okc and _selection_of_self(Poly.atom(wa[1]), 'wave') and _selection_of_self(Poly.atom(va[1]), 'value')
        if len(evs) % 2:
            okb, detb = False, 'odd number of wave/value stores on a path'
    # the two bounds are applied independently: when both fall inside the grid both ends are cut in one call
    most = max([len([e for e in p.events if e.kind == 'write' and e.data.get('how') == 'attrstore' and e.target == SELF
                     and e.data.get('attr') == 'wave']) for p in pp if p.status != 'raise'] or [0])
    chk.ob('C15-d', 'D-guard', f.key, 'a crop with both bounds inside the grid cuts both ends', most >= 2 if n_both else None,
           '' if most >= 2 else 'no path applies the lower and the upper cut: the upper bound is skipped whenever the lower one removed samples',
           f.loc())
    chk.ob('C15-b', 'D-pairing', f.key, 'wave and value deleted with the same index set', okb and n_both > 0, detb, f.loc())
    chk.ob('C15-c', 'D-selection', f.key, 'retained samples are a pure selection of the original arrays', okc and n_both > 0, '', f.loc())
    lo_ok = any(a[1] == 'lt' and _selection_of_self(a[2][0], 'wave') and a[2][1] == S('min_wave') for a in cmp_seen) or \
        any(a[1] == 'le' and a[2][0] == S('min_wave') and _selection_of_self(a[2][1], 'wave') for a in keep_seen)
    hi_ok = any(a[1] == 'lt' and a[2][0] == S('max_wave') and _selection_of_self(a[2][1], 'wave') for a in cmp_seen) or \
        any(a[1] == 'le' and _selection_of_self(a[2][0], 'wave') and a[2][1] == S('max_wave') for a in keep_seen)
    strict = all(a[1] == 'lt' for a in cmp_seen) and all(a[1] == 'le' for a in keep_seen)
    chk.ob('C15-d', 'T-comparison', f.key, 'deletes only w < min_wave (keeps w >= min_wave)', lo_ok and strict,
           '; '.join(sorted(nf.fmt_atom(a) for a in cmp_seen)), f.loc())
    chk.ob('C15-d', 'T-comparison', f.key, 'deletes only w > max_wave (keeps w <= max_wave)', hi_ok and strict,
           '; '.join(sorted(nf.fmt_atom(a) for a in cmp_seen | keep_seen)), f.loc())

    # trim
    # what trim cuts at: the first and the last sample above `tol` times the PEAK value (the documented meaning of tol) - relative
    # to any other scale (the total, the mean) the kept range depends on how finely the spectrum is sampled
    fe_, pe_, _ = analyse(repo, f'{SPEC}.ends')
    oke_, dete_, ne_ = None, '', 0
    for p in returns(pe_):
        for a in nf.value_atoms(p.ret):
            if not is_app(a, ('lt', 'le')) or len(a[2]) != 2:
                continue
            side = [x for x in a[2] if isinstance(x, Poly) and any(y in sattr('value')[0].atoms() | sattr('value')[-1].atoms()
                                                                     for y in nf.value_atoms(x))]
            if len(side) != 1:
                continue
            ne_ += 1
            v_ = side[0]
            peak = [nf.app(fn, sv) for fn in ('amax', 'max', 'm:max') for sv in sattr('value')]
            if any(v_ == sv * pk.pow(-1) for sv in sattr('value') for pk in peak):
                oke_ = True if oke_ is None else oke_
            elif any(is_app(y, ('sum', 'm:sum', 'mean', 'm:mean', 'median', 'trapz', 'numpy.trapz', 'linalg.norm'))
                     for y in nf.value_atoms(v_)):
                oke_, dete_ = False, f'the values are compared as {fmt(v_)[:100]}'
    chk.ob('C15-d', 'N-formula', fe_.key, 'the ends are where the values exceed tol times the peak value', oke_ if ne_ else None,
           dete_, fe_.loc())
    f, pp = edit_paths('trim')
    okb = okc = okd = False
    for p in [x for x in pp if x.status != 'raise']:
        st = stores(p)
        if not st:
            continue
        if set(st) != {'wave', 'value'}:
            okb = False
            break
        wv, vv = st['wave'][0], st['value'][0]
        okb = twin(wv, base_map) == vv
        wa = wv.single_atom() if isinstance(wv, Poly) else None
        okc = wa is not None and wa[0] == 'idx' and _is_self_array(Poly.atom(wa[1]), 'wave') and isinstance(wa[2], Slice)
        ends = p.calls(f'{SPEC}.ends')
        if okc and len(ends) == 1:
            s = wa[2]
            okd = s.lo == nf.index(ends[0].result, C(0)) and s.hi == nf.index(ends[0].result, C(1)) + 1
    # a spectrum is left as it is only when there is nothing to trim: all values zero (documented), or both end indices
    # already at the ends of the array
    skip_bad, n_skip = [], 0
    for p in [x for x in pp if x.status != 'raise']:
        if stores(p):
            continue
        n_skip += 1
        from ..rules import literals
        lits = literals(p.conds)
        allzero = any(not pol and any(is_app(a, ('any', 'm:any', 'count_nonzero')) for a in nf.value_atoms(c)) for c, pol in lits) or \
            any(pol and any(is_app(a, ('all', 'm:all')) for a in nf.value_atoms(c)) for c, pol in lits)
        if allzero:
            continue
        ends_ = p.calls(f'{SPEC}.ends')
        if len(ends_) != 1:
            skip_bad.append(f'returns unchanged when {conds_str(p)[:100]}')
            continue
        lo_i, hi_i = nf.index(ends_[0].result, C(0)), nf.index(ends_[0].result, C(1))
        has_lo = any(pol and is_app(c.single_atom() or ('x',), 'eq') and {nf.vkey(x) for x in c.single_atom()[2]} == {nf.vkey(lo_i), nf.vkey(C(0))}
                     for c, pol in lits if isinstance(c, Poly))
        has_hi = any(pol and is_app(c.single_atom() or ('x',), 'eq') and nf.vkey(hi_i) in {nf.vkey(x) for x in c.single_atom()[2]}
                     for c, pol in lits if isinstance(c, Poly))
        if not (has_lo and has_hi):
            skip_bad.append(f'returns without trimming when {conds_str(p)[-120:]}: that does not say that both ends are already tight')
    chk.ob('C15-d', 'D-guard', f.key, 'the spectrum is left untrimmed only when both ends are tight already (or all values are zero)',
           (not skip_bad) if n_skip else None, '; '.join(skip_bad[:2]) or f'{n_skip} untouched path(s)', f.loc())
    chk.ob('C15-b', 'D-pairing', f.key, 'wave and value sliced identically', okb, '', f.loc())
    chk.ob('C15-c', 'D-selection', f.key, 'retained samples are a slice of the original arrays', okc, '', f.loc())
    chk.ob('C15-d', 'T-comparison', f.key, 'keeps index_min .. index_max inclusive', okd, '', f.loc())
    fe = cls.find_method('ends')
    _, pe, _ = analyse(repo, fe)
    oke = False
    for p in returns(pe):
        # the selection the end indices are taken from: every comparison against tol is `tol < value/peak`
        sel = [a for a in nf.value_atoms(p.ret) if is_app(a, ('nonzero', 'where', 'argwhere'))]
        cmps = [x for x in nf.value_atoms(p.ret) if is_app(x, ('lt', 'le', 'eq', 'ne')) and ('sym', 'tol') in nf.value_atoms(Poly.atom(x))]
        oke = bool(sel) and bool(cmps) and all(x[1] == 'lt' and x[2][0] == S('tol') for x in cmps)
        # ... of the values themselves relative to their maximum (magnitudes instead of values keep negative end samples)
        if oke:
            vals = {nf.attr(SELF, 'value'), nf.attr(SELF, '_value')}
            norm = {v / nf.app(mx, v) for v in vals for mx in ('max', 'amax')}
            if not all(x[2][1] in norm for x in cmps):
                oke = False if any(is_app(y, ('abs', 'absolute', 'fabs')) for x in cmps for y in nf.value_atoms(x[2][1])) else None
    chk.ob('C15-d', 'T-comparison', fe.key, 'samples strictly above the relative tolerance', oke, '', fe.loc())

    # append
    for cfg, label in (({'copy': FALSE}, 'copy=False'), ({'copy': TRUE}, 'copy=True')):
        f, pp = edit_paths('append', cfg)
        okb = okc = False
        for p in [x for x in pp if x.status != 'raise']:
            evs = {}
            for e in p.events:
                if e.kind == 'write' and e.data.get('how') == 'attrstore' and e.data.get('attr') in ('wave', 'value') and e.depth == 0:
                    evs[e.data['attr']] = e
            if set(evs) != {'wave', 'value'}:
                continue
            tgt = evs['wave'].target
            wv, vv = evs['wave'].data['value'], evs['value'].data['value']
            m = dict(base_map)
            for nm in ('wave', '_wave'):
                m[nf.attr(S('other'), nm).single_atom()] = nf.attr(S('other'), nm.replace('wave', 'value'))
                m[nf.attr(tgt, nm).single_atom()] = nf.attr(tgt, nm.replace('wave', 'value'))
            okb = twin(wv, m) == vv and evs['value'].target == tgt
            wa = wv.single_atom() if isinstance(wv, Poly) else None
            okc = wa is not None and is_app(wa, 'append') and len(wa[2]) == 2 and \
                wa[2][0] in (nf.attr(tgt, 'wave'), nf.attr(tgt, '_wave')) and wa[2][1] in sattr('wave', S('other'))
        chk.ob('C15-b', 'D-pairing', f.key, f'wave and value appended together [{label}]', okb, '', f.loc())
        # the grid goes through its validating setter first: a refused grid (interleaving wavelengths) leaves the spectrum as it
        # was instead of with more values than wavelengths
        order_ok = None
        for p in [x for x in pp if x.status != 'raise']:
            idx = {}
            for i_, e in enumerate(p.events):
                if e.kind == 'write' and e.data.get('how') == 'attrstore' and e.data.get('attr') in ('wave', 'value') and e.depth == 0:
                    idx.setdefault(e.data['attr'], i_)
            if set(idx) == {'wave', 'value'}:
                order_ok = (idx['wave'] < idx['value']) if order_ok in (None, True) else order_ok
        chk.ob('C15-b', 'D-order', f.key, f'the validated grid is stored before the values [{label}]', order_ok,
               '' if order_ok else 'the values are replaced before the wave setter has accepted the new grid', f.loc())
        chk.ob('C15-c', 'D-selection', f.key, f'original samples kept in front, the other spectrum\'s behind [{label}]', okc, '', f.loc())

    # pad
    f, pp = edit_paths('pad', {'mode': Const('constant')})
    okb = okc = False
    for p in [x for x in pp if x.status != 'raise']:
        st = stores(p)
        if set(st) != {'wave', 'value'}:
            continue
        wa = st['wave'][0].single_atom() if isinstance(st['wave'][0], Poly) else None
        va = st['value'][0].single_atom() if isinstance(st['value'][0], Poly) else None
        joined = ('hstack', 'concatenate', 'r_')
        if wa is None or va is None or not is_app(wa, joined) or not is_app(va, joined) or len(wa[2]) != 1 or len(va[2]) != 1:
            continue
        wt, vt = wa[2][0], va[2][0]
        if not (isinstance(wt, Tup) and isinstance(vt, Tup) and len(wt) == 3 and len(vt) == 3):
            continue
        okc = _is_self_array(wt.items[1], 'wave') and _is_self_array(vt.items[1], 'value')
        okb = True
        for k in (0, 2):
            lv = vt.items[k]
            if isinstance(lv, Poly) and lv.is_zero():
                continue        # 0 * ones(shape) folds to 0 in the normal form
            ones = [a for a in nf.value_atoms(lv) if is_app(a, 'ones')]
            okb = okb and len(ones) == 1 and ones[0][2][0] == nf.attr(wt.items[k], 'shape')
    chk.ob('C15-b', 'D-pairing', f.key, 'padding values have the shape of the padding wavelengths', okb, '', f.loc())
    chk.ob('C15-c', 'D-selection', f.key, 'the original arrays sit unmodified in the middle', okc, '', f.loc())

    # resample
    f, pp = edit_paths('resample')
    okb = False
    for p in [x for x in pp if x.status != 'raise']:
        st = stores(p)
        smp = p.calls(f'{SPEC}.sample')
        okb = set(st) >= {'wave', 'value', 'waveunit'} and len(smp) == 1 and nf.strip_apps(st['value'][0], ('asarray', 'copy')) == smp[0].result and \
            st['wave'][0] == S('wave') and smp[0].bound.get('wave') == S('wave') and \
            smp[0].bound.get('waveunit') == S('waveunit') and _unit_of(st['waveunit'][0], S('waveunit'))
    chk.ob('C15-b', 'D-pairing', f.key, 'values sampled at exactly the new grid, in the new unit', okb, '', f.loc())
    # ... from the spectrum as it was: sample() converts the stored grid from the unit the spectrum is labelled with, so the
    # grid, the values and the label may only be replaced after the samples were taken
    early, n_ord = [], 0
    for p in [x for x in pp if x.status != 'raise']:
        evs = p.events
        smp_i = [i for i, e in enumerate(evs) if e.kind == 'call' and e.data.get('callee') == f'{SPEC}.sample' and e.depth == 0]
        if not smp_i:
            continue
        n_ord += 1
        for i, e in enumerate(evs):
            if e.kind == 'write' and e.data.get('how') == 'attrstore' and e.depth == 0 and \
                    e.data.get('attr') in ('wave', '_wave', 'value', '_value', 'waveunit', '_waveunit') and i < smp_i[0]:
                early.append(f'{e.data.get("attr")} is replaced at {e.loc()} before the samples are taken')
    chk.ob('C15-b', 'D-order', f.key, 'the samples are taken before the grid, the values or the unit label are replaced',
           (not early) if n_ord else None, '; '.join(sorted(set(early))[:2]) or f'{n_ord} path(s)', f.loc())

    integrate_selection_rule(chk, repo, 'C15-d')

    # pad: every appended wavelength gets exactly one appended value
    fpad = cls.find_method('pad')
    _, ppaths, _ = analyse(repo, fpad)
    okpad, npad, detpad = True, 0, ''
    okgrid, detgrid = True, ''
    for p in [x for x in ppaths if x.status != 'raise']:
        st = stores(p)
        if not ({'wave', 'value'} <= set(st)):
            continue
        wv, vv = st['wave'][0], st['value'][0]
        wa, va = (wv.single_atom() if isinstance(wv, Poly) else None), (vv.single_atom() if isinstance(vv, Poly) else None)
        if not (wa is not None and va is not None and is_app(wa, ('hstack', 'concatenate')) and is_app(va, ('hstack', 'concatenate'))
                and isinstance(wa[2][0], Tup) and isinstance(va[2][0], Tup) and len(wa[2][0]) == len(va[2][0]) == 3):
            continue
        npad += 1
        for k in (0, 2):
            wpiece, vpiece = wa[2][0].items[k], va[2][0].items[k]
            if isinstance(vpiece, Poly) and vpiece.const_value() is not None:
                continue            # a constant pad value of 0 folds the sizing array away on this path
            ones = [a for a in nf.value_atoms(vpiece) if is_app(a, ('ones', 'full', 'ones_like', 'full_like', 'zeros'))]
            same = False
            for o in ones:
                arg = o[2][0]
                same = same or arg == nf.attr(wpiece, 'shape') or arg == nf.attr(wpiece, 'size') or arg == wpiece
            if not same:
                okpad, detpad = False, f'{"left" if k == 0 else "right"} values {fmt(vpiece)[:100]} are not sized by the ' \
                                       f'{"left" if k == 0 else "right"} wavelengths'
        if not (_is_self_array(wa[2][0].items[1], 'wave') and _is_self_array(va[2][0].items[1], 'value')):
            okpad, detpad = False, 'the original samples are not kept in the middle'
        # the padding wavelengths stop short of the existing end samples: counted (linspace with the end point dropped), not
        # stepped with a float-step arange whose last element may land on (or 1e-16 beside) the existing first / last sample
        for k in (0, 2):
            for x in nf.value_atoms(wa[2][0].items[k]):
                if is_app(x, 'arange') and len([y for y in x[2] if isinstance(y, Poly)]) == 3:
                    step = [y for y in x[2] if isinstance(y, Poly)][2]
                    if step.const_value() is None or Fraction(step.const_value()).denominator != 1:
                        okgrid = False
                        detgrid = f'{"left" if k == 0 else "right"} padding = {nf.fmt_atom(x)[:100]}: a float-step arange does not ' \
                                  f'reliably exclude its stop value (the existing end sample)'
    chk.ob('C15-b', 'D-pairing', fpad.key, 'pad: each padded wavelength gets one padded value (left with left, right with right)',
           (okpad and npad > 0) if (npad or not okpad) else None, detpad or f'{npad} path(s)', fpad.loc())

    # ... and how many: span / step rounded up, plus the end point that is dropped again - so that a side on which nothing is
    # to be added contributes nothing (a count forced to two or more repeats the existing end sample there)
    okcnt, detcnt, ncnt = None, 'undecided: no linspace count found', 0
    for p in [x for x in ppaths if x.status != 'raise']:
        st = stores(p)
        if 'wave' not in st:
            continue
        for a in nf.value_atoms(st['wave'][0]):
            if not (is_app(a, 'linspace') and len(a[2]) >= 3 and isinstance(a[2][2], Poly)):
                continue
            ncnt += 1
            lo_, hi_, cnt = a[2][0], a[2][1], a[2][2]
            clamp = [x for x in cnt.atoms(deep=False) if is_app(x, ('max', 'maximum', 'clip', 'min', 'minimum', 'abs'))]
            ce = [x for x in cnt.atoms(deep=False) if is_app(x, ('ceil', 'trunc', 'floor', 'rint', 'round'))]
            if clamp:
                okcnt = False
                detcnt = f'count = {fmt(cnt)[:120]}: clamped - a side that needs no padding still gets a sample, the existing end wavelength twice'
            elif len(ce) == 1 and is_app(ce[0], 'ceil') and cnt == Poly.atom(ce[0]) + 1 and isinstance(ce[0][2][0], Poly):
                span = hi_ - lo_
                step = span / ce[0][2][0] if isinstance(span, Poly) and len(ce[0][2][0].terms) >= 1 else None
                if okcnt is None:
                    okcnt, detcnt = True, ''
            elif okcnt is None:
                detcnt = f'undecided: count = {fmt(cnt)[:120]}'
    chk.ob('C15-a', 'N-formula', fpad.key, 'pad: the number of padding wavelengths is ceil(span / step) + 1, the end point dropped again',
           okcnt, detcnt or f'{ncnt} linspace call(s)', fpad.loc())
    chk.ob('C15-a', 'N-formula', fpad.key, 'pad: the padding wavelengths are counted, they cannot coincide with an existing end sample',
           okgrid if npad else None, detgrid or 'no float-step arange in the padding', fpad.loc())

    # ------------------------------------------------------------ C15-e / f
    fb = cls.find_method('bin')
    for method, label in (('trapz', 'trapezoid'), ('simps', 'Simpson')):
        _, pb, _ = analyse(repo, fb, config={'interp_method': Const(method), 'preserve_power': TRUE,
                                             'waveunit': nf.attr(SELF, 'waveunit')})
        rets = returns(pb)
        if not rets:
            raise AnalysisError(f'Spectrum.bin({method}): no returning path')
        okq = okl = okp = True
        n = 0
        und = []
        J = Poly.atom(('iter', 'bin-index'))
        for p in rets:
            smp = [e for e in p.calls(f'{SPEC}.sample')]
            if len(smp) != 1:
                und.append('the sampled edges are not a single sample() call')
                continue
            fx, xx = smp[0].result, smp[0].bound.get('wave')
            form = bins_form(p, fb, J)
            if form is None:
                und.append('bins are neither built by an append loop nor by a comprehension over the edges')
                continue
            B, term, count_ok = form
            n += 1
            F = lambda i: nf.index(fx, i)
            X = lambda i: nf.index(xx, i)
            if method == 'trapz':
                want = Poly.const(1) / 2 * (F(J) + F(J + 1)) * (X(J + 1) - X(J))
            else:
                want = (X(2 * J + 2) - X(2 * J)) / 6 * (F(2 * J) + 4 * F(2 * J + 1) + F(2 * J + 2))
            okq = okq and term == want
            okl = okl and count_ok(method, fx, xx)
            # power preservation: bins * integrate(min, max)/sum(bins)
            ig = p.calls(f'{SPEC}.integrate')
            okp = okp and len(ig) == 1 and p.ret == B * ig[0].result / nf.app('sum', B) and \
                ig[0].bound.get('method') == Const(method) and \
                ig[0].bound.get('start') == nf.app('amin', S('wave')) and ig[0].bound.get('end') == nf.app('amax', S('wave'))
        tri = lambda ok: (ok and n > 0) if (not und or not ok) else None
        chk.ob('C15-f', 'N-formula', fb.key, f'{label} term over consecutive edges', tri(okq), '; '.join(und), fb.loc())
        chk.ob('C15-f', 'N-formula', fb.key, f'{label} loop visits every bin once (stride {"1" if method == "trapz" else "2"})',
               tri(okl), '; '.join(und), fb.loc())
        chk.ob('C15-e', 'N-identity', fb.key, f'power preservation rescales all bins by integrate(min, max)/sum(bins) [{label}]',
               tri(okp), '; '.join(und), fb.loc())
    edge_grid_dtype_rule(chk, repo, fb, 'C15-g')
    # bin edges: midpoints between centres; end treatment symmetric (half a step outwards) or inside (the end centres)
    wv = S('wave')
    dx = nf.app('diff', wv) / 2
    mid = nf.index(wv, Slice(C(0), C(-1))) + dx
    first, last = nf.index(wv, C(0)), nf.index(wv, C(-1))
    for ends_cfg, label, lo_e, hi_e in ((Const('symmetric'), 'symmetric', first - nf.index(dx, C(0)), last + nf.index(dx, C(-1))),
                                        (Const('inside'), 'inside', first, last)):
        _, pe, _ = analyse(repo, fb, config={'interp_method': Const('trapz'), 'ends': ends_cfg, 'preserve_power': FALSE,
                                             'waveunit': nf.attr(SELF, 'waveunit')})
        oke, det = False, ''
        for p in returns(pe):
            smp = p.calls(f'{SPEC}.sample')
            if len(smp) != 1:
                continue
            x = smp[0].bound.get('wave')
            want = nf.app('concatenate', Tup([Tup([lo_e], 'list'), mid, Tup([hi_e], 'list')], 'list'))
            oke = x == want
            det = f'edges = {fmt(x)[:220]}'
            xa = x.single_atom() if isinstance(x, Poly) else None
            if not oke and xa is not None and xa[0] == 'app' and str(xa[1]).startswith(('m:', 'call:', 'callv')):
                oke, det = None, f'undecided: the edges come from a call that is not followed: {fmt(x)[:160]}'
        chk.ob('C15-f', 'N-formula', fb.key, f'trapezoid bin edges are the midpoints, ends={label}', oke, det, fb.loc())
    # Simpson nodes: the centres interleaved with the midpoints; the end panels are half as wide - closed by the outer edge
    # (symmetric) or by the quarter point between the end centre and the first midpoint (inside).  Reference written out and
    # evaluated by the same interpreter.
    from ..rules import run_snippet
    REF = {'symmetric': 'dx = np.diff(wave)/2\nmid = wave[0:-1] + dx\nx = np.empty((wave.size + mid.size,), dtype=wave.dtype)\nx[0::2] = wave\n'
                        'x[1::2] = mid\nx = np.concatenate([[wave[0]-dx[0]], x, [wave[-1]+dx[-1]]])\n',
           'inside': 'dx = np.diff(wave)/2\nmid = wave[0:-1] + dx\nx = np.empty((wave.size + mid.size,), dtype=wave.dtype)\nx[0::2] = wave\n'
                     'x[1::2] = mid\nx = np.insert(x, 1, x[0] + (x[1]-x[0])/2)\nx = np.insert(x, -1, x[-1] + (x[-2]-x[-1])/2)\n'}
    TRAPZ_CLOSURE = ('dx = np.diff(wave)/2\nmid = wave[0:-1] + dx\nx = np.empty((wave.size + mid.size,), dtype=wave.dtype)\nx[0::2] = wave\n'
                     'x[1::2] = mid\nx = np.concatenate([[wave[0]], x, [wave[-1]]])\n')
    _ref_cache = {}

    def ref_nodes(src):
        if src not in _ref_cache:
            try:
                c_, _, _ = run_snippet(repo, 'radiometry', src, {'wave': wv})
                v_ = nf.unwiden(c_[0].env['x']) if c_ else None
                _ref_cache[src] = nf.subst_value(v_, {a: nf.app('empty') for a in nf.value_atoms(v_) if is_app(a, ('empty', 'zeros'))}) \
                    if v_ is not None else None
            except Exception:
                _ref_cache[src] = None
        return _ref_cache[src]

    def wrong_nodes(label):
        other = 'inside' if label == 'symmetric' else 'symmetric'
        return [w_ for w_ in (ref_nodes(TRAPZ_CLOSURE), ref_nodes(REF[other])) if w_ is not None]
    for label, src in REF.items():
        try:
            cont, _, _ = run_snippet(repo, 'radiometry', src, {'wave': wv})
            want_x = nf.unwiden(cont[0].env['x']) if cont else None
        except Exception:
            want_x = None
        _, pe, _ = analyse(repo, fb, config={'interp_method': Const('simps'), 'ends': Const(label), 'preserve_power': FALSE,
                                             'waveunit': nf.attr(SELF, 'waveunit')})
        oke, det = None, 'undecided: nodes not evaluated'
        for p in returns(pe):
            smp = p.calls(f'{SPEC}.sample')
            if len(smp) != 1 or want_x is None:
                continue
            x = nf.unwiden(smp[0].bound.get('wave'))
            xa = x.single_atom() if isinstance(x, Poly) else None

            def blank(v):
                # how the node array is allocated (its size expression, its element type: clause C15-g) is not compared here
                return nf.subst_value(v, {a: nf.app('empty') for a in nf.value_atoms(v) if is_app(a, ('empty', 'zeros'))})
            if blank(x) == blank(want_x):
                oke, det = True, 'nodes = reference construction'
            elif xa is not None and xa[0] == 'app' and str(xa[1]).startswith(('m:', 'call:', 'callv')):
                oke, det = None, f'undecided: the nodes come from a call that is not followed: {fmt(x)[:120]}'
            elif any(blank(x) == w_ for w_ in wrong_nodes(label)):
                # a known other node set: the end panels closed by the end centres themselves (the trapezoid closure), or the
                # closure of the other `ends` option
                oke, det = False, f'nodes = {fmt(x)[:200]}'
            else:
                oke, det = None, f'undecided: nodes = {fmt(x)[:160]}'
        chk.ob('C15-f', 'N-formula', fb.key, f'Simpson nodes: centres, midpoints and half-width end panels, ends={label}', oke, det, fb.loc())
    _, pb, _ = analyse(repo, fb, config={'interp_method': Const('trapz'), 'preserve_power': FALSE,
                                         'waveunit': nf.attr(SELF, 'waveunit')})
    okn, undn = bool(returns(pb)), False
    for p in returns(pb):
        form = bins_form(p, fb, Poly.atom(('iter', 'bin-index')))
        if form is None:
            undn = True
        else:
            okn = okn and p.ret == form[0]
    chk.ob('C15-e', 'N-identity', fb.key, 'without power preservation the quadrature values are returned as they are',
           okn if (not undn or not okn) else None, 'bins construction not recognised' if undn else '', fb.loc())


def sample_keyword_rule(chk, repo, clause):
    # `sample` is overridden by subclasses with another positional order (Blackbody.sample(wave, waveunit, ...)): inside the
    # class its options are passed by keyword
    pos_calls = []
    for g in repo.all_functions():
        if g.module.name != 'radiometry':
            continue
        for n_ in ast.walk(g.node):
            if isinstance(n_, ast.Call) and isinstance(n_.func, ast.Attribute) and n_.func.attr == 'sample' and len(n_.args) > 1 \
                    and isinstance(n_.func.value, ast.Name) and n_.func.value.id in ('self', 's1', 's2', 'other', 'spectrum', 'qe'):
                pos_calls.append(f'{g.key} at {g.loc(n_)}: `{g.module.segment(n_)[:60]}`')
    chk.ob(clause, 'B3-binding', SPEC, 'options of sample() are passed by keyword', not pos_calls,
           '; '.join(pos_calls[:2]) + (': a Blackbody takes the second positional argument as the wavelength unit' if pos_calls else ''), '')


def spectrum_storage_rules(chk, repo, clause):
    """The arrays a Spectrum holds are never modified in place - they are the caller's own arrays (the constructor does not
    copy) and, after `copy()`, must not be shared with the copy: editing methods rebind `wave` / `value`, and `copy` is deep.
    (C15-a; C13-f: a mixed-unit operation converts a copy of the right operand; C14-c: `to` converts by rebinding.)"""
    bad, n = [], 0
    for f in repo.all_functions():
        if f.module.name != 'radiometry':
            continue
        for node in ast.walk(f.node):
            if isinstance(node, ast.AugAssign) and isinstance(node.target, ast.Attribute) and \
                    node.target.attr in ('_wave', 'wave', '_value', 'value'):
                n += 1
                bad.append(f'{f.key}: `{f.module.segment(node)[:50]}` at {f.loc(node)}')
            elif isinstance(node, ast.Call) and isinstance(node.func, ast.Attribute) and node.func.attr in (
                    'sort', 'fill', 'resize', 'put', 'itemset', 'partition', 'clip') and isinstance(node.func.value, ast.Attribute) \
                    and node.func.value.attr in ('_wave', 'wave', '_value', 'value') and (
                        node.func.attr != 'clip' or any(k.arg == 'out' for k in node.keywords)):
                n += 1
                bad.append(f'{f.key}: `{f.module.segment(node)[:50]}` at {f.loc(node)}')
    chk.ob(clause, 'E-who-writes', SPEC, 'the stored arrays are rebound, never operated on in place', not bad,
           ('; '.join(bad[:3]) + ': an in-place operator works on the array the caller handed in (and on every spectrum that shares it)')
           if bad else 'no in-place operator or mutating method on .wave / .value', '')
    fc = repo.cls(SPEC).find_method('copy')
    if fc is None:
        chk.undecided(clause, 'E-ownership', SPEC + '.copy', 'deep copy', 'Spectrum has no copy method', '')
        return
    _, cpaths, _ = analyse(repo, fc)
    deep = True
    for p in returns(cpaths):
        a = p.ret.single_atom() if isinstance(p.ret, Poly) else None
        deep = deep and a is not None and is_app(a, 'deepcopy') and a[2][0] == SELF
    chk.ob(clause, 'E-ownership', fc.key, 'deep copy', deep and bool(returns(cpaths)),
           '' if deep else 'the copy shares its arrays with the original: converting or editing one changes the other', fc.loc())


def _slices_cover(method, ops):
    """Shifted slices X[o:hi:st] of the samples / edges that meet element by element: each has the stride of the rule and
    as many items as there are bins - n-1 for n edges (trapezoid), (n-1)/2 for n = 2m+1 nodes (Simpson) - whatever n."""
    stride = 1 if method == 'trapz' else 2
    M = 1 if method == 'trapz' else 2
    for sl in ops:
        o = 0 if sl.lo in (NONE, None) else sl.lo.const_value()
        st = 1 if sl.step in (NONE, None) else sl.step.const_value()
        hi = 0 if sl.hi in (NONE, None) else sl.hi.const_value()
        if o is None or st != stride or hi is None or not (0 <= o <= M) or hi > 0:
            return False
        for n in ((3, 4, 5, 8) if method == 'trapz' else (3, 5, 7, 11)):
            stop = n + int(hi) if hi < 0 else n
            if len(range(int(o), stop, int(st))) != (n - 1 if method == 'trapz' else (n - 1) // 2):
                return False
    return True


def bins_form(p, fb, J):
    """How Spectrum.bin builds its bins on path p: -> (bins value B, the j-th bin as a term in the
    counter J (0-based), count_ok(method, f, x) -> bool) or None when the construction is not one of
      * ``for k in range(1, n[, s]): bins = np.append(bins, term(k))``
      * ``np.array([term for ... in zip(edge / sample slices)])``."""
    def append_var(lp):
        # the loop-carried variable that grows by one np.append per iteration, whatever it is called
        for n, ph in lp['phi'].items():
            for ends in lp['ends']:
                v = ends.get(n)
                va = v.single_atom() if isinstance(v, Poly) else None
                if va is not None and is_app(va, 'append') and va[2][0] == ph:
                    return n
        return None
    lps = [lp for lp in p.state.loops if lp['func'] == fb.key and append_var(lp) is not None]
    if len(lps) == 1:
        lp = lps[0]
        acc = append_var(lp)
        it = lp['iter'].single_atom() if isinstance(lp['iter'], Poly) else None
        phi = lp['phi'][acc]
        if len(lp['ends']) != 1 or it is None or not is_app(it, 'range'):
            return None
        end = lp['ends'][0].get(acc)
        ea = end.single_atom() if isinstance(end, Poly) else None
        if ea is None or not is_app(ea, 'append') or ea[2][0] != phi:
            return None
        term = ea[2][1]
        ks = [a for a in nf.value_atoms(term) if a[0] == 'iter']
        rng = tuple(it[2])
        if not ks or len(rng) not in (2, 3) or rng[0].const_value() is None:
            return None
        step = rng[2] if len(rng) == 3 else Poly.const(1)
        term_j = nf.subst_value(term, {ks[0]: rng[0] + step * J})
        out = Poly.atom(('loop', phi.single_atom()[1], 'out'))

        def count_ok(method, f, x):
            if method == 'trapz':
                return rng[0] == C(1) and rng[1] in (nf.attr(f, 'size'), nf.attr(x, 'size')) and step == C(1)
            return rng[0] == C(1) and rng[1] in (nf.attr(f, 'size'), nf.attr(x, 'size')) and step == C(2)
        return out, term_j, count_ok
    for a in nf.value_atoms(p.ret):
        if is_app(a, ('listcomp', 'genexp')) and len(a[2]) == 2:
            body, src = a[2]
            za = src.single_atom() if isinstance(src, Poly) else None
            its = [b for b in nf.value_atoms(body) if b[0] == 'iter']
            if za is None or not is_app(za, 'zip') or len(set(its)) != 1:
                continue
            term_j = nf.subst_value(body, {its[0]: J})
            B = Poly.atom(a)
            for w in nf.value_atoms(p.ret):
                if is_app(w, ('copy', 'cast')) and w[2] and w[2][0] == B:
                    B = Poly.atom(w)
            ops = []
            for seq in za[2]:
                sa = seq.single_atom() if isinstance(seq, Poly) else None
                if sa is None or sa[0] != 'idx' or not isinstance(sa[2], Slice):
                    ops = None
                    break
                ops.append(sa[2])

            def count_ok(method, f, x, ops=ops):
                # every zipped slice has the same stride and stops so that all have the same length:
                # an operand starting at offset o stops at o - M (M = largest offset)
                if ops is None:
                    return False
                return _slices_cover(method, ops)
            return B, term_j, count_ok
    # whole-array arithmetic over shifted slices of the samples and the edges: bins = 0.5*(f[:-1] + f[1:])*(x[1:] - x[:-1]).
    # Element J of a slice X[a:b:s] is X[a + s*J], of diff(X) is X[J+1] - X[J]; anything else (np.gradient, cumsum, ...)
    # has no element of its own and stays as it is, so the comparison with the quadrature term fails on it
    smp = p.calls(f'{SPEC}.sample')
    if len(smp) == 1:
        fx = smp[0].result
        # the unscaled bins: what power preservation sums (`bins * total/np.sum(bins)`), else a local that holds them
        summed = [a[2][0] for a in nf.value_atoms(p.ret) if is_app(a, 'sum') and a[2] and isinstance(a[2][0], Poly)]
        for nm, val in [('', v_) for v_ in summed] + sorted(p.state.env.items()):
            if not isinstance(val, Poly) or not val.terms:
                continue
            sl = [a for a in nf.value_atoms(val) if a[0] == 'idx' and isinstance(a[2], Slice) and Poly.atom(a[1]) == fx]
            if not sl or any(a[0] == 'loop' for a in nf.value_atoms(val)):
                continue
            mapping, ops = {}, []
            xx_ = smp[0].bound.get('wave')
            tops = [fx.single_atom()] + ([xx_.single_atom()] if isinstance(xx_, Poly) and xx_.single_atom() is not None else [])
            for a in nf.value_atoms(val):
                if a[0] == 'idx' and isinstance(a[2], Slice):
                    lo = a[2].lo if isinstance(a[2].lo, Poly) else C(0)
                    st = a[2].step if isinstance(a[2].step, Poly) else C(1)
                    if a[1] in tops:
                        # slices of the samples / the edges themselves (not of what the edges are built from)
                        mapping[a] = nf.index(Poly.atom(a[1]), lo + st * J)
                        ops.append(a[2])
                elif is_app(a, ('diff', 'ediff1d')) and len(a[2]) == 1 and isinstance(a[2][0], Poly):
                    mapping[a] = nf.index(a[2][0], J + 1) - nf.index(a[2][0], J)
            term_j = nf.subst_value(val, mapping)

            def count_ok(method, f, x, ops=ops):
                return _slices_cover(method, ops)
            return val, term_j, count_ok
    return None


def _selection_of_self(v, name):
    """self.<name> or a delete(...) selection of it (crop deletes on both sides)."""
    for _ in range(6):
        a = v.single_atom() if isinstance(v, Poly) else None
        if a is not None and is_app(a, 'delete'):
            v = a[2][0]
        elif a is not None and a[0] == 'idx' and not _is_self_array(v, name):
            v = Poly.atom(a[1])          # x[mask]: a selection of x (the min side kept first, then the max side)
        else:
            break
    return _is_self_array(v, name)


def integrate_selection_rule(chk, repo, clause):
    """Spectrum.integrate selects exactly the samples with start <= w <= end (C15-d; reused by C14: the integral of a band is
    what a unit conversion must preserve)"""
    cls = repo.cls(SPEC)
    fi = cls.find_method('integrate')
    _, pi_, _ = analyse(repo, fi, config={'start': S('start'), 'end': S('end')})
    sel = set()
    for p in returns(pi_):
        if any(pol and fmt(c) in ('is(start, (None))', 'is(end, (None))') for c, pol, _ in p.conds):
            continue
        for a in nf.value_atoms(p.ret):
            if is_app(a, ('lt', 'le')):
                sel.add(a)
    lo = any(a[1] == 'le' and a[2][0] == S('start') and _is_self_array(a[2][1], 'wave') for a in sel)
    hi = any(a[1] == 'le' and _is_self_array(a[2][0], 'wave') and a[2][1] == S('end') for a in sel)
    # ... and by nothing else: every sample with start <= w <= end and no other one (a tolerance test or-ed to a bound lets
    # samples outside the band in; in metres the default absolute tolerance of isclose is 10 nm)
    extra = set()
    COMBINE = ('le', 'lt', 'bitand', 'and', 'logical_and', 'nonzero', 'flatnonzero', 'intersect1d', 'm:nonzero', 'asarray')
    for p in returns(pi_):
        if any(pol and fmt(c) in ('is(start, (None))', 'is(end, (None))') for c, pol, _ in p.conds):
            continue
        for a in nf.value_atoms(p.ret):
            if a[0] == 'idx' and _is_self_array(Poly.atom(a[1]), 'wave'):
                for k in nf.value_atoms(a[2]):
                    if k[0] == 'app' and not is_app(k, COMBINE) and any(_is_self_array(Poly.atom(x), 'wave') for x in nf.value_atoms(Poly.atom(k)) if x != k):
                        extra.add(k)
    widen = [k for k in extra if is_app(k, ('isclose', 'bitor', 'or', 'logical_or', 'bitxor', 'invert', 'not', 'logical_not'))]
    verdict = (lo and hi and len(sel) == 2) if sel else None       # no comparison at all: selected some other way
    if verdict and extra:
        verdict = False if widen else None
    chk.ob(clause, 'T-comparison', fi.key, 'selects start <= w <= end (closed on both sides)', verdict,
           '; '.join(sorted(nf.fmt_atom(a) for a in sel)) +
           ('; the selection also depends on ' + ', '.join(sorted(nf.fmt_atom(a)[:70] for a in extra)[:2]) if extra else ''), fi.loc())
    # a bound that is left out is the end of the grid on that side - each bound on its own: integrate(end=x) stops at x,
    # integrate(start=x) runs to the last sample
    for cfg, label, given, side in (({'start': NONE, 'end': S('end')}, 'only end given', 'end', 'hi'),
                                    ({'start': S('start'), 'end': NONE}, 'only start given', 'start', 'lo')):
        _, pd, _ = analyse(repo, fi, config=cfg)
        okd, detd, nd_ = None, 'undecided: no comparison found', 0
        for p in returns(pd):
            if any(pol and fmt(c) == f'is({given}, (None))' for c, pol, _ in p.conds):
                continue            # the path on which the given bound is None after all
            les = [a for a in nf.value_atoms(p.ret) if is_app(a, ('lt', 'le'))]
            if not les:
                continue
            nd_ += 1
            if side == 'hi':
                own = any(a[1] == 'le' and _is_self_array(a[2][0], 'wave') and a[2][1] == S('end') for a in les)
                dflt = any(a[1] == 'le' and _is_self_array(a[2][1], 'wave') and isinstance(a[2][0], Poly) and
                           any(is_app(x, ('amin', 'min', 'm:min')) for x in nf.value_atoms(a[2][0])) for a in les)
            else:
                own = any(a[1] == 'le' and a[2][0] == S('start') and _is_self_array(a[2][1], 'wave') for a in les)
                dflt = any(a[1] == 'le' and _is_self_array(a[2][0], 'wave') and isinstance(a[2][1], Poly) and
                           any(is_app(x, ('amax', 'max', 'm:max')) for x in nf.value_atoms(a[2][1])) for a in les)
            good = own and dflt
            if not good:
                okd = False
                detd = f'[{label}] selects ' + '; '.join(sorted(nf.fmt_atom(a)[:60] for a in les)) + \
                    (f': the given `{given}` is not the bound used' if not own else ': the omitted bound is not the end of the grid')
            elif okd is None:
                okd, detd = True, ''
        chk.ob(clause, 'T-comparison', fi.key, f'an omitted bound defaults to the end of the grid on its own side [{label}]', okd,
               detd or f'{nd_} path(s)', fi.loc())
    quadrature_cover_rule(chk, repo, fi, clause)


def quadrature_cover_rule(chk, repo, fi, clause):
    """Whatever is selected is integrated whole: one quadrature over the selected samples, or pieces over slices of them
    that follow each other and meet in a shared sample (additivity over intervals that meet at a sample point).  A piece
    that starts one sample after the previous one ended leaves an interval out."""
    QUAD = ('scipy.integrate.simpson', 'scipy.integrate.simps', 'trapz', 'scipy.integrate.trapezoid', 'trapezoid',
            'scipy.integrate.trapz', 'numpy.trapz')

    def pos(v, end):
        """slice bound -> ('s', k) counted from the start / ('e', k) counted back from the end; None if not constant"""
        if v in (NONE, None):
            return ('e', 0) if end else ('s', 0)
        c = v.const_value() if isinstance(v, Poly) else None
        if c is None:
            return None
        return ('s', int(c)) if c >= 0 else ('e', -int(c))
    wrapped = []
    for method in ('simps', 'trapz'):
        _, pw_, _ = analyse(repo, fi, config={'start': S('start'), 'end': S('end'), 'method': Const(method)})
        for p in returns(pw_):
            ra = p.ret.single_atom() if isinstance(p.ret, Poly) else None
            if ra is not None and is_app(ra, ('max', 'min', 'maximum', 'minimum', 'abs', 'clip', 'absolute', 'fabs')) and \
                    any(is_app(x, QUAD) for x in nf.value_atoms(p.ret)):
                wrapped.append(f'[{method}] returns {fmt(p.ret)[:70]}')
    chk.ob(clause, 'N-formula', fi.key, 'the integral is returned as the quadrature gives it (a negative integral stays negative)', not wrapped,
           '; '.join(wrapped[:2]) + (': linearity and additivity over adjacent intervals fail for spectra with negative values' if wrapped else ''),
           fi.loc())
    bad, n = [], 0
    for method in ('simps', 'trapz'):
        _, pi_, _ = analyse(repo, fi, config={'start': S('start'), 'end': S('end'), 'method': Const(method)})
        for p in returns(pi_):
            qs = [a for a in nf.value_atoms(p.ret) if is_app(a, QUAD)]
            if not qs:
                continue
            n += 1
            pieces = []
            whole = 0
            for a in qs:
                args = [x for x in a[2] if isinstance(x, Poly)]
                kws = {}
                for x in a[2]:
                    if isinstance(x, Tup):
                        for pr in x.items:
                            if isinstance(pr, Tup) and len(pr) == 2 and isinstance(pr.items[0], Const):
                                kws[pr.items[0].value] = pr.items[1]
                xs = kws.get('x', args[1] if len(args) > 1 else None)
                xa = xs.single_atom() if isinstance(xs, Poly) else None
                if xa is not None and xa[0] == 'idx' and isinstance(xa[2], Slice) and xa[2].step in (NONE, None):
                    lo, hi = pos(xa[2].lo, False), pos(xa[2].hi, True)
                    if lo is None or hi is None:
                        pieces = None
                        break
                    pieces.append((lo, hi, fmt(xs)[:50]))
                else:
                    whole += 1
            if pieces is None or (not pieces and whole == 1):
                continue
            if whole and pieces:
                bad.append(f'[{method}] the whole selection and slices of it are both integrated')
                continue
            # first sample of a piece / last sample of a piece as (origin, offset); consecutive pieces share a sample
            def first(pc):
                return pc[0]

            def last(pc):
                o, k = pc[1]
                return ('e', k + 1) if o == 'e' else ('s', k - 1)
            order = sorted(pieces, key=lambda pc: (pc[0][0] == 'e', pc[0][1] if pc[0][0] == 's' else -pc[0][1]))
            if first(order[0]) != ('s', 0) or last(order[-1]) != ('e', 1):
                bad.append(f'[{method}] the pieces {", ".join(pc[2] for pc in order)} do not span the selection from its first to its last sample')
                continue
            for a_, b_ in zip(order, order[1:]):
                if last(a_) != first(b_):
                    bad.append(f'[{method}] {a_[2]} ends on sample {last(a_)} and {b_[2]} starts on sample {first(b_)}: the interval '
                               'between them is left out')
    chk.ob(clause, 'N-additive', fi.key, 'the selected samples are integrated whole (pieces meet in a shared sample)',
           (not bad) if n else None, '; '.join(bad[:2]) or f'{n} path(s): one quadrature over the selection', fi.loc())
    # ordinate and abscissa: the values are integrated over the wavelengths (simpson takes them by name, trapezoid by position:
    # y first) - the other way round is the integral of wave d(value)
    roles_bad, nr = [], 0
    W = {('attr', ('sym', 'self'), 'wave'), ('attr', ('sym', 'self'), '_wave')}
    V = {('attr', ('sym', 'self'), 'value'), ('attr', ('sym', 'self'), '_value')}
    for method in ('simps', 'trapz'):
        _, pr_, _ = analyse(repo, fi, config={'start': S('start'), 'end': S('end'), 'method': Const(method)})
        for p in returns(pr_):
            for a in (x for x in nf.value_atoms(p.ret) if is_app(x, QUAD)):
                args = [x for x in a[2] if isinstance(x, Poly)]
                kws = {}
                for x in a[2]:
                    if isinstance(x, Tup):
                        for pr in x.items:
                            if isinstance(pr, Tup) and len(pr) == 2 and isinstance(pr.items[0], Const):
                                kws[pr.items[0].value] = pr.items[1]
                ys = kws.get('y', args[0] if args else None)
                xs = kws.get('x', args[1] if len(args) > 1 else None)
                if ys is None or xs is None:
                    continue
                ya, xa_ = set(nf.value_atoms(ys)), set(nf.value_atoms(xs))
                if not ((ya & (W | V)) and (xa_ & (W | V))):
                    continue
                nr += 1
                if (xa_ & V and not xa_ & W) or (ya & W and not ya & V):
                    roles_bad.append(f'[{method}] {a[1]}(y={fmt(ys)[:40]}, x={fmt(xs)[:40]})')
    chk.ob(clause, 'N-formula', fi.key, 'the values are integrated over the wavelengths (y = value, x = wave)', (not roles_bad) if nr else None,
           '; '.join(roles_bad[:2]) + (': that is the integral of the wavelength over the values' if roles_bad else ''), fi.loc())



def _is_self_array(v, name):
    return isinstance(v, Poly) and v in sattr(name)


def edge_grid_dtype_rule(chk, repo, fb, clause):
    """The bin edges are midpoints between the centres (centre + step/2): fractional even for integer centres.  They may
    be collected in any array that holds fractions - not in one allocated with the element type of the caller's centres,
    where bin([2, 3]) stores the edge 2.5 as 2."""
    from .. import dtypes
    from .c17 import _inherits_param
    for method in ('trapz', 'simps'):
        bad, n = [], 0
        for ends in ('symmetric', 'inside'):
            _, pb, _ = analyse(repo, fb, config={'interp_method': Const(method), 'ends': Const(ends), 'preserve_power': FALSE,
                                                 'waveunit': nf.attr(SELF, 'waveunit')})
            for p in returns(pb):
                known = dtypes.constraints(p.conds)
                for e in p.events:
                    if not (e.kind == 'write' and e.data.get('how') == 'setitem' and isinstance(e.target, Poly)):
                        continue
                    vk = dtypes.kinds(e.data.get('value'), known)
                    if not (vk <= dtypes.FLOATING):
                        continue
                    n += 1
                    # where the array that is written to was allocated
                    t = e.target
                    for _ in range(12):
                        ta = t.single_atom()
                        if ta is not None and is_app(ta, 'setitem') and isinstance(ta[2][0], Poly):
                            t = ta[2][0]
                        else:
                            break
                    ta = t.single_atom()
                    src = None
                    if ta is not None and is_app(ta, ('empty', 'zeros', 'ones', 'full')):
                        for x in ta[2]:
                            if isinstance(x, Tup):
                                for pr in x.items:
                                    if isinstance(pr, Tup) and len(pr) == 2 and pr.items[0] == Const('dtype') and isinstance(pr.items[1], Poly):
                                        da = pr.items[1].single_atom()
                                        if da is not None and da[0] == 'attr' and da[2] == 'dtype':
                                            src = da[1]
                    elif ta is not None and is_app(ta, ('empty_like', 'zeros_like', 'ones_like', 'full_like')) and isinstance(ta[2][0], Poly):
                        src = ta[2][0].single_atom()
                    if src is not None and dtypes.kinds(Poly.atom(src), known) == dtypes.ANY and _inherits_param(src, known):
                        bad.append(f'{fmt(e.data["value"])[:60]} is stored into an array allocated with the element type of '
                                   f'`{fmt(Poly.atom(src))[:30]}` @ {e.loc()} [{method}]')
                # ... and the edges handed to sample() were not converted to that type on the way
                for c_ in p.calls(f'{SPEC}.sample'):
                    for a in nf.value_atoms(c_.bound.get('wave')) if c_.bound.get('wave') is not None else ():
                        if is_app(a, ('cast', 'm:astype')) and len(a[2]) > 1 and isinstance(a[2][1], Poly) and isinstance(a[2][0], Poly):
                            da = a[2][1].single_atom()
                            if da is not None and da[0] == 'attr' and da[2] == 'dtype' and _inherits_param(da[1], known) and \
                                    dtypes.kinds(a[2][0], known) <= dtypes.FLOATING:
                                bad.append(f'the edges {fmt(a[2][0])[:60]} are converted to the element type of '
                                           f'`{fmt(Poly.atom(da[1]))[:30]}` [{method}]')
        chk.ob(clause, 'T-dtype', fb.key, f'fractional bin edges are kept in an array that holds fractions [{method}]', not bad,
               ('; '.join(sorted(set(bad))[:2]) + ': with integer centres the midpoints are truncated, bin([2, 3]) of a flat spectrum '
                'of 2 over unit bins gives [1, 3] instead of [2, 2]') if bad else f'{n} store(s) of fractional values examined', fb.loc())
