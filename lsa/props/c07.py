import ast
"""C07 - wavefront views agree with each other; planes act as pointwise phasors."""
from ..resilient import run_nested as _run_nested
from .. import nf, dims
from ..nf import Poly, Tup, Const, Slice, NONE, TRUE, FALSE
from ..model import AnalysisError
from ..rules import run as analyse, returns, fmt, is_app, S, C, has_factor, root_sym, conds_str
from .plane_flow import phasors, self_attr, is_mask_atom, base_and_keys, SELF, WFR
from .c03 import coherent, _variant
from .c06 import insert_paths


DELEGATING_MULTIPLY = ('plane.Pupil.multiply', 'plane.Image.multiply', 'plane.TiltInterface.multiply')


def _canon_fresh(text):
    """the text of a term with the values created during the analysis numbered in order of appearance"""
    import re
    seen = {}
    return re.sub(r'fresh<(\d+)', lambda m: 'fresh<#%d' % seen.setdefault(m.group(1), len(seen)), text)


from ..npmodel import P as P_


def product_shape_rule(chk, repo, clause):
    plane_shape_rule(chk, repo, clause)
    """Plane.multiply: the new wavefront has the plane's shape, the wavefront's only for a plane without one (C07-e; C08-f: with
    the test on the wrong operand no plane can be applied after a DFT propagation, whose wavefront shape is an array)"""
    wf = repo.cls('wavefront.Wavefront')
    f, paths_, _ = analyse(repo, 'plane.Plane.multiply', types={('sym', 'wavefront'): wf}, max_paths=1024)
    rets = returns(paths_)
    SELF, WFR = S('self'), S('wavefront')
    # the product has the plane's shape; only a plane without a shape of its own (scalar attributes) takes the wavefront's
    oksh, detsh, nsh = True, '', 0
    empty_ = nf.Tup([])
    for p in rets:
        for e in p.calls('wavefront.Wavefront.empty'):
            shp = e.bound.get('shape')
            tests = [(c, pol) for c, pol, _ in p.conds if is_app(c.single_atom() or ('x',), 'eq') and
                     {nf.vkey(x) for x in c.single_atom()[2]} == {nf.vkey(nf.attr(SELF, 'shape')), nf.vkey(P_(empty_))}]
            if not tests or shp is None:
                continue
            nsh += 1
            want_ = nf.attr(WFR, 'shape') if tests[0][1] else nf.attr(SELF, 'shape')
            if shp != want_:
                oksh, detsh = False, f'shape = {fmt(shp)[:40]} when `self.shape == ()` is {tests[0][1]}'
    if nsh == 0:
        # no test of the plane's own shape on the way: is the wavefront's shape tested instead?
        other = [fmt(c)[:50] for p in rets for c, _pol, _n in p.conds if nf.attr(WFR, 'shape').single_atom() in nf.value_atoms(c)
                 and 'eq(' in fmt(c)]
        oksh = False if other else None
        detsh = (f'the product shape is chosen by `{other[0]}`: a plane with arrays met by a wavefront that already has a shape keeps the '
                 "wavefront's shape, and the comparison of an ndarray shape with () raises") if other else 'undecided: shape selection not recognised'
    chk.ob(clause, 'D-flow', f.key, 'the product takes the shape of the plane (of the wavefront for a plane without one)', oksh,
           detsh or f'{nsh} construction(s)', f.loc())


def plane_shape_rule(chk, repo, clause):
    """`Plane.shape` is the (rows, cols) of one segment: the shape of a 2-D mask, axes 1 and 2 - in that order - of a
    (segments, rows, cols) mask.  It sizes the product wavefront and is the reference of every segment's offset."""
    cls = repo.cls('plane.Plane')
    g = cls.find_method('shape')
    if g is None or not g.is_property:
        return
    _, paths, _ = analyse(repo, g, types={('sym', 'self'): cls})
    masks = (nf.attr(S('self'), 'mask'), nf.attr(S('self'), '_mask'))
    ok, det, n = None, '', 0
    for p in returns(paths):
        r = p.ret
        n += 1
        good = None
        if any(r == nf.attr(m, 'shape') for m in masks):
            good = True
        elif isinstance(r, Tup) and len(r) == 2:
            good = any(r.items[0] == nf.index(nf.attr(m, 'shape'), C(1)) and r.items[1] == nf.index(nf.attr(m, 'shape'), C(2)) for m in masks)
            if not good and not any(isinstance(i, Poly) and i.single_atom() is not None and i.single_atom()[0] == 'idx' for i in r.items):
                good = None
        elif isinstance(r, Poly) and r.single_atom() is not None and r.single_atom()[0] == 'idx' and isinstance(r.single_atom()[2], Slice):
            # one slice of mask.shape, or slices of slices: carried out on the positions (0, 1, 2) of a segmented mask
            chain, a_ = [], r.single_atom()
            while a_[0] == 'idx' and isinstance(a_[2], Slice):
                chain.append(a_[2])
                a_ = a_[1]
            base_ok = any(Poly.atom(a_) == nf.attr(m, 'shape') for m in masks)
            pos = (0, 1, 2)
            try:
                for sl in reversed(chain):
                    g_ = lambda x: None if x in (NONE, None) else int(x.const_value())
                    pos = pos[slice(g_(sl.lo), g_(sl.hi), g_(sl.step))]
                good = base_ok and pos == (1, 2)
            except Exception:
                good = None
        if good is False:
            ok, det = False, f'[{conds_str(p)[:60]}] returns {fmt(r)[:80]}: not (rows, cols) of the mask'
        elif good is True and ok is None:
            ok = True
    chk.ob(clause, 'N-identity', g.key, 'the shape of a plane is (rows, cols) of its mask: axes 1 and 2 of a segmented mask, in that order',
           ok, det or f'{n} path(s)', g.loc())


def pixelscale_guard_rule(chk, repo, clause):
    """`_mul_pixelscale` refuses exactly the pairs whose (row, col) scales differ in a component - row against row, column
    against column."""
    fg, paths, _ = analyse(repo, 'plane._mul_pixelscale', config={'a_pixelscale': pair_('a_pixelscale'),
                                                               'b_pixelscale': pair_('b_pixelscale')})
    a, b = pair_('a_pixelscale'), pair_('b_pixelscale')
    want = nf.app('and', nf.app('eq', a.items[0], b.items[0]), nf.app('eq', a.items[1], b.items[1]))
    raises = [p for p in paths if p.status == 'raise' and p.exc == 'ValueError']
    okg = len(raises) == 1 and any(c == want and pol is False for c, pol, _ in raises[0].conds)
    rets_g = [p for p in returns(paths)]
    okg = okg and all(p.ret in (a, b, Tup(a.items), Tup(b.items)) for p in rets_g)
    if not okg and raises and all(p.ret in (a, b, Tup(a.items), Tup(b.items)) for p in rets_g):
        # the same guard written another way (`a[0] != b[0] or a[1] != b[1]`, nested ifs): decided over the four outcomes of
        # the two component comparisons - the call raises exactly when one of them differs
        okg = _guard_table(paths, a, b)
    crossed = [fmt(Poly.atom(x))[:60] for p in paths for c, _pol, _n in p.conds for x in nf.value_atoms(c)
               if is_app(x, ('eq', 'ne')) and len(x[2]) == 2 and
               any({nf.vkey(x[2][0]), nf.vkey(x[2][1])} == {nf.vkey(a.items[i]), nf.vkey(b.items[1 - i])} for i in (0, 1))]
    if crossed:
        okg = False
    chk.ob(clause, 'D-guard', fg.key, 'ValueError unless both components agree', okg,
           (f'{crossed[0]}: the row scale of one operand is compared with the column scale of the other - equal per-axis scales are refused, '
            'transposed ones accepted') if crossed else '' if okg else ('the refusal is not guarded by equality of both pixel-scale components' if okg is False else
                           'undecided: the conditions of the refusal are not comparisons of the pixel-scale components'), fg.loc())


def insert_stores(repo, intensity):
    fld = S('field')
    f, paths, _ = analyse(repo, 'field.insert', config={'intensity': intensity},
                          types={('sym', 'field'): repo.cls('field.Field')})
    out = {}
    for p in returns(paths):
        ws = [e for e in p.writes() if root_sym(e.target) == 'out']
        k = frozenset((nf.vkey(c), pol) for c, pol, _ in p.conds)
        out[k] = (p, ws)
    return f, out


def insert_twin_rule(chk, repo, clause):
    """The two branches of field.insert add the same samples at the same place with the same weight: the intensity
    branch differs from the complex one by abs(.**2) of the samples only."""
    f, si = insert_stores(repo, TRUE)
    _, sc = insert_stores(repo, FALSE)
    n, ok, det = 0, True, ''
    by_order = len(si) == len(sc) and not all(k in sc for k in si)
    for pos, (k, (p, ws)) in enumerate(si.items()):
        if by_order:
            # the path conditions mention values created during the analysis (numbered per run): the two analyses walk the
            # same statements in the same order, so the paths are paired by position
            wc = list(sc.values())[pos][1]
        elif k not in sc:
            ok, det = False, 'the intensity branch takes paths the complex branch does not'
            continue
        else:
            wc = sc[k][1]
        if not ws and not wc and p.ret == S('out'):
            continue            # nothing is added on this path in either branch (a field wholly outside the array, C06-c)
        if len(ws) != 1 or len(wc) != 1:
            ok, det = False, 'more than one store into out on a path'
            continue
        n += 1
        ri, rc = ws[0].data.get('rhs'), wc[0].data.get('rhs')
        w = S('weight')
        good = ws[0].data.get('key') is not None and ws[0].data.get('key') == wc[0].data.get('key') and \
            ws[0].data.get('aug') == 'add' and wc[0].data.get('aug') == 'add'
        # rc = X*weight ; ri = abs(X**2)*weight  (abs(X)**2 accepted)
        X = rc / w if isinstance(rc, Poly) else None
        wantA = nf.app('abs', X ** 2) * w if X is not None else None
        from ..npmodel import nf_abs
        wantB = nf_abs(X) ** 2 * w if X is not None and len(X.terms) == 1 else None
        same = ri in (wantA, wantB)
        if not same and X is not None and ri is not None and 'fresh<' in fmt(ri):
            same = _canon_fresh(fmt(ri)) in [_canon_fresh(fmt(w_)) for w_ in (wantA, wantB) if w_ is not None]
            good = ws[0].data.get('key') is not None and ws[0].data.get('aug') == 'add' and wc[0].data.get('aug') == 'add' and \
                _canon_fresh(fmt(ws[0].data.get('key'))) == _canon_fresh(fmt(wc[0].data.get('key')))
        good = good and X is not None and not any(a == ('sym', 'weight') for a in X.atoms()) and same
        if not good:
            ok, det = False, f'complex: out[...] += {fmt(rc)}; intensity: out[...] += {fmt(ri)} [{conds_str(p)}]'
    chk.ob(clause, 'N-twin', f.key, 'intensity branch = |same samples|^2 with the same slices and weight', ok and n > 0,
           det or f'{n} paths compared', f.loc())


def run(chk, repo, tier):
    from .common import no_hidden_state
    no_hidden_state(chk, repo, 'C07')
    chk.clause('C07-o', 'the views and the plane product leave the wavefront and the plane untouched', 4)
    # the phasor is built from the plane's own arrays: a copy of the plane that shares them (a shallow copy) lets work done
    # on the copy - fit_tilt(inplace=False) subtracts in place - change what the original multiplies by
    from .c10 import plane_copy_rules
    plane_copy_rules(chk, repo, 'C07-o')
    # passing through a plane yields a new wavefront: the product of a field and a phasor is a Field of its own
    from .common import mul_concat as _mul_concat7
    _mul_concat7(chk, repo, 'C07-o')
    from .common import operands_untouched
    operands_untouched(chk, repo, 'C07-o', ['wavefront.Wavefront.intensity', 'wavefront.Wavefront.field', 'wavefront.Wavefront.insert', 'plane.Plane.multiply', 'wavefront.Wavefront.__mul__', 'wavefront.Wavefront.__rmul__', 'field.merge', 'field._merge', 'field.reduce', 'field.Field.__mul__'], allow=[('wavefront.Wavefront.insert', 'out')])
    chk.clause('C07-a', 'intensity = |coherent field|^2: reduce before modulus; the two insert branches differ only by abs(.**2)', 3)
    chk.clause('C07-b', 'accumulation adds weight*value into out and nothing else; Wavefront.insert forwards weight and returns out', 3)
    chk.clause('C07-c', 'phasor exponent is +2*pi*i*opd/wavelength (dimensionless)', 4)
    chk.clause('C07-d', 'zero outside the mask: the mask is a factor of every phasor', 4)
    from .extra_rules import mask_support_rule
    mask_support_rule(chk, repo, 'C07-d')
    from .c20 import helper_rules as _helper_rules
    from .common import Remap as _Remap
    _helper_rules(_Remap(chk, {'C20-d': 'C07-d'}), repo)
    # the window a plane's phasor is cut to (_plane_slice) is the bounding box util.boundary reports: rows from the row
    # profile, columns from the column profile
    from .c20 import boundary_axis_rule
    boundary_axis_rule(_Remap(chk, {'C20-e': 'C07-d'}), repo)
    chk.clause('C07-e', 'wavelength unchanged, focal length forwarded, Pupil hands over its focal length after delegating', 4)
    chk.clause('C07-f', 'a plane with default attributes is the identity (phasor folds to 1)', 1)
    chk.clause('C07-g', 'inconsistent pixel scales are refused (both components compared)', 1)
    chk.clause('C07-h', 'a new wavefront is the unit plane wave; an empty wavefront has no fields', 2)
    # the pixel scale the refusal compares is the one the plane reports: after rescale / resample it is the scale its arrays
    # are sampled at on both axes, and the window the phasor is cut to follows the new mask
    from . import c17 as _c17
    nd = list(chk.not_decided)
    _run_nested(_c17, _Remap(chk, {'C17-a': 'C07-g', 'C17-d': 'C07-d'}), repo, tier)
    chk.not_decided[:] = nd
    chk.not_decided += ['numerical values of the field']

    from .extra_rules import wavefront_ctor_rules
    wavefront_ctor_rules(chk, repo, 'C07-h')
    # ---------------------------------------------------------------- C07-a
    coherent(chk, repo, 'C07-a')
    from .common import Remap
    from .c06 import disjoint_rules
    disjoint_rules(Remap(chk, {'C06-f': 'C07-a'}), repo)
    chk.clause('C07-i', 'the pointwise product with a plane: a one-element phasor inherits the shape and offset of the field (and vice versa); the product is taken on the overlap', 3)
    from .c06 import product_rules
    product_rules(chk, repo, 'C07-i')
    from .c06 import scalar_product_rule as _scalar_product_rule7, insert_rules as _insert_rules7
    _scalar_product_rule7(chk, repo, 'C07-i')
    _insert_rules7(chk, repo, 'C07-b')
    from .plane_flow import product_rule
    product_rule(chk, repo, 'C07-i')
    # ... and which samples count as overlap (and whether two fields overlap at all, which also decides if intensity
    # sums them coherently) is the extent arithmetic
    from .extent_rules import extent_identities
    extent_identities(chk, repo, 'C07-i')
    # the bounding box a group of fields is merged into folds every extent with running minima / maxima (an interval that
    # extends the box on both sides moves both ends), and the complex / intensity views place every field through insert
    from .c06 import boundary_fold as _boundary_fold
    _boundary_fold(chk, repo, 'C07-a')
    from .c02 import field_accumulation as _field_accumulation
    _field_accumulation(_Remap(chk, {'C02-g': 'C07-o'}), repo, 'C02-g')
    # intensity and accumulation go through reduce -> _merge: the merged block sits where the floor(n/2) convention of
    # array_extent / insert puts it
    from .c06 import merge_helper_rules as _merge_helper_rules
    _merge_helper_rules(_Remap(chk, {'C06-b': 'C07-a', 'C06-e': 'C07-a'}), repo)
    insert_twin_rule(chk, repo, 'C07-a')

    # ---------------------------------------------------------------- C07-b
    f, paths, _ = analyse(repo, 'field.insert', types={('sym', 'field'): repo.cls('field.Field')})
    bad = []
    nret = 0
    for p in returns(paths):
        nret += 1
        from ..effects import _scalar_chain
        ws = [e for e in p.writes() if e.depth == 0 and not (e.data.get('how') == 'augassign' and _scalar_chain(e.target))]
        if not ws and p.ret == S('out'):
            continue            # the array comes back untouched; when that is legitimate is decided by C06-c / C07-a's insert rules
        if len(ws) != 1 or ws[0].data.get('aug') != 'add' or root_sym(ws[0].target) != 'out':
            bad.append(f'{len(ws)} write(s): ' + ', '.join(f'{e.data["how"]} {fmt(e.target)}' for e in ws))
        r = p.ret
        a = r.single_atom() if isinstance(r, Poly) else None
        if a is None or not is_app(a, 'setitem') or root_sym(r) != 'out':
            bad.append(f'returns {fmt(r)[:60]}, not the accumulated array')
    chk.ob('C07-b', 'E-accumulate', f.key, 'single `out[slice] += value`; returns out', not bad and nret > 0,
           '; '.join(sorted(set(bad))), f.loc())
    f, paths, _ = analyse(repo, 'wavefront.Wavefront.insert')
    ok_w = ok_r = False
    for p in returns(paths):
        ins = p.calls('field.insert')
        ok_w = len(ins) == 1 and ins[0].bound.get('weight') == S('weight') and ins[0].bound.get('intensity') == TRUE
        from .common import loop_accumulator
        lp, var = loop_accumulator(p, ins[0].bound.get('out')) if ins else (None, None)
        ok_r = lp is not None and lp['pre'].get(var) == S('out') \
            and isinstance(p.ret, Poly) and p.ret.single_atom() is not None and p.ret.single_atom()[0] == 'loop' \
            and p.ret.single_atom()[1] == lp['phi'][var].single_atom()[1]
        if not ok_r and lp is None and ins:
            # a fold whose step hands the accumulator back: every insert works on the caller's array, which is returned
            ok_r = ins[0].bound.get('out') == S('out') and ins[0].in_loop and p.ret == S('out')
    chk.ob('C07-b', 'E-accumulate', f.key, 'weight forwarded to every insert', ok_w, '', f.loc())
    chk.ob('C07-b', 'E-accumulate', f.key, 'accumulates into the caller\'s array and returns it', bool(ok_r), '', f.loc())

    # ------------------------------------------------------------ C07-c / d
    f, phs, rets = phasors(repo)
    amp_a, opd_a = self_attr('amplitude'), self_attr('opd')
    wl_alts = (nf.attr(WFR, 'wavelength'), nf.attr(WFR, '_wavelength'))
    for p, e in phs:
        data = e.bound.get('data')
        var = _variant(data, amp_a, opd_a)
        exps = [a for a in data.atoms(deep=False) if is_app(a, 'exp')] if isinstance(data, Poly) else []
        ok, det = False, f'phasor = {fmt(data)}'
        if len(exps) == 1 and isinstance(data, Poly) and len(data.terms) == 1:
            arg = exps[0][2][0]
            opds = [a for a in arg.atoms(deep=False) if base_and_keys(a)[0] in opd_a]
            if len(opds) == 1:
                opd = Poly.atom(opds[0])
                ok = any(arg == 2 * nf.PI * nf.I * opd / wl for wl in wl_alts)
                det = f'exponent = {fmt(arg)}; expected 2*pi*1j*opd/wavelength'
                ad = {opds[0]: dims.D(m=1), wl_alts[0].single_atom(): dims.D(m=1), wl_alts[1].single_atom(): dims.D(m=1)}
                okd, msg, _ = dims.check(arg, ad, want={})
                chk.ob('C07-c', 'U-dims', f.key, f'phasor exponent is dimensionless [{var}]', okd is True, msg, f.loc(e.node))
        chk.ob('C07-c', 'N-const', f.key, f'phasor exponent = +2*pi*i*opd/wavelength [{var}]', ok, det, f.loc(e.node))
        hm = isinstance(data, Poly) and has_factor(data, is_mask_atom)
        from .common import opaque_element as _opaque_element
        chk.ob('C07-d', 'D-factor', f.key, f'mask is a factor of the phasor [{var}]', hm or (None if _opaque_element(data) else False),
               f'phasor = {fmt(data)}' + ('' if hm else ': samples outside the mask are not zeroed'), f.loc(e.node))

    # the phasor is built from the plane's public `amplitude` / `opd` (properties a subclass may override - the documented way of
    # making a plane whose OPD is computed on request), not from the backing attributes the constructor filled
    from ..interp import known_functions as _kf
    fm_ = repo.func('plane.Plane.multiply')
    scope_ = [fm_] + [g for g in repo.all_functions() if g.cls is not None and g.cls.key == 'plane.Plane' and g.key not in _kf()
                      and not g.is_property and not g.is_setter]
    backing = []
    for g in scope_:
        for n_ in ast.walk(g.node):
            if isinstance(n_, ast.Attribute) and isinstance(n_.ctx, ast.Load) and n_.attr in ('_amplitude', '_opd') \
                    and isinstance(n_.value, ast.Name) and n_.value.id == 'self':
                backing.append(f'{g.key} reads self.{n_.attr} at {g.loc(n_)}')
    chk.ob('C07-c', 'D-flow', fm_.key, 'the phasor is built from the public amplitude / opd of the plane', not backing,
           '; '.join(sorted(set(backing))[:2]) + (': a subclass that overrides the property is multiplied with what the constructor stored'
                                                  if backing else 'no read of the backing attributes'), fm_.loc())

    # ---------------------------------------------------------------- C07-e
    okw = okf = okp = True
    n = 0
    for p in rets:
        for e in p.calls('wavefront.Wavefront.empty'):
            n += 1
            b = e.bound
            okw = okw and b.get('wavelength') in wl_alts
            okf = okf and b.get('focal_length') == nf.attr(WFR, 'focal_length')
            px = b.get('pixelscale')
            pa = px.single_atom() if isinstance(px, Poly) else None
            okp = okp and pa is not None and is_app(pa, 'call:plane._mul_pixelscale')
    product_shape_rule(chk, repo, 'C07-e')
    from .common import ctor_forwarding_rule
    ctor_forwarding_rule(chk, repo, 'C07-d')
    chk.ob('C07-e', 'D-flow', f.key, 'wavelength unchanged', okw and n > 0, '', f.loc())
    chk.ob('C07-e', 'D-flow', f.key, 'focal length forwarded', okf and n > 0, '', f.loc())
    chk.ob('C07-e', 'D-flow', f.key, 'pixel scale reconciled by _mul_pixelscale', okp and n > 0, '', f.loc())
    fp, paths, _ = analyse(repo, 'plane.Pupil.multiply', types={('sym', 'wavefront'): repo.cls('wavefront.Wavefront')})
    okh = bool(returns(paths))
    for p in returns(paths):
        sup = p.calls('plane.Plane.multiply')
        st = [e for e in p.writes() if e.data.get('how') == 'attrstore' and e.data.get('attr') == 'focal_length']
        okh = okh and len(sup) == 1 and len(st) == 1 and st[0].target == sup[0].result and \
            st[0].data['value'] == nf.attr(SELF, 'focal_length') and p.ret == sup[0].result
    chk.ob('C07-e', 'D-flow', fp.key, "the product takes the pupil's focal length (set on the new wavefront)", okh, '', fp.loc())
    # every product is rebuilt through the constructor: a focal length handed to it is kept whatever its sign or size
    fi, ipaths, _ = analyse(repo, 'wavefront.Wavefront.__init__', config={'focal_length': S('focal_length')})
    FL = S('focal_length')
    okk, detk, nst = True, '', 0
    for p in (q for q in ipaths if q.status != 'raise'):
        st = [e for e in p.writes() if e.data.get('how') == 'attrstore' and e.data.get('attr') == 'focal_length' and e.target == SELF]
        if not st:
            continue
        nst += 1
        v = st[-1].data['value']
        va = v.single_atom() if isinstance(v, Poly) else None
        infinite = va is not None and (va == ('val', 'inf') or va[0] == 'val' and 'inf' in str(va[1])) or 'inf' in fmt(v)
        tested = [c for c, _, _ in p.conds if ('sym', 'focal_length') in nf.value_atoms(c) and
                  any(is_app(a, ('lt', 'le', 'gt', 'ge', 'isfinite', 'isclose')) for a in nf.value_atoms(c))]
        if tested or not (v == FL or infinite):
            okk = False
            detk = (f'stored as {fmt(v)[:80]}' if not tested else f'the value kept depends on `{fmt(tested[0])[:80]}`') + \
                ': a diverging or very long focal length is lost when a later plane rebuilds the wavefront'
    chk.ob('C07-e', 'D-flow', fi.key, 'a focal length given to the constructor is stored as given (infinite only when none is given)',
           okk if nst else None, detk or ('undecided: no store of focal_length found' if not nst else ''), fi.loc())

    # planes that refine Plane (pupil, image, tilt elements) still act as the phasor: whatever else they do, every way
    # through their multiply hands the wavefront to Plane.multiply and returns its product
    for key in DELEGATING_MULTIPLY:
        if not repo.has_func(key):
            continue        # no override: Plane.multiply itself applies
        fd, paths, _ = analyse(repo, key, types={('sym', 'wavefront'): repo.cls('wavefront.Wavefront')})
        okd, det = bool(returns(paths)), ''
        for p in returns(paths):
            sup = p.calls('plane.Plane.multiply')
            good = len(sup) == 1 and p.ret == sup[0].result and \
                (sup[0].bound.get('wavefront') == WFR if sup[0].bound else WFR in (sup[0].data.get('args') or []))
            if not good:
                okd = False
                det = f'[{conds_str(p)[:120]}] returns {fmt(p.ret)[:80]} ' + \
                    ('without applying the plane (Plane.multiply is not called)' if not sup else 'which is not the product of Plane.multiply')
        chk.ob('C07-e', 'D-flow', fd.key, 'every path returns the product of Plane.multiply(wavefront)', okd, det, fd.loc())

    # ---------------------------------------------------------------- C07-f
    facts = {}
    for nm, v in (('amplitude', C(1)), ('_amplitude', C(1)), ('opd', C(0)), ('_opd', C(0)), ('mask', C(1)), ('_mask', C(1))):
        facts[nf.attr(SELF, nm).single_atom()] = v
    facts[nf.attr(SELF, 'size').single_atom()] = C(1)
    f2, phs2, _ = phasors(repo, facts=facts)
    vals = {fmt(e.bound.get('data')) for _, e in phs2}
    from .common import opaque_element as _opq
    chk.ob('C07-f', 'R-constant', f2.key, 'default plane: phasor folds to the scalar 1',
           True if vals == {'1'} else (None if all(_opq(e.bound.get('data')) for _, e in phs2 if fmt(e.bound.get('data')) != '1') else False),
           f'with amplitude=1, opd=0, mask=1 the phasor is {sorted(vals)}', f2.loc())

    # ---------------------------------------------------------------- C07-g
    pixelscale_guard_rule(chk, repo, 'C07-g')


def _guard_table(paths, a, b):
    eqs = {}
    for k in (0, 1):
        for x, y in ((a.items[k], b.items[k]), (b.items[k], a.items[k])):
            eqs[nf.vkey(nf.app('eq', x, y))] = (k, True)
            eqs[nf.vkey(nf.app('ne', x, y))] = (k, False)

    def ev(c, env):
        if nf.vkey(c) in eqs:
            k, pos = eqs[nf.vkey(c)]
            return env[k] if pos else not env[k]
        ca = c.single_atom() if isinstance(c, Poly) else None
        if ca is not None and is_app(ca, ('and', 'or')):
            vals = [ev(x, env) for x in ca[2]]
            if any(v is None for v in vals):
                return None
            return all(vals) if ca[1] == 'and' else any(vals)
        if ca is not None and is_app(ca, 'not'):
            v = ev(ca[2][0], env)
            return None if v is None else not v
        return None
    for e0 in (True, False):
        for e1 in (True, False):
            taken = []
            for p in paths:
                vals = [ev(c, (e0, e1)) for c, pol, _ in p.conds]
                if any(v is None for v in vals):
                    return None
                if all(v == pol for v, (c, pol, _) in zip(vals, p.conds)):
                    taken.append(p)
            if len(taken) != 1:
                return None
            raised = taken[0].status == 'raise' and taken[0].exc == 'ValueError'
            if raised != (not (e0 and e1)):
                return False
    return True


def pair_(name):
    from ..rules import pair
    return pair(name)
