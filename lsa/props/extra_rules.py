"""Second-layer rules added after the first seeded round: helpers that the
first layer only used through their call sites."""
from fractions import Fraction

from .. import nf
from ..nf import Poly, Tup, Const, Slice, NONE, TRUE, FALSE
from ..model import AnalysisError
from ..ranges import Ranges
from ..rules import run as analyse, returns, fmt, is_app, S, C, conds_str, pair

SELF = S('self')


def bound_of(atom):
    return {k.items[0].value: k.items[1] for k in atom[2]}


def plane_slice_rule(chk, repo, clause):
    """_plane_slice: one bounding slice of the mask (2-D) / of every segment mask (3-D)."""
    m = S('mask')
    # evaluated for a 2-D and for a 3-D mask (whatever tests of mask.ndim select the branch)
    f, p2, _ = analyse(repo, 'plane._plane_slice', facts={nf.attr(m, 'ndim').single_atom(): C(2)})
    _, p3, _ = analyse(repo, 'plane._plane_slice', facts={nf.attr(m, 'ndim').single_atom(): C(3)})
    not_none = lambda p: not any(pol and fmt(c) == 'is(mask, (None))' for c, pol, _ in p.conds)
    two = [p for p in returns(p2) if not_none(p)]
    three = [p for p in returns(p3) if not_none(p)]
    ok2 = len(two) == 1 and isinstance(two[0].ret, Tup) and len(two[0].ret) == 1
    if ok2:
        a = two[0].ret.items[0].single_atom()
        ok2 = a is not None and is_app(a, 'call:helper.boundary_slice') and bound_of(a).get('x') == m and \
            bound_of(a).get('threshold') == C(0) and bound_of(a).get('pad') == Tup([C(0), C(0)])
    chk.ob(clause, 'D-flow', f.key, 'monolithic mask: the bounding slice of the mask itself (no padding, threshold 0)', ok2,
           fmt(two[0].ret)[:160] if two else '', f.loc())
    ok3 = len(three) == 1
    if ok3:
        a = three[0].ret.single_atom() if isinstance(three[0].ret, Poly) else None
        ok3 = a is not None and is_app(a, 'listcomp') and len(a[2]) == 2 and a[2][1] == m
        if ok3:
            e = a[2][0].single_atom()
            x = bound_of(e).get('x') if e is not None and is_app(e, 'call:helper.boundary_slice') else None
            xa = x.single_atom() if isinstance(x, Poly) else None
            ok3 = xa is not None and xa[0] == 'idx' and xa[1] == ('sym', 'mask') and bound_of(e).get('threshold') == C(0) \
                and bound_of(e).get('pad') == Tup([C(0), C(0)])
    chk.ob(clause, 'D-flow', f.key, 'segmented mask: one bounding slice per segment mask, in order', ok3,
           fmt(three[0].ret)[:160] if three else '', f.loc())


def mask_support_rule(chk, repo, clause):
    """Plane.__init__: the stored mask is the support of the given mask (or of the amplitude): every
    non-zero sample becomes 1.  The test must see the values as given - a cast to an integer type before
    the `!= 0` test truncates fractional (anti-aliased) samples to 0 and zeroes the field there."""
    f, paths, _ = analyse(repo, 'plane.Plane.__init__')
    ok, n, det = True, 0, ''
    for p in [q for q in paths if q.status != 'raise']:
        st = [e for e in p.events if e.kind == 'write' and e.data.get('how') == 'attrstore' and e.data.get('attr') == '_mask'
              and e.target == SELF]
        if not st:
            continue
        n += 1
        from .common import final_attr_value
        v = nf.strip_apps(final_attr_value(p, st[-1]), ('copy', 'deepcopy', 'shallowcopy', 'm:copy'))
        # outer casts (applied after the binarisation) are harmless
        a = v.single_atom() if isinstance(v, Poly) else None
        while a is not None and is_app(a, ('cast', 'm:astype')):
            v = a[2][0]
            a = v.single_atom() if isinstance(v, Poly) else None
        good = False
        if a is not None and is_app(a, 'setitem') and len(a[2]) == 3 and a[2][2] == C(1):
            base, key = a[2][0], a[2][1]
            ka = key.single_atom() if isinstance(key, Poly) else None
            tested = None
            if ka is not None and is_app(ka, 'nonzero'):
                tested = ka[2][0]
            elif ka is not None and is_app(ka, 'ne') and C(0) in ka[2]:
                tested = [x for x in ka[2] if x != C(0)][0]
            src = nf.strip_apps(tested, ('copy', 'deepcopy', 'shallowcopy', 'm:copy')) if tested is not None else None
            good = tested is not None and tested == base and \
                not any(is_app(x, ('cast', 'm:astype', 'floor', 'round', 'ceil', 'fix')) for x in nf.value_atoms(src))
            if not good:
                det = f'support taken from {fmt(tested)[:120]}'
        elif a is not None and is_app(a, ('ne', 'lt', 'le', 'gt', 'ge', 'eq')):
            # written as a comparison: only `values != 0` is the support - `values > 0` leaves out the negative samples (a pi
            # phase step written as a sign flip, the real part of a complex amplitude), which then vanish from the field
            zero = [x for x in a[2] if isinstance(x, Poly) and x.is_zero()]
            src = [x for x in a[2] if not (isinstance(x, Poly) and x.is_zero())]
            good = a[1] == 'ne' and len(zero) == 1 and len(src) == 1 and \
                not any(is_app(x, ('cast', 'm:astype', 'floor', 'round', 'ceil', 'fix', 'abs_same')) for x in nf.value_atoms(src[0]))
            if not good:
                det = f'stored mask {fmt(v)[:120]}: not the set of non-zero samples'
        else:
            r = Ranges()
            if r.of(v).binary and not any(is_app(x, ('cast', 'm:astype')) for x in nf.value_atoms(v)):
                good = True
            else:
                det = f'stored mask {fmt(v)[:160]}'
        ok = ok and good
    chk.ob(clause, 'R-binary', f.key, 'stored mask = support (non-zero -> 1) of the mask values as given', ok and n > 0,
           det or f'{n} path(s)', f.loc())


def sample_order_rule(chk, repo, clause):
    """Spectrum.sample evaluates the interpolant at the requested wavelengths, in the requested order:
    value k of the result belongs to wavelength k of the request."""
    f, paths, _ = analyse(repo, 'radiometry.Spectrum.sample')
    ok, n, det = True, 0, ''
    for p in returns(paths):
        cvs = [a for a in nf.value_atoms(p.ret) if is_app(a, 'callv') and isinstance(a[2][0], Poly)
               and a[2][0].single_atom() is not None and is_app(a[2][0].single_atom(), 'scipy.interpolate.interp1d')]
        if len(cvs) != 1:
            ok, det = None if ok else ok, f'undecided: result {fmt(p.ret)[:120]} is not one interp1d evaluation'
            continue
        n += 1
        arg = cvs[0][2][1] if len(cvs[0][2]) > 1 else None
        at = nf.strip_apps(arg, ('copy', 'cast', 'm:copy', 'm:ravel', 'm:reshape')) if arg is not None else None
        whole = nf.strip_apps(p.ret, ('copy', 'cast', 'm:copy', 'm:reshape')) == Poly.atom(cvs[0])
        good = at == S('wave') and whole
        if not good:
            ok, det = False, f'evaluated at {fmt(arg)[:80]}; returned {fmt(p.ret)[:60]}...'
    chk.ob(clause, 'D-order', f.key, 'values are returned for the requested wavelengths in the requested order',
           (ok and n > 0) if ok is not None else None, det or f'{n} path(s): interp(wave)', f.loc())
    # ... interpolated the way that was asked for: the interpolant is built with the caller's method and fill value on every
    # path (a silent fall-back to another order of interpolation gives other values between the samples)
    okm, nm, detm = True, 0, ''
    for p in returns(paths):
        for e in p.events:
            if e.kind == 'call' and str(e.data.get('callee', '')).endswith('scipy.interpolate.interp1d'):
                nm += 1
                kws = e.data.get('kwargs') or {}
                kind = kws.get('kind', e.data['args'][2] if len(e.data.get('args', [])) > 2 else None)
                fill = kws.get('fill_value')
                if kind != S('method'):
                    okm = False
                    detm = f'interp1d(kind={fmt(kind) if kind is not None else "default"}) [{conds_str(p)[:100]}]: not the requested method'
                elif fill is not None and fill != S('fill_value'):
                    okm = False
                    detm = f'interp1d(fill_value={fmt(fill)[:40]}) [{conds_str(p)[:100]}]: not the requested fill value'
    chk.ob(clause, 'D-flow', f.key, 'the interpolant is built with the requested method and fill value on every path',
           okm if nm else None, detm or f'{nm} interp1d call(s) with kind=method, fill_value=fill_value', f.loc())


def bayer_string_rule(chk, repo, clause):
    """format_bayer_string reads the pattern row by row: character r*dim + c is pixel (r, c)."""
    f, paths, _ = analyse(repo, 'detector.format_bayer_string')
    ok, det = None, 'construction of the pattern array not recognised'
    for p in returns(paths):
        strided = [a for a in nf.value_atoms(p.ret) if a[0] == 'idx' and isinstance(a[2], Slice) and a[2].step != NONE
                   and ('sym', 'bayer_string') in nf.value_atoms(Poly.atom(a[1]))]
        transposed = [a for a in nf.value_atoms(p.ret) if is_app(a, ('T', 'transpose', 'm:transpose', 'swapaxes', 'm:swapaxes'))
                      or (a[0] == 'attr' and a[2] == 'T')]
        ra = p.ret.single_atom() if isinstance(p.ret, Poly) else None
        forder = any(isinstance(x, Tup) and any(isinstance(pr, Tup) and pr.items[0] == Const('order') and pr.items[1] != Const('C')
                                                 for pr in x.items) for a in nf.value_atoms(p.ret) if is_app(a, 'm:reshape') for x in a[2])
        if strided or transposed or forder:
            ok, det = False, ('rows are taken with a stride through the string' if strided else
                              'the character grid is transposed / reshaped in column-major order') + \
                ': character r*dim + c does not land on pixel (r, c)'
            break
        if ra is not None and is_app(ra, 'm:reshape') and ('sym', 'bayer_string') in nf.value_atoms(ra[2][0]):
            ok, det = True, 'characters in string order reshaped to (dim, dim) in C order'
    chk.ob(clause, 'U-axis', f.key, 'the pattern string is read row-major', ok, det, f.loc())
    # the channel kernels compare the cells with 'R', 'G', 'B': the cells are the letters of the upper-cased string (a pattern
    # accepted in lower case and stored as given matches no channel)
    okc, detc = None, ''
    for p in returns(paths):
        ups = {a: S('__upper__') for a in nf.value_atoms(p.ret) if is_app(a, 'm:upper') and a[2] and a[2][0] == S('bayer_string')}
        rest = nf.subst_value(p.ret, ups) if ups else p.ret
        raw = ('sym', 'bayer_string') in nf.value_atoms(rest)
        accepts_lower = any(is_app(a, 'm:upper') for c, _pol, _n in p.conds for a in nf.value_atoms(c)) or bool(ups)
        if raw and accepts_lower:
            okc, detc = False, f'returns {fmt(p.ret)[:100]}: built from the string as given although the validity test upper-cases it'
        elif not raw and ups and okc is None:
            okc = True
    chk.ob(clause, 'T-letter', f.key, 'the cells are the letters of the upper-cased pattern', okc, detc, f.loc())


def fit_tilt_rules(chk, repo, clause):
    """Least squares against the whole piston/tip/tilt basis of the (segment's) mask; only the
    tip/tilt part is removed, per segment inside that segment's mask; the pieces are summed."""
    f, paths, _ = analyse(repo, 'plane.Plane.fit_tilt', config={'inplace': TRUE})
    opd = (nf.attr(SELF, 'opd'), nf.attr(SELF, '_opd'))
    ptt = nf.attr(SELF, 'ptt_vector')
    mono = [p for p in returns(paths) if any(c == nf.app('eq', nf.attr(SELF, 'size'), C(1)) and pol for c, pol, _ in p.conds)]
    seg = [p for p in returns(paths) if any(c == nf.app('eq', nf.attr(SELF, 'size'), C(1)) and pol is False for c, pol, _ in p.conds)]
    if not mono or not seg:
        raise AnalysisError('fit_tilt: monolithic / segmented paths not identified')
    for p in mono:
        _fit_tilt_mono(chk, f, p, opd, ptt, clause)
    for p in seg:
        _fit_tilt_seg(chk, f, p, opd, ptt, clause)


def _fit_tilt_mono(chk, f, p, opd, ptt, clause):
    ls = [e for e in p.events if e.kind == 'call' and e.data.get('callee') == 'ext:numpy.linalg.lstsq']
    okm = len(ls) == 1 and ls[0].data['args'][0] == nf.app('T', ptt) and ls[0].data['args'][1] in [nf.app('m:ravel', o) for o in opd]
    chk.ob(clause, 'D-flow', f.key, 'monolithic: least squares of the OPD against the full piston/tip/tilt basis', okm,
           ', '.join(fmt(a)[:80] for a in ls[0].data['args']) if ls else 'no lstsq', f.loc())
    st = [e for e in p.events if e.kind == 'write' and e.data.get('how') == 'attrstore' and e.data.get('attr') == 'opd']
    oks = False
    if len(st) == 1 and ls:
        v = st[0].data['value']
        t = nf.index(Poly.atom(('app', 'linalg.lstsq', tuple(ls[0].data['args']) +
                                (Tup([Tup([Const('rcond'), NONE])]),))), C(0))
        corr = None
        for o in opd:
            if isinstance(v, Poly) and (o - v) is not None:
                d = o - v
                da = d.single_atom()
                if da is not None and is_app(da, 'm:reshape'):
                    corr = da
        oks = corr is not None and corr[2][1] in [nf.attr(o, 'shape') for o in opd]
    chk.ob(clause, 'D-flow', f.key, 'monolithic: OPD := OPD - (tip/tilt ramp reshaped to the OPD)', oks, '', f.loc())


def _explicit_ramp(ramp, ptt, k):
    """ramp = sum over j in {1, 2} of coeff[j] * ptt[3k + j] -> True; rows of another segment, the piston row, or a
    coefficient paired with the wrong row -> False; anything else -> None"""
    if not isinstance(ramp, Poly) or not ramp.terms:
        return None
    rows = []
    for m, c in ramp.terms:
        basis = [a for a, e in m if a[0] == 'idx' and Poly.atom(a[1]) == ptt and isinstance(a[2], Poly)]
        coefs = [a for a, e in m if a[0] == 'idx' and isinstance(a[2], Poly) and a[2].const_value() is not None
                 and any(is_app(x, 'linalg.lstsq') or x[0] == 'loop' for x in nf.value_atoms(Poly.atom(a[1])))]
        if len(basis) != 1 or len(coefs) != 1 or c != 1:
            return None
        j = basis[0][2] - 3 * k
        if j.const_value() is None:
            return False                    # a row of another segment's block
        rows.append((int(j.const_value()), int(coefs[0][2].const_value())))
    if sorted(rows) == [(1, 1), (2, 2)]:
        return True
    return False


def _fit_tilt_seg(chk, f, p, opd, ptt, clause):
    lps = [lp for lp in p.state.loops if lp['func'] == f.key]
    if not lps:
        raise AnalysisError('fit_tilt: segment loop not found')
    lp = lps[0]
    okl = oko = None
    det = ''
    nv = lambda x: nf.block_rows_view(x, ptt, nf.attr(SELF, 'size'), 3) if isinstance(x, (Poly, Tup)) else x
    mask_atoms = (nf.attr(SELF, 'mask').single_atom(), nf.attr(SELF, '_mask').single_atom())
    for bs in lp['states']:
        evs = bs.events[lp['n_pre_events']:]
        ls = [e for e in evs if e.kind == 'call' and e.data.get('callee') == 'ext:numpy.linalg.lstsq']
        if not ls:
            continue
        # the segment index k: the basis handed to the fit is T(ptt[lo:lo+3]) with lo = 3k (views of the basis normalised)
        a0 = nv(ls[0].data['args'][0])
        ta = a0.single_atom() if isinstance(a0, Poly) else None
        ra = ta[2][0].single_atom() if ta is not None and is_app(ta, 'T') and isinstance(ta[2][0], Poly) else None
        k = None
        if ra is not None and ra[0] == 'idx' and Poly.atom(ra[1]) == ptt and isinstance(ra[2], Slice) and ra[2].hi - ra[2].lo == C(3):
            k = ra[2].lo / 3
        det = ', '.join(fmt(nv(a))[:90] for a in ls[0].data['args'])
        if k is None:
            okl = False
            continue
        okl = ls[0].data['args'][1] in [nf.app('m:ravel', o) for o in opd] and not (k.const_value() is not None)
        for e in evs:
            if e.kind == 'write' and e.data.get('how') == 'setitem' and isinstance(e.data.get('value'), Poly):
                v = nv(e.data['value'])
                masks = [x for x in v.atoms(deep=False) if x[0] == 'idx' and x[1] in mask_atoms]
                if len(masks) != 1:
                    continue
                if masks[0][2] != k:
                    oko = False         # the piece of segment k is cut out with another segment's mask
                    continue
                inner = v / Poly.atom(masks[0])
                for o in opd:
                    d = o - inner
                    da = d.single_atom() if isinstance(d, Poly) else None
                    if da is not None and is_app(da, 'm:reshape'):
                        es = da[2][0].single_atom()
                        if es is not None and is_app(es, 'einsum'):
                            good = es[2][1] == nf.index(ptt, Slice(3 * k + 1, 3 * k + 3))
                        elif es is not None and is_app(es, ('matmul', 'dot', 'tensordot', 'inner')) and len(es[2]) >= 2:
                            # coefficients @ rows: the rows must be the two tilt rows of this segment's block (the whole block
                            # would take the fitted piston out as well, which is recorded nowhere)
                            rows = [x for x in es[2][:2] if isinstance(x, Poly) and x.single_atom() is not None and
                                    x.single_atom()[0] == 'idx' and Poly.atom(x.single_atom()[1]) == ptt]
                            rows = [nv(x) for x in rows] or [nv(x) for x in es[2][:2] if isinstance(x, Poly) and
                                                             ptt.single_atom() in nf.value_atoms(x)]
                            if any(x == nf.index(ptt, Slice(3 * k + 1, 3 * k + 3)) for x in rows):
                                good = True
                            elif any(x == nf.index(ptt, Slice(3 * k, 3 * k + 3)) for x in rows):
                                good = False
                            else:
                                good = None
                        else:
                            # the ramp written out: c[1]*basis[3k+1] + c[2]*basis[3k+2] (each coefficient with its own row)
                            good = _explicit_ramp(da[2][0], ptt, k)
                            if good is None:
                                inner_ramps = [x for x in nf.value_atoms(da[2][0]) if is_app(x, 'einsum') and len(x[2]) > 1
                                               and x[2][1] == nf.index(ptt, Slice(3 * k + 1, 3 * k + 3))]
                                if inner_ramps and da[2][0] != Poly.atom(inner_ramps[0]):
                                    # the fitted ramp is in there, but it is not what is subtracted: it was altered (de-meaned,
                                    # scaled, clipped) after the fit while the recorded angles stay those of the fit
                                    good = False
                        if good is not None:
                            oko = good if oko is None else (oko and good)
    chk.ob(clause, 'D-flow', f.key, 'segmented: each segment is fitted against its own three basis rows', okl, det, f.loc())
    chk.ob(clause, 'D-flow', f.key, 'segmented: (OPD - that segment\'s tip/tilt ramp) * that segment\'s mask', oko, '', f.loc())
    st = [e for e in p.events if e.kind == 'write' and e.data.get('how') == 'attrstore' and e.data.get('attr') == 'opd']
    okt = False
    if len(st) == 1:
        a = st[0].data['value'].single_atom() if isinstance(st[0].data['value'], Poly) else None
        okt = a is not None and is_app(a, 'sum') and a[2][0].single_atom() is not None and a[2][0].single_atom()[0] == 'loop' \
            and any(isinstance(x, Tup) and x.items and x.items[0] == Tup([Const('axis'), C(0)]) for x in a[2][1:])
        if not okt and a is not None and is_app(a, 'sum') and not (a[2][0].single_atom() is not None and a[2][0].single_atom()[0] == 'loop'):
            okt = None      # what is summed is not recognisably the per-segment stack
    chk.ob(clause, 'D-flow', f.key, 'segmented: the new OPD is the sum of the per-segment pieces over the segment axis', okt, '', f.loc())


def ptt_mask_rule(chk, repo, clause):
    """The basis is masked: monolithic by the mask, segmented rows 3k..3k+2 by segment k's mask."""
    from .c04 import ptt_rows
    f, mesh, mono, seg = ptt_rows(repo)
    mask = (nf.attr(SELF, 'mask'), nf.attr(SELF, '_mask'))

    def carries(rows, ms):
        """every row has exactly one factor ravel(m), m one of ms"""
        for m in ms:
            mv = nf.app('m:ravel', m).single_atom()
            if all(all(dict(mono_).get(mv) == 1 for mono_, _ in r.terms) and r.terms for r in rows):
                return True
        return False

    if mono is None:
        chk.undecided(clause, 'D-flow', f.key, 'monolithic basis is multiplied by the mask',
                      'the monolithic result is not built as three row arrays', f.loc())
    else:
        chk.ob(clause, 'D-flow', f.key, 'monolithic basis is multiplied by the mask', carries(mono, mask),
               '; '.join(fmt(r)[:80] for r in mono), f.loc())
    if not seg:
        chk.undecided(clause, 'D-flow', f.key, "segmented basis: rows 3k..3k+2 carry segment k's mask",
                      'no per-segment block store of three row arrays found', f.loc())
        return
    oks, det = True, ''
    for key, rows, k, e in seg:
        good_key = key.lo == 3 * k and key.hi == 3 * k + 3 and key.step in (NONE, None)
        good_mask = carries(rows, [nf.index(m, k) for m in mask])
        oks = oks and good_key and good_mask
        det = f'rows {fmt(key.lo)}:{fmt(key.hi)} <- {fmt(rows[0])[:100]}'
    lp_ok = False
    for key, rows, k, e in seg:
        lp_ok = True
    chk.ob(clause, 'D-flow', f.key, 'segmented basis: rows 3k..3k+2 carry segment k\'s mask', oks and lp_ok, det, f.loc())


def pixelate_rule(chk, repo, clause):
    f, paths, _ = analyse(repo, 'detector.pixelate')
    ok = False
    det = ''
    for p in returns(paths):
        a = p.ret.single_atom() if isinstance(p.ret, Poly) else None
        if a is not None and is_app(a, 'call:util.rescale'):
            b = bound_of(a)
            img = b.get('img').single_atom() if isinstance(b.get('img'), Poly) else None
            ok = img is not None and is_app(img, 'call:detector.pixel') and bound_of(img).get('img') == S('img') and \
                bound_of(img).get('oversample') == S('oversample') and b.get('scale') == S('oversample').pow(-1) and \
                b.get('unitary') == TRUE and b.get('shape') == NONE and b.get('mask') == NONE
        det = fmt(p.ret)[:200]
    chk.ob(clause, 'D-flow', f.key, 'pixelate = pixel(img, oversample) rescaled by 1/oversample, flux preserving', ok, det, f.loc())


def hex_grid_rules(chk, repo, clause):
    f, paths, _ = analyse(repo, 'segmented.hex_to_xy')
    q, r_ = nf.attr(S('hex'), 'q'), nf.attr(S('hex'), 'r')
    rad = S('radius')
    s3 = Poly.const(3).pow(Fraction(1, 2))
    want = {True: Tup([rad * (s3 * q + s3 / 2 * r_), rad * (Poly.const(Fraction(3, 2)) * r_)]),
            False: Tup([rad * (Poly.const(Fraction(3, 2)) * q), rad * (s3 / 2 * q + s3 * r_)])}
    for p in returns(paths):
        pol = [pl for c, pl, _ in p.conds if c == S('rotate')]
        if len(pol) != 1:
            raise AnalysisError('hex_to_xy: orientation branch not recognised')
        chk.ob(clause, 'N-formula', f.key, f'axial -> cartesian map of the hexagonal grid [rotate={pol[0]}]',
               p.ret == want[pol[0]], f'{fmt(p.ret)}; expected {fmt(want[pol[0]])}', f.loc(p.node))
    f, paths, _ = analyse(repo, 'segmented.hex_to_rc')
    for p in returns(paths):
        c = p.calls('segmented.hex_to_xy')
        ok = len(c) == 1 and p.ret == Tup([-nf.index(c[0].result, C(1)), nf.index(c[0].result, C(0))]) and \
            c[0].bound.get('hex') == S('hex') and c[0].bound.get('radius') == S('radius') and c[0].bound.get('rotate') == S('rotate')
        if not ok and not c and isinstance(p.ret, Tup) and len(p.ret) == 2:
            # the cartesian map written out in place: (row, col) = (-y, x) of the same formulas
            pol = [pl for cnd, pl, _ in p.conds if cnd == S('rotate')]
            if len(pol) == 1:
                xy = want[pol[0]]
                ok = p.ret == Tup([-xy.items[1], xy.items[0]])
        chk.ob(clause, 'N-formula', f.key, '(row, col) = (-y, x)', ok, fmt(p.ret)[:160], f.loc(p.node))
    f, paths, _ = analyse(repo, 'segmented.hex_segments')
    ok_pitch = None
    for p in returns(paths):
        if p.calls('segmented.hex_to_rc'):
            ok_pitch = False
        for e in p.calls('segmented.hex_to_rc'):
            ok_pitch = e.bound.get('radius') == S('seg_radius') + S('seg_gap') / 2 and e.bound.get('rotate') == S('rotate')
        for e in p.calls('shape.hexagon'):
            sh = e.bound.get('shift')
            if isinstance(sh, Tup) and not all(isinstance(i, Poly) and i.is_zero() for i in sh.items):
                rc = p.calls('segmented.hex_to_rc')
                ok_pitch = ok_pitch and rc and sh == Tup([nf.index(rc[0].result, C(0)), nf.index(rc[0].result, C(1))])
    chk.ob(clause, 'N-formula', f.key, 'segment pitch = seg_radius + seg_gap/2; each ring segment is shifted to its grid position',
           bool(ok_pitch) if ok_pitch is not None else None,
           '' if ok_pitch is not None else 'undecided: the grid-position call is not visible in hex_segments itself', f.loc())


def sampling_rules(chk, repo, clause):
    f, paths, _ = analyse(repo, 'radiometry._intersect')
    sub, sup = S('subset'), S('superset')
    want = nf.app('nonzero', nf.app('bitand', nf.app('le', nf.app('amin', sub), sup), nf.app('le', sup, nf.app('amax', sub))))
    rets = returns(paths)
    want_mask = nf.app('bitand', nf.app('le', nf.app('amin', sub), sup), nf.app('le', sup, nf.app('amax', sub)))
    def ss(x, side):
        return [nf.app('numpy.searchsorted', sup, x, Tup([Tup([Const('side'), Const(side)])])) if side else
                nf.app('numpy.searchsorted', sup, x)]
    # on an increasing grid the samples inside [min, max] are the run from the first one >= min up to the last one <= max
    want_slices = [nf.Slice(lo, hi, st) for lo in ss(nf.app('amin', sub), 'left') + ss(nf.app('amin', sub), None)
                   for hi in ss(nf.app('amax', sub), 'right') for st in (NONE, C(1))]
    ok_i, det_i = None, 'result not understood'
    if len(rets) == 1:
        r = rets[0].ret
        det_i = fmt(r)[:200]
        if r in (want, want_mask) or r in want_slices:
            ok_i = True
        else:
            vocabulary = ('nonzero', 'bitand', 'and', 'le', 'lt', 'amin', 'amax', 'numpy.searchsorted', 'where')
            parts = [r.lo, r.hi] if isinstance(r, nf.Slice) else [r]
            if all(isinstance(x, (Poly, Const)) for x in parts) and \
                    all(a[0] == 'sym' or is_app(a, vocabulary) for x in parts if isinstance(x, Poly) for a in x.atoms(deep=True)):
                ok_i = False        # the same building blocks put together differently: another set of samples
            elif isinstance(r, nf.Slice) and any(
                    is_app(a, ('floor', 'ceil', 'round', 'rint', 'fix', 'trunc')) and isinstance(a[2][0], Poly) and
                    any(e < 0 for m_, _c in a[2][0].terms for _a, e in m_)
                    for x in parts if isinstance(x, Poly) for a in nf.value_atoms(x)):
                # slots computed as floor / ceil of (wavelength - start)/step: the quotient of floating-point wavelengths
                # comes out one rounding unit below or above the integer it stands for, and then the end sample of an
                # operand (the end of the common range included) is left at the fill value - in some units and not in others
                ok_i = False
                det_i = 'membership decided by a rounded quotient, not by comparing wavelengths: ' + det_i[:140]
    chk.ob(clause, 'T-comparison', f.key, 'samples of the common grid inside the closed range of the operand', ok_i, det_i, f.loc())
    f, paths, _ = analyse(repo, 'radiometry._sampling', config={'method': Const('min')})
    wave = S('wave')

    def is_min(v):
        a = v.single_atom() if isinstance(v, Poly) else None
        return a if a is not None and is_app(a, ('amin', 'min', 'm:min', 'nanmin')) else None

    def steps_of(x, of):
        """x is the smallest spacing of `of`: amin(diff(of)) or the same via _sampling(of, 'min')"""
        a = is_min(x)
        if a is not None:
            inner = a[2][0]
            d = inner.single_atom() if isinstance(inner, Poly) else None
            if d is not None and is_app(d, ('diff', 'ediff1d')) and nf.strip_apps(d[2][0], ('asarray', 'copy', 'array')) == of:
                return True
            if isinstance(inner, Poly) and inner == nf.index(of, nf.Slice(C(1), NONE)) - nf.index(of, nf.Slice(NONE, C(-1))):
                return True
            return None
        a = x.single_atom() if isinstance(x, Poly) else None
        if a is not None and is_app(a, 'call:radiometry._sampling'):
            b = {k.items[0].value: k.items[1] for k in a[2] if isinstance(k, Tup)}
            if nf.strip_apps(b.get('wave'), ('asarray', 'copy', 'array')) == of and b.get('method') in (Const('min'), None):
                return True
        return None

    ok_arr = ok_list = None
    det_arr = det_list = 'path not found'
    for p in returns(paths):
        if p.ret is None or p.ret == NONE:
            continue            # neither an array nor a list of arrays: nothing to sample
        listy = any(pol and 'list' in fmt(c) for c, pol, _ in p.conds)
        if not listy:
            r = steps_of(p.ret, wave)
            det_arr = f'returns {fmt(p.ret)[:120]}'
            if r:
                ok_arr = True
            elif is_min(p.ret) is None and not any(is_app(x, ('amin', 'min', 'm:min', 'sort', 'partition')) or x[0] == 'loop'
                                                   for x in nf.value_atoms(p.ret)):
                ok_arr = False          # no minimum is taken at all: one particular step is not the finest one
                det_arr += ', which is not a minimum over the spacings of the grid'
        else:
            det_list = f'returns {fmt(p.ret)[:160]}'
            a = is_min(p.ret)
            if a is None:
                if not any(is_app(x, ('amin', 'min', 'm:min')) or x[0] == 'loop' for x in nf.value_atoms(p.ret)):
                    ok_list, det_list = False, det_list + ', which is not a minimum over the operands'
                continue
            inner0 = nf.strip_apps(a[2][0], ('copy', 'cast', 'asarray', 'array'))
            inner = inner0.single_atom() if isinstance(inner0, Poly) else None
            elem = None
            if inner is not None and is_app(inner, ('diff', 'ediff1d')) and any(
                    x[0] == 'app' and isinstance(x[1], str) and x[1].split('.')[-1] in ('hstack', 'concatenate', 'union1d', 'r_')
                    for x in nf.value_atoms(inner[2][0])):
                # the spacing of the two grids merged into one: samples of one operand falling between samples of the other
                # make it finer than the sampling of either (offset or interleaved grids)
                ok_list, det_list = False, det_list + ': the smallest gap of the merged grids, not the finer of the two samplings'
                continue
            if inner is not None and inner[0] == 'loop':
                for lp in p.state.loops:
                    for ends in lp['ends']:
                        for nm, v in ends.items():
                            va = v.single_atom() if isinstance(v, Poly) else None
                            if va is not None and is_app(va, 'append') and lp['iter'] == wave:
                                elem = va[2][1]
            elif inner is not None and is_app(inner, ('listcomp', 'genexp')) and inner[2][-1] == wave:
                elem = inner[2][0]
            if elem is not None:
                its = [x for x in nf.value_atoms(elem) if x[0] == 'iter']
                if its:
                    r = steps_of(elem, nf.index(wave, Poly.atom(its[0])))
                    if r:
                        ok_list = True
                    elif not any(is_app(x, ('amin', 'min', 'm:min', 'call:radiometry._sampling')) for x in nf.value_atoms(elem)):
                        ok_list, det_list = False, det_list + ': the per-operand value is not its smallest step'
    chk.ob(clause, 'D-flow', f.key, "sampling 'min' of one grid = its smallest step min(diff(wave))", ok_arr, det_arr, f.loc())
    chk.ob(clause, 'D-flow', f.key, "sampling 'min' = the smallest step found in either operand", ok_list, det_list, f.loc())
    for m, k in (('left', 0), ('right', 1)):
        _, ps, _ = analyse(repo, 'radiometry._sampling', config={'method': Const(m)})
        good, det = None, ''
        for p in returns(ps):
            r = steps_of(p.ret, nf.index(wave, C(k)))
            det = f'returns {fmt(p.ret)[:120]}'
            if r:
                good = True if good is None else good
            else:
                other = steps_of(p.ret, nf.index(wave, C(1 - k)))
                good = False if other else (None if good is not False else good)
        chk.ob(clause, 'D-flow', f.key, f"sampling '{m}' = the smallest step of operand {k}", good, det, f.loc())
    # a number is the step itself: coarser or finer than the operands' own sampling, as requested
    _, ps, _ = analyse(repo, 'radiometry._sampling', config={'method': S('method')})
    num = [p for p in returns(ps) if any(pol and any(is_app(x, ('numpy.isscalar', 'isscalar')) or
                                                          (is_app(x, 'isinstance') and 'float' in fmt(Poly.atom(x)))
                                                          for x in nf.value_atoms(c)) for c, pol, _ in p.conds)]
    okn = (all(p.ret == S('method') for p in num)) if num else None
    chk.ob(clause, 'D-flow', f.key, 'a numeric sampling is the step that is used', okn,
           '; '.join(sorted({f'returns {fmt(p.ret)[:80]}' for p in num if p.ret != S('method')})) or f'{len(num)} path(s) return the number', f.loc())
    # ... whatever kind of number it is: an int, a numpy integer or a float32 is a step just as a Python float is
    narrow, seen_t = [], 0
    for p in num:
        for c, pol, _ in p.conds:
            for x in nf.value_atoms(c):
                if is_app(x, 'isinstance') and pol and len(x[2]) > 1 and x[2][0] == S('method'):
                    seen_t += 1
                    txt = repr(x[2][1])
                    wide = any(k in txt for k in ('numpy.number', 'numpy.generic', 'numpy.floating', 'numbers.Number', 'numbers.Real',
                                                  'numpy.ScalarType'))
                    if not wide and not ("'int'" in txt and "'float'" in txt and 'numpy.' in txt):
                        narrow.append(f'isinstance(method, {txt[:60]})')
                elif is_app(x, ('numpy.isscalar', 'isscalar')) and pol:
                    seen_t += 1
    chk.ob(clause, 'T-dispatch', f.key, 'every real number is accepted as a numeric sampling (ints and numpy scalars included)',
           (not narrow) if seen_t else None,
           ('; '.join(sorted(set(narrow))[:2]) + ': `sampling=2` or `sampling=np.float32(0.5)` is refused as an unknown method') if narrow
           else f'{seen_t} type test(s)', f.loc())


def zernike_polar_rules(chk, repo, clause):
    f, paths, _ = analyse(repo, 'zernike.zernike_coordinates', config={'shift': pair('shift')})
    for p in returns(paths):
        mesh = p.calls('helper.mesh')
        if len(mesh) != 1 or not (isinstance(p.ret, Tup) and len(p.ret) == 2):
            raise AnalysisError('zernike_coordinates: mesh call / result pair not found')
        rr, cc = nf.index(mesh[0].result, C(0)), nf.index(mesh[0].result, C(1))
        rho, theta = p.ret.items
        r = nf.app('abs', rr + nf.I * cc)
        mx = [a for a in rho.atoms(deep=True) if is_app(a, 'amax')]
        ok_r = len(mx) == 1 and rho * Poly.atom(mx[0]) == r
        chk.ob(clause, 'N-formula', f.key, 'radius = |row + i*col| of the mesh (isotropic)', ok_r, fmt(rho)[:200], f.loc(p.node))
        ang = (90 - S('rotate')) * nf.PI / 180
        want_t = nf.app('angle', -rr * nf.app('exp', nf.I * ang) + nf.I * cc * nf.app('exp', nf.I * ang))
        chk.ob(clause, 'N-formula', f.key, 'angle measured from the x axis with +y towards decreasing row', theta == want_t,
               f'{fmt(theta)[:200]}', f.loc(p.node))
        chk.ob(clause, 'D-flow', f.key, 'a caller-supplied shift is passed to the mesh unchanged',
               mesh[0].bound.get('shift') == pair('shift'), fmt(mesh[0].bound.get('shift')), f.loc(mesh[0].node))


def wavefront_ctor_rules(chk, repo, clause):
    f, paths, _ = analyse(repo, 'wavefront.Wavefront.empty')
    ok = bool(returns(paths))
    for p in returns(paths):
        st = {e.data['attr']: e.data['value'] for e in p.events if e.kind == 'write' and e.data.get('how') == 'attrstore'
              and e.target == p.ret}
        shp = st.get('shape')
        ok = ok and st.get('data') == Tup([], 'list') and (shp == S('shape') or shp == Tup([]))
    chk.ob(clause, 'D-flow', f.key, 'an empty wavefront has no fields and the requested shape', ok, '', f.loc())
    f, paths, _ = analyse(repo, 'wavefront.Wavefront.__init__', config={'tilt': NONE})
    ok = False
    for p in paths:
        if p.status == 'raise':
            continue
        fs = [e for e in p.events if e.kind == 'call' and e.data.get('new') == 'field.Field']
        if len(fs) == 1:
            d = fs[0].bound.get('data')
            unit = nf.strip_apps(d) == nf.ONE
            ok = unit and fs[0].bound.get('offset') == NONE and fs[0].bound.get('tilt') == NONE
    chk.ob(clause, 'D-flow', f.key, 'a new wavefront is the unit plane wave (one field of value 1, no offset, no tilt)', ok, '', f.loc())


def rescale_unitary_rule(chk, repo, clause):
    """util.rescale (real images): result = interpolated * [sum(img)/sum(interpolated) if unitary] * post-mask."""
    for unitary, label in ((TRUE, 'unitary=True'), (FALSE, 'unitary=False')):
        f, paths, _ = analyse(repo, 'util.rescale', config={'unitary': unitary, 'shape': NONE, 'mask': S('mask')})
        ok, det, n = True, '', 0
        for p in returns(paths):
            if any(pol and 'iscomplexobj' in fmt(c) for c, pol, _ in p.conds):
                continue
            if any(pol and fmt(c) == 'is(mask, (None))' for c, pol, _ in p.conds):
                continue
            n += 1
            r = nf.unwiden(p.ret)       # an integer image may be promoted to floating point first: same values
            interp = [a for a in r.atoms(deep=False) if is_app(a, 'scipy.ndimage.map_coordinates') and a[2][0] == S('img')] \
                if isinstance(r, Poly) else []
            masks = [a for a in r.atoms(deep=False) if is_app(a, 'setitem') or
                     (is_app(a, 'where') and len(a[2]) == 3 and isinstance(a[2][1], Poly) and a[2][1].is_zero())] \
                if isinstance(r, Poly) else []
            if len(interp) != 1 or len(masks) != 1:
                ok, det = False, f'result {fmt(r)[:160]}'
                continue
            I_, M_ = Poly.atom(interp[0]), Poly.atom(masks[0])
            want = I_ * M_ * (nf.app('sum', S('img')) / nf.app('sum', I_) if unitary is TRUE else 1)
            if r != want:
                ok, det = False, f'result/(interpolated*mask) = {fmt(r / (I_ * M_))[:160]}'
            # the interpolated mask with its round-off floor cut away: m[m < eps] = 0, or the same as a selection
            mv = masks[0][2][0] if is_app(masks[0], 'setitem') else masks[0][2][2]
            ma = mv.single_atom() if isinstance(mv, Poly) else None
            if ma is None or not is_app(ma, 'scipy.ndimage.map_coordinates') or nf.unwiden(ma[2][0]) != S('mask'):
                ok, det = False, 'the post-mask is not the interpolated mask'
        chk.ob(clause, 'N-identity', f.key, f'real image: interpolated x normalisation x post-mask [{label}]', ok and n > 0, det, f.loc())


def bayer_tiling_rule(chk, repo, clause):
    from .c16 import bayer_channels
    f = repo.func('detector.collect_charge_bayer')
    osf = S('oversample')
    for chans in bayer_channels(repo):
        for col in ('red', 'green', 'blue'):
            v, es, qc = chans[col]
            img = es[2][1]
            ish = nf.attr(img, 'shape')
            mos = v / Poly.atom(es)
            a = mos.single_atom() if isinstance(mos, Poly) else None
            ok, det = None, fmt(mos)[:200]
            if a is not None and is_app(a, ('kron', 'repeat')):
                tile = a[2][0].single_atom() if isinstance(a[2][0], Poly) else None
                if tile is not None and is_app(tile, 'tile') and isinstance(tile[2][1], Tup) and len(tile[2][1]) == 2:
                    ker = tile[2][0]
                    ksh = nf.attr(ker, 'shape')
                    reps = tile[2][1].items
                    want = (nf.floor(nf.floor(nf.index(ish, C(1)) / osf) / nf.index(ksh, C(0))),
                            nf.floor(nf.floor(nf.index(ish, C(2)) / osf) / nf.index(ksh, C(1))))
                    ok = reps[0] == want[0] and reps[1] == want[1]
                    if is_app(a, 'kron'):
                        on = a[2][1].single_atom() if isinstance(a[2][1], Poly) else None
                        ok = ok and on is not None and is_app(on, 'ones') and isinstance(on[2][0], Tup) and \
                            tuple(on[2][0].items) == (osf, osf)
                    det = f'tile repetitions {fmt(reps[0])[:80]} x {fmt(reps[1])[:80]}'
            chk.ob(clause, 'U-axis', f.key, f'{col} pattern tiled (rows//os)//k0 x (cols//os)//k1 times, then each cell repeated os x os',
                   ok, det, f.loc())


def _opaque_lookup(v):
    """the value goes through a callable / record fetched from a container the interpreter did not evaluate"""
    return any(is_app(a, ('callv', 'm:get')) or (a[0] == 'attr' and a[1][0] == 'fresh') or
               (a[0] == 'idx' and a[1][0] == 'sym' and '.' in a[1][1] and a[1][1].split('.')[-1].isupper())      # MODULE_TABLE[key] left as it is
               for a in nf.value_atoms(v))


def vegaflux_rule(chk, repo, clause):
    f, paths, _ = analyse(repo, 'radiometry.vegaflux', config={'valueunit': Const('photlam'), 'band': Const('V')},
                          symbolic_globals=True, literal_tables=True, inline=['radiometry.Photlam.to'])
    rets = returns(paths)
    ok, det = False, ''
    if len(rets) == 1 and isinstance(rets[0].ret, Tup) and len(rets[0].ret) == 2:
        flux, wave = rets[0].ret.items
        mt = [a for a in nf.value_atoms(flux) if is_app(a, 'call:radiometry.Meter.to')]
        if len(mt) == 1:
            M = Poly.atom(mt[0])
            w0, jy = Poly.const(Fraction('545e-9')), Poly.const(3636)
            want_flux = jy * Poly.const(Fraction('1e-26')) / (S('radiometry.H') * w0) / M
            ok = flux == want_flux and wave == w0 * M
            det = f'flux = {fmt(flux)}, wave = {fmt(wave)}'
            if not ok and _opaque_lookup(flux):
                ok, det = None, 'undecided: the conversion is taken from a table that is not evaluated: ' + det[:160]
    chk.ob(clause, 'N-formula', f.key, 'zero point: Jy*1e-26*c/lambda^2 [W/m^2/m] / (h*c/lambda) photons, per requested wavelength unit',
           ok, det, f.loc())
    # other flux units: the photon -> energy conversion needs the wavelength in metres (h*c/lambda)
    for vu, factor in (('wlam', Poly.const(1)), ('flam', Poly.const(Fraction('1e7')) * Poly.const(Fraction('1e-4')))):
        f, paths, _ = analyse(repo, 'radiometry.vegaflux', config={'valueunit': Const(vu), 'band': Const('V')},
                              symbolic_globals=True, inline=['radiometry.Photlam.to'], literal_tables=True)
        rets = returns(paths)
        ok2, det2 = None, 'result not understood'
        if len(rets) == 1 and isinstance(rets[0].ret, Tup) and len(rets[0].ret) == 2:
            flux, wave = rets[0].ret.items
            mt = [a for a in nf.value_atoms(flux) if is_app(a, 'call:radiometry.Meter.to')]
            if len(mt) == 1 and isinstance(flux, Poly):
                M = Poly.atom(mt[0])
                w0, jy = Poly.const(Fraction('545e-9')), Poly.const(3636)
                want = jy * Poly.const(Fraction('1e-26')) * S('radiometry.C') / w0 ** 2 * factor / M
                ok2 = flux == want and wave == w0 * M
                det2 = f'flux = {fmt(flux)}; expected {fmt(want)}'
                if not ok2 and _opaque_lookup(flux):
                    ok2, det2 = None, 'undecided: the conversion is taken from a table that is not evaluated: ' + det2[:160]
        chk.ob(clause, 'N-formula', f.key, f'zero point in {vu}: photons * h*c/lambda with lambda in metres, per requested wavelength unit',
               ok2, det2, f.loc())
