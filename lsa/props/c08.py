"""C08 - plane-type state machine follows the documented tables."""
import ast

from .. import nf, tables
from ..nf import Poly, Tup, Const, NONE
from ..interp import Interp
from ..state import State
from ..model import AnalysisError, dotted
from ..rules import run as analyse, returns, fmt, root_sym, is_app, seg, S, conds_str

DOC_CLASSES_MODULE = 'plane'


def pt(name):
    return Const(('ptype', name))


def pt_name(v):
    if isinstance(v, Const) and isinstance(v.value, tuple) and v.value[0] == 'ptype':
        return v.value[1]
    if v == NONE:
        return 'none'
    return None


class _Either:
    """Matches a property read either un-inlined (.ptype) or inlined (._ptype)."""
    def __init__(self, *alts):
        self.alts = alts

    def __eq__(self, other):
        return any(a == other for a in self.alts)

    __hash__ = None


def construct_paths(repo, cls):
    """Abstractly construct ``cls`` with symbolic required arguments."""
    init = cls.find_method('__init__')
    req = [n for n, d, k in init.params()[1:] if k == 'pos' and d is None] if init else []
    src = f'__obj = {cls.name}({", ".join(f"{r}={r}" for r in req)})'
    stmt = ast.parse(src).body[0]
    inits = [f.key for f in repo.all_functions() if f.name == '__init__' and f.module.name == 'plane']
    ip = Interp(repo, inline=inits, inline_ctor=[c.key for c in repo.modules['plane'].classes.values()])
    ip.cur = init or repo.func('plane.Plane.__init__')
    ip.stack.append('<synthetic>')
    st = State()
    for r in req:
        st.env[r] = nf.sym(r)
    cont, done = ip.exec_block([stmt], [st])
    return cont, done


def optional_attribute_rule(chk, repo, clause):
    """Attributes a plane may leave unset (their constructor default is None: focal length, pixel scale, diameter) are handed
    on as they are inside `multiply`: a conversion (`float(...)`, `int(...)`, arithmetic) raises TypeError for the default and
    turns an allowed product into a refusal."""
    import ast as _ast
    bad, n = [], 0
    for cls in repo.modules['plane'].classes.values():
        fm = cls.methods.get('multiply') if isinstance(cls.methods, dict) else None
        init = cls.find_method('__init__')
        if fm is None or init is None:
            continue
        a = init.node.args
        pos = a.posonlyargs + a.args
        optional = {x.arg for x, d in zip(pos[len(pos) - len(a.defaults):], a.defaults) if isinstance(d, _ast.Constant) and d.value is None}
        optional |= {x.arg for x, d in zip(a.kwonlyargs, a.kw_defaults) if isinstance(d, _ast.Constant) and d.value is None}
        optional &= {'focal_length', 'pixelscale', 'diameter'}
        if not optional:
            continue
        n += 1
        for node in _ast.walk(fm.node):
            if isinstance(node, _ast.Call) and isinstance(node.func, _ast.Name) and node.func.id in ('float', 'int', 'complex') and node.args:
                arg = node.args[0]
                if isinstance(arg, _ast.Attribute) and isinstance(arg.value, _ast.Name) and arg.value.id == 'self' and arg.attr in optional:
                    guarded = any(isinstance(t, _ast.If) and node in list(_ast.walk(t)) and 'None' in (fm.module.segment(t.test) or '')
                                  for t in _ast.walk(fm.node))
                    if not guarded:
                        bad.append(f'{fm.key}: `{fm.module.segment(node)}` at {fm.loc(node)}')
    chk.ob(clause, 'D-flow', 'lentil.plane', 'optional plane attributes (default None) are not converted inside multiply',
           (not bad) if n else None, '; '.join(bad[:2]) + (': a plane built without that attribute cannot be applied although the type table allows it'
                                                             if bad else f'{n} plane class(es) with optional attributes'), '')


def defined_attribute_rule(chk, repo, clause):
    """A plane needs no pixel scale to be applied (scalar and un-sampled planes have none): once the type table has
    accepted the pair, `multiply` evaluates only attributes that are defined for such a plane.  Which attributes are not
    is computed: a property whose getter, with the pixel scale None, returns arithmetic on None or raises."""
    import ast as _ast
    cls = repo.cls('plane.Plane')
    facts = {nf.attr(S('self'), '_pixelscale').single_atom(): NONE, nf.attr(S('self'), 'pixelscale').single_atom(): NONE}
    partial = {}
    for m in (cls.methods.values() if isinstance(cls.methods, dict) else cls.methods):
        if not m.is_property:
            continue
        try:
            _, pp, _ = analyse(repo, m, facts=facts, types={('sym', 'self'): cls})
        except AnalysisError:
            continue
        for p in pp:
            r = p.ret
            if p.status == 'raise':
                partial[m.name] = 'raises without a pixel scale'
            elif isinstance(r, Poly) and r != NONE and any(a[0] == 'val' and a[1] == NONE for a in nf.value_atoms(r)):
                partial[m.name] = 'computes with the pixel scale'
    bad, n = [], 0
    for c in [k for mod in repo.modules.values() for k in mod.classes.values()]:
        if c is not cls and cls not in getattr(c, 'mro', lambda: [])() and not any((b or '').split('.')[-1] in ('Plane', 'Pupil', 'Image', 'TiltInterface', 'Tilt') for b in c.base_exprs):
            continue
        fm = c.methods.get('multiply') if isinstance(c.methods, dict) else next((m for m in c.methods if m.name == 'multiply'), None)
        if fm is None:
            continue
        n += 1
        for node in _ast.walk(fm.node):
            if isinstance(node, _ast.Attribute) and isinstance(node.value, _ast.Name) and node.value.id == 'self' \
                    and isinstance(node.ctx, _ast.Load) and node.attr in partial:
                bad.append(f'{fm.key} reads self.{node.attr} at {fm.loc(node)} ({partial[node.attr]})')
    chk.ob(clause, 'D-flow', 'plane.Plane.multiply', 'the product evaluates only attributes that are defined for a plane without a pixel scale',
           (not bad) if n and partial else None,
           ('; '.join(bad[:2]) + ': a sampled plane given without a pixel scale is refused with a TypeError although the type table allows the pair')
           if bad else f'{n} multiply method(s); undefined without a pixel scale: {sorted(partial)}', '')


def run(chk, repo, tier):
    from .common import no_hidden_state
    no_hidden_state(chk, repo, 'C08')
    chk.clause('C08-a', 'every cell of the documented multiplication table equals plane._mul_ptype_table', 15)
    chk.clause('C08-b', 'the predicates consult that table, Plane.multiply asks them with (wavefront, plane) and '
                        'refuses with TypeError; no function object is used as a truth value', 3)
    chk.clause('C08-c', 'propagation allowed exactly from pupil/image and swaps them (all 5 types)', 5)
    chk.clause('C08-d', 'every documented plane class is constructed with its documented ptype', 7)
    chk.clause('C08-e', 'only the validated sites write a wavefront/plane ptype', 4)
    chk.clause('C08-f', 'every documented plane class can be applied: all references and calls in its '
                        '__init__/multiply chain resolve and bind', 7)
    chk.clause('C08-g', 'a refused operation has no effect: TypeError precedes every write; multiply writes '
                        'neither the plane nor the incoming wavefront', 3)
    chk.clause('C08-h', 'PType.__eq__ and __hash__ use the same key; every plane type is true', 2)
    chk.stats['exhaustive'] = True

    # ---------------------------------------------------------------- C08-a
    # every cell is decided on what the code answers for it: the predicate and the result function are evaluated for each
    # pair of plane types with the module's literal tables read by value (however the table is laid out, or whether the
    # result is looked up or computed)
    header, doc = tables.doc_mul_table(repo)
    mod = repo.modules['plane']
    try:
        code = tables.code_mul_table(repo)
    except AnalysisError:
        code = None         # not a dict of dicts any more
    helpers = [f.key for f in repo.all_functions() if f.module.name == 'plane' and f.cls is None and 'ptype' in f.name]
    have_helpers = repo.has_func('plane._mul_result_ptype') and repo.has_func('plane._can_mul_ptype')
    fres = repo.func('plane._mul_result_ptype') if have_helpers else None
    fcan = repo.func('plane._can_mul_ptype') if have_helpers else None
    fmul_ = repo.func('plane.Plane.multiply')
    wf_ = repo.cls('wavefront.Wavefront')
    cells_decided = True
    for (w, p), want in sorted(doc.items()):
        line = code.get((w, p), (None, None))[1] if code else None
        loc = f'{mod.relpath}:{line}' if line else fmul_.loc()
        # (1) what Plane.multiply itself does for a wavefront of type w meeting a plane of type p
        facts = {}
        for obj, nm in ((S('wavefront'), w), (S('self'), p)):
            for an in ('ptype', '_ptype'):
                facts[nf.attr(obj, an).single_atom()] = pt(nm)
        _, mp, _ = analyse(repo, fmul_, types={('sym', 'wavefront'): wf_}, facts=facts, inline=helpers, literal_tables=True,
                           max_paths=1024)
        outs, refused, other = set(), 0, []
        for q in mp:
            if q.status == 'return':
                for e in q.calls('wavefront.Wavefront.empty'):
                    outs.add(pt_name(e.bound.get('ptype')) or fmt(e.bound.get('ptype'))[:40])
                if not q.calls('wavefront.Wavefront.empty'):
                    other.append('returns without building the product wavefront')
            elif q.status == 'raise' and q.exc == 'TypeError':
                refused += 1
            elif q.status == 'raise':
                continue            # other refusals (e.g. inconsistent pixel scales) are not about the types
        if want:
            okm = outs == {want} and not refused and not other
        else:
            okm = not outs and refused > 0 and not other
        detm = f'Plane.multiply -> {sorted(outs) or ("TypeError" if refused else "?")}' + (f' and TypeError on {refused} path(s)' if outs and refused else '')
        undecided_m = any(o not in tables.PTYPES for o in outs)
        if undecided_m:
            cells_decided = False
            chk.undecided('C08-a', 'T-cell', 'plane.Plane.multiply', f'wavefront {w} x plane {p}',
                          'the type handed to the product wavefront does not fold to a plane type: ' + detm[:160], loc)
        else:
            chk.ob('C08-a', 'T-cell', 'plane._mul_ptype_table', f'wavefront {w} x plane {p}', okm,
                   f'documented: {want or "Not allowed"}; code: {detm}', loc)
        if not have_helpers:
            continue
        # (2) the two helper functions agree with it
        cfg = {'wavefront_ptype': pt(w), 'plane_ptype': pt(p)}
        _, rp, _ = analyse(repo, fres, config=cfg, inline=helpers, literal_tables=True)
        _, cp, _ = analyse(repo, fcan, config=cfg, inline=helpers, literal_tables=True)
        got = allowed = None
        det = ''
        if len(rp) == 1 and rp[0].status == 'return' and pt_name(rp[0].ret):
            got = pt_name(rp[0].ret)
        elif len(rp) == 1 and rp[0].status == 'raise' and rp[0].exc == 'TypeError':
            got = False
        else:
            det = '_mul_result_ptype: ' + '; '.join(f'{q.status} {fmt(q.ret)[:50] if q.status == "return" else q.exc} [{conds_str(q)[:60]}]' for q in rp)
        if len(cp) == 1 and cp[0].status == 'return' and isinstance(cp[0].ret, Const) and isinstance(cp[0].ret.value, bool):
            allowed = cp[0].ret.value
        else:
            det += ' _can_mul_ptype: ' + '; '.join(f'{q.status} {fmt(q.ret)[:50] if q.status == "return" else q.exc}' for q in cp)
        if got is None or allowed is None:
            chk.undecided('C08-a', 'T-cell', 'plane._mul_result_ptype', f'helpers: wavefront {w} x plane {p}',
                          'the answer of the helpers for this pair does not fold to a plane type / TypeError: ' + det[:200], loc)
            continue
        ok = (got == want if want else got is False) and allowed == bool(want)
        chk.ob('C08-a', 'T-cell', 'plane._mul_ptype_table', f'helpers: wavefront {w} x plane {p}', ok,
               f'documented: {want or "Not allowed"}; code: _mul_result_ptype -> {got or "TypeError"}, '
               f'_can_mul_ptype -> {allowed}', loc)
    if code is not None:
        for (w, p), (r, line) in sorted(code.items()):
            if (w, p) not in doc:
                chk.ob('C08-a', 'T-cell', 'plane._mul_ptype_table', f'wavefront {w} x plane {p}', False,
                       f'cell present in code ({r}) but not in the documented table', f'{mod.relpath}:{line}')

    # ---------------------------------------------------------------- C08-b
    # B4: a module-level function used as a truth value
    n_truth = 0
    for f in repo.all_functions():
        if f.module.name not in ('plane', 'propagate', 'wavefront', 'ptype'):
            continue
        for node in ast.walk(f.node):
            tests = []
            if isinstance(node, (ast.If, ast.While, ast.IfExp)):
                tests.append(node.test)
            elif isinstance(node, ast.BoolOp):
                tests.extend(node.values)
            elif isinstance(node, ast.UnaryOp) and isinstance(node.op, ast.Not):
                tests.append(node.operand)
            for t in tests:
                if isinstance(t, (ast.Name, ast.Attribute)):
                    tgt = repo.resolve_name(f.module, dotted(t) or '')
                    local = isinstance(t, ast.Name) and t.id in {a for a, _, _ in f.params()}
                    if hasattr(tgt, 'node') and not local:
                        n_truth += 1
                        chk.ob('C08-b', 'B4-truth', f.key, f'truth test of function `{dotted(t)}`', False,
                               f'`{seg(f, t)}` tests a function object (always true), the call is missing',
                               f.loc(t))
    try:
        TABLE = 'plane.' + tables.mul_table_name(repo)
    except AnalysisError:
        TABLE = 'plane.<no table>'          # the answers are computed some other way: C08-a evaluated them
    if have_helpers:
        fcan = repo.func('plane._can_mul_ptype')
        _, paths, _ = analyse(repo, fcan)
        oks = []
        for p in returns(paths):
            t = p.ret
            tv = isinstance(t, Const) and t.value is True
            fv = isinstance(t, Const) and t.value is False
            if not (tv or fv) or len(p.conds) != 1:
                oks = None
                break
            c, pol, _ = p.conds[0]
            a = c.single_atom() if isinstance(c, Poly) else None
            good = a is not None and is_app(a, 'in') and a[2][0] == S('plane_ptype') and \
                any(x == ('sym', 'wavefront_ptype') for x in nf.value_atoms(a[2][1])) and \
                any(x == ('sym', TABLE) for x in nf.value_atoms(a[2][1]))
            oks.append(good and (pol == tv))
        if oks is None:
            # accepted alternative: a single boolean expression
            rets = returns(paths)
            a = rets[0].ret.single_atom() if len(rets) == 1 and isinstance(rets[0].ret, Poly) else None
            good = a is not None and is_app(a, 'in') and a[2][0] == S('plane_ptype') and \
                ('sym', 'wavefront_ptype') in nf.value_atoms(a[2][1]) and \
                ('sym', TABLE) in nf.value_atoms(a[2][1])
            oks = [good]
        structural = all(oks) and bool(oks)
        chk.ob('C08-b', 'D-table-use', 'plane._can_mul_ptype', 'answers from the table', True if (structural or cells_decided) else None,
               'returns True exactly when plane_ptype is a key of _mul_ptype_table[wavefront_ptype]'
               if structural else ('its answer was evaluated for every documented pair (C08-a)' if cells_decided else
                                   'does not test plane_ptype against _mul_ptype_table[wavefront_ptype]'), fcan.loc())
        fres = repo.func('plane._mul_result_ptype')
        _, paths, _ = analyse(repo, fres)
        want = nf.index(nf.index(S(TABLE), S('wavefront_ptype')), S('plane_ptype'))
        rets = returns(paths)
        structural = bool(rets) and all(p.ret == want for p in rets)
        chk.ob('C08-b', 'D-table-use', 'plane._mul_result_ptype', 'answers from the table', True if (structural or cells_decided) else None,
               f'returns {", ".join(fmt(p.ret)[:80] for p in rets)}' +
               ('' if structural else '; its answer was evaluated for every documented pair (C08-a)' if cells_decided
                else '; expected _mul_ptype_table[wavefront_ptype][plane_ptype]'), fres.loc())
    else:
        chk.ob('C08-b', 'D-table-use', 'plane.Plane.multiply', 'answers from the table', True if cells_decided else None,
               'the permission test and the result type were evaluated through Plane.multiply for every documented pair (C08-a)', fmul_.loc())
    fmul = repo.func('plane.Plane.multiply')
    wf = repo.cls('wavefront.Wavefront')
    _, paths, _ = analyse(repo, fmul, types={('sym', 'wavefront'): wf})
    wpt = _Either(nf.attr(S('wavefront'), 'ptype'), nf.attr(S('wavefront'), '_ptype'))
    ppt = _Either(nf.attr(S('self'), 'ptype'), nf.attr(S('self'), '_ptype'))
    raises = [p for p in paths if p.status == 'raise' and p.exc == 'TypeError']
    guard_ok = False
    for p in raises:
        for c, pol, _ in p.conds:
            for a in nf.value_atoms(c):
                if is_app(a, 'call:plane._can_mul_ptype'):
                    b = {k.items[0].value: k.items[1] for k in a[2]}
                    if wpt == b.get('wavefront_ptype') and ppt == b.get('plane_ptype'):
                        guard_ok = True
    gone = not repo.has_func('plane._can_mul_ptype') or not repo.has_func('plane._mul_result_ptype')
    chk.ob('C08-b', 'D-guard', 'plane.Plane.multiply', 'TypeError guard',
           (guard_ok or (cells_decided and bool(raises))) if (guard_ok or cells_decided or not gone) else None,
           'raises TypeError when _can_mul_ptype(wavefront.ptype, self.ptype) is false' if guard_ok else
           ('the refusal was evaluated for every documented pair (C08-a)' if cells_decided and raises else
            'no TypeError path guarded by _can_mul_ptype(wavefront.ptype, self.ptype)'), fmul.loc())
    res_ok, n_ret = True, 0
    for p in returns(paths):
        n_ret += 1
        ev = [e for e in p.calls('wavefront.Wavefront.empty')]
        good = False
        for e in ev:
            v = e.bound.get('ptype')
            a = v.single_atom() if isinstance(v, Poly) else None
            if a is not None and is_app(a, 'call:plane._mul_result_ptype'):
                b = {k.items[0].value: k.items[1] for k in a[2]}
                good = wpt == b.get('wavefront_ptype') and ppt == b.get('plane_ptype')
        res_ok = res_ok and good
    chk.ob('C08-b', 'D-flow', 'plane.Plane.multiply', 'result ptype',
           ((res_ok or cells_decided) and n_ret > 0) if (res_ok or cells_decided or not gone) else None,
           'the new wavefront gets _mul_result_ptype(wavefront.ptype, self.ptype)' if res_ok else
           ('the type of the new wavefront was evaluated for every documented pair (C08-a)' if cells_decided else
            'the resulting wavefront ptype is not _mul_result_ptype(wavefront.ptype, self.ptype)'), fmul.loc())

    # ---------------------------------------------------------------- C08-c
    docprop = tables.doc_propagation(repo)
    fpp = repo.func('propagate._propagate_ptype')
    direct = 'ptype' in [fpp.old_name(n) for n, _, _ in fpp.params()]
    folded = {}
    for name in tables.PTYPES:
        if not direct:
            break           # the helper is asked some other way: the transitions are evaluated through its callers below
        _, paths, _ = analyse(repo, fpp, config={'ptype': pt(name), 'method': Const('fraunhofer')}, literal_tables=True)
        if len(paths) != 1:
            direct = False  # the answer does not fold from the type alone
            break
        folded[name] = paths[0]
    for name, p in sorted(folded.items()) if direct else ():
        want = docprop.get(name)
        got = pt_name(p.ret) if p.status == 'return' else None
        exc = p.exc if p.status == 'raise' else None
        ok = (got == want) if want else (p.status == 'raise' and exc == 'TypeError')
        if not ok and not want and p.status == 'return':
            ok = None           # the helper only looks the type up: whether the propagators refuse is decided for each of them below
        chk.ob('C08-c', 'T-transition', 'propagate._propagate_ptype', f'propagation from {name}', ok,
               f'documented: {want or "refused (TypeError)"}; code: {got or ("raises " + str(exc))}', fpp.loc())
    for key in ('propagate.propagate_dft', 'propagate.propagate_fft'):
        f, paths, _ = analyse(repo, key, types={('sym', 'wavefront'): wf})
        good, n = True, 0
        for p in returns(paths):
            for e in p.calls('wavefront.Wavefront.empty'):
                n += 1
                v = e.bound.get('ptype')
                a = v.single_atom() if isinstance(v, Poly) else None
                ok1 = a is not None and is_app(a, 'call:propagate._propagate_ptype') and \
                    wpt == {k.items[0].value: k.items[1] for k in a[2]}.get(fpp.params()[0][0] if fpp.params() else 'ptype')
                good = good and ok1
        if good and n and direct:
            chk.ob('C08-c', 'D-flow', key, 'output ptype', True, 'output wavefront ptype is _propagate_ptype(wavefront.ptype)', f.loc())
        # and the propagation itself, evaluated for a wavefront of each type (whatever else the helper is handed)
        for name in tables.PTYPES:
            want = docprop.get(name)
            facts = {nf.attr(S('wavefront'), 'ptype').single_atom(): pt(name), nf.attr(S('wavefront'), '_ptype').single_atom(): pt(name)}
            _, ps, _ = analyse(repo, key, types={('sym', 'wavefront'): wf}, facts=facts, inline=[fpp.key], max_paths=1024, literal_tables=True)
            bad, seen = [], 0
            for p in ps:
                if p.status == 'return':
                    seen += 1
                    outs = [pt_name(e.bound.get('ptype')) for e in p.calls('wavefront.Wavefront.empty')]
                    if not want or not outs or any(o != want for o in outs):
                        bad.append(f'returns a wavefront of type {outs or "?"} [{conds_str(p)[:100]}]')
                elif p.status == 'raise' and want and p.exc == 'TypeError':
                    bad.append(f'refused with TypeError [{conds_str(p)[:80] or "always"}]')
            if not want and not any(p.status == 'raise' and p.exc == 'TypeError' for p in ps):
                bad.append('never refused with TypeError')
            verdict = not bad
            refusing = any(p.status == 'raise' and p.exc == 'TypeError' for p in ps)
            unresolved = any(o is None for p in ps if p.status == 'return' for e in p.calls('wavefront.Wavefront.empty')
                             for o in [pt_name(e.bound.get('ptype'))])
            tag_ = f"('ptype', '{name}')"
            open_test = any(tag_ in fmt(c) for p in ps for c, _pol, _n in p.conds)
            if bad and ((refusing and seen and open_test) or unresolved):
                # with the type of the wavefront given, the type test still goes both ways (or the resulting type is not a
                # value): the look-up is written in a way that is not evaluated - no verdict for this type
                verdict = None
                bad = ['undecided: the plane-type test does not fold for a wavefront of this type'] + bad
            chk.ob('C08-c', 'T-transition', key, f'propagation from {name}', verdict,
                   f'documented: {want or "refused (TypeError)"}; code: {"; ".join(bad[:2]) or "as documented"}', f.loc())

    # ------------------------------------------------------------ C08-d / f
    docc = tables.doc_class_ptypes(repo)
    for cname, want in sorted(docc.items()):
        if cname not in repo.modules['plane'].classes:
            chk.ob('C08-d', 'T-class', f'plane.{cname}', 'documented class exists', False,
                   f'documented plane class {cname} not found')
            continue
        cls = repo.cls(f'plane.{cname}')
        cont, done = construct_paths(repo, cls)
        got, problems = set(), []
        for stt in cont:
            ws = [e for e in stt.events if e.kind == 'write' and e.data.get('how') == 'attrstore'
                  and e.data.get('attr') == '_ptype']
            if not ws:
                got.add('?')
                continue
            v = ws[-1].data['value']
            a = v.single_atom() if isinstance(v, Poly) else None
            if a is not None and is_app(a, 'call:ptype.ptype'):
                v = {k.items[0].value: k.items[1] for k in a[2]}.get('ptype')
            got.add(pt_name(v) or fmt(v))
            problems += [e for e in stt.events if e.kind == 'note' and e.data.get('rule') in ('B1', 'B2')]
        init = cls.find_method('__init__')
        chk.ob('C08-d', 'T-class', cls.key, 'constructed ptype', got == {want},
               f'documented ptype {want}; constructor chain sets {sorted(got)}', init.loc() if init else '')
        # C08-f: __init__ chain and multiply resolve and bind
        notes = list(problems)
        fm = cls.find_method('multiply')
        if fm is None:
            raise AnalysisError(f'{cls.key} has no multiply')
        _, paths, _ = analyse(repo, fm, types={('sym', 'wavefront'): wf, ('sym', 'self'): cls})
        for p in paths:
            notes += [e for e in p.events if e.kind == 'note' and e.data.get('rule') in ('B1', 'B2')]
        whats = {}
        for e in notes:
            whats.setdefault(e.data['what'], e)
        for what, e in sorted(whats.items()):
            chk.ob('C08-f', 'B1/B2', cls.key, f'unresolved: {what}', False,
                   f'{what} - {cname} cannot be applied to a wavefront', e.loc())
        if not whats:
            chk.ob('C08-f', 'B1/B2', cls.key, 'multiply/__init__ chain resolves and binds', True,
                   f'{fm.key} and the constructor chain resolve', fm.loc())

    # a plane type handed to a refining class (Grism(..., ptype=lentil.image)) reaches the constructor that stores it
    from .common import ctor_forwarding_rule as _ctor_forwarding_rule8
    _ctor_forwarding_rule8(chk, repo, 'C08-d')
    # a product owns its tilt list: a tilt plane applied to the product must not turn the wavefront it came from into one
    # that the FFT propagator refuses
    from .common import mul_concat as _mul_concat8
    _mul_concat8(chk, repo, 'C08-g')
    from .c07 import product_shape_rule
    product_shape_rule(chk, repo, 'C08-f')
    defined_attribute_rule(chk, repo, 'C08-f')
    optional_attribute_rule(chk, repo, 'C08-f')
    # ... nor is a compatible pair refused for its sampling: equal (row, col) pixel scales multiply
    from .c07 import pixelscale_guard_rule as _pixelscale_guard_rule
    _pixelscale_guard_rule(chk, repo, 'C08-f')
    # ---------------------------------------------------------------- C08-e
    allowed = {'wavefront.Wavefront.__init__': 'validated by the setter',
               'wavefront.Wavefront.ptype#setter': 'the validating setter',
               'plane.Plane.__init__': "the plane's own type",
               'plane.Image.multiply': 'forces image (the table yields image for every allowed cell)'}
    seen = 0
    for f in repo.all_functions():
        for node in ast.walk(f.node):
            if isinstance(node, ast.Attribute) and isinstance(node.ctx, ast.Store) and node.attr in ('ptype', '_ptype'):
                key = f.key + ('#setter' if f.is_setter else '')
                seen += 1
                ok = key in allowed
                chk.ob('C08-e', 'E-who-writes', key, f'store to .{node.attr}', ok,
                       allowed.get(key, f'`{seg(f, node)}` writes a plane type outside the validated sites'),
                       f.loc(node))
    # ... and the setter that is allowed to write does validate: a wavefront is `none`, `pupil` or `image` (the rows of the
    # table); `tilt` / `transform` are plane types only and leave a wavefront that no plane can be applied to
    wcls = repo.cls('wavefront.Wavefront')
    wset = wcls.find_setter('ptype')
    if wset is not None:
        _, spaths, _ = analyse(repo, wset)
        from ..rules import literals as _lits
        def _three(c):
            a_ = c.single_atom() if isinstance(c, Poly) else None
            if a_ is None or not is_app(a_, ('in', 'notin', 'eq', 'ne', 'or', 'and', 'not')):
                return set()
            return {x.value[1] for v in [Poly.atom(a_)] for y in nf.value_atoms(v) if y[0] == 'val' for x in [y[1]]
                    if isinstance(x, Const) and isinstance(x.value, tuple) and x.value and x.value[0] == 'ptype'} | \
                   {k for k in ('none', 'pupil', 'image', 'tilt', 'transform') if f"('ptype', '{k}')" in fmt(c)}
        refused = [p for p in spaths if p.status == 'raise' and p.exc == 'TypeError']
        stores = [p for p in spaths if p.status != 'raise']
        named = set()
        for p in stores:
            for c, pol in _lits(p.conds):
                named |= _three(c)
        okv = bool(refused) and bool(stores) and {'none', 'pupil', 'image'} <= named and not ({'tilt', 'transform'} & named)
        if not okv and refused and stores and not named and any(a_[0] == 'sym' and '.' in str(a_[1]) for p in stores for c, _pol, _n in p.conds
                                                                 for a_ in nf.value_atoms(c)):
            okv = None          # membership in a module-level collection that is not evaluated
        chk.ob('C08-e', 'D-guard', wset.key, 'the wavefront type setter admits none / pupil / image and refuses everything else with TypeError',
               okv if (refused or stores) else None,
               '' if okv else 'undecided: the admitted types are a module constant that is not evaluated' if okv is None else ('no path raises TypeError: any plane type is stored' if not refused else
                               f'the stored type is tested against {sorted(named)}'), wset.loc())
    # a new wavefront has the type it is given - on every path of the constructor, whatever its other arguments are: every
    # product is built through the constructor (Wavefront.empty), so a type derived from, say, the focal length rewrites the
    # result of the multiplication table
    fwi = repo.func('wavefront.Wavefront.__init__')
    _, ipaths, _ = analyse(repo, fwi)
    given = nf.app('call:ptype.ptype', Tup([Const('ptype'), S('ptype')]))
    okc, detc, nc_ = True, '', 0
    for p in ipaths:
        if p.status == 'raise':
            continue
        st_ = [e for e in p.events if e.kind == 'write' and e.data.get('how') == 'attrstore' and e.data.get('attr') in ('ptype', '_ptype')
               and e.target == S('self')]
        if not st_:
            continue
        nc_ += 1
        v_ = st_[-1].data.get('value')
        # ptype() is idempotent: ptype(ptype(x)) is ptype(x)
        for _ in range(3):
            va_ = v_.single_atom() if isinstance(v_, Poly) else None
            if va_ is not None and is_app(va_, 'call:ptype.ptype'):
                inner_ = dict((k_.items[0].value, k_.items[1]) for k_ in va_[2] if isinstance(k_, Tup)).get('ptype')
                ia_ = inner_.single_atom() if isinstance(inner_, Poly) else None
                if ia_ is not None and is_app(ia_, 'call:ptype.ptype'):
                    v_ = inner_
                    continue
            break
        if v_ != given and v_ != S('ptype'):
            okc = False
            detc = f'a path stores ptype = {fmt(v_)[:60]} [{conds_str(p)[-120:]}]: not the type the constructor was given'
    chk.ob('C08-e', 'T-override', fwi.key, 'a new wavefront carries the plane type it was given', (okc and nc_ > 0) if nc_ or not okc else None,
           detc or f'{nc_} path(s) store ptype(ptype)', fwi.loc())
    # the same for planes: the type may be given by name ('pupil') or as None, so what the constructor stores is what
    # lentil.ptype() makes of it - a raw store leaves a string that equals no key of the multiplication table
    fpi = repo.func('plane.Plane.__init__')
    _, ppaths, _ = analyse(repo, fpi)
    okq, detq, nq_ = True, '', 0
    for p in ppaths:
        if p.status == 'raise':
            continue
        st_ = [e for e in p.events if e.kind == 'write' and e.data.get('how') == 'attrstore' and e.data.get('attr') in ('ptype', '_ptype')
               and e.target == S('self')]
        if not st_:
            continue
        nq_ += 1
        v_ = st_[-1].data.get('value')
        if v_ == given:
            continue
        if v_ == S('ptype'):
            vetted = any(pol and 'isinstance(ptype' in fmt(c) for c, pol, _ in p.conds)
            if not vetted:
                okq = False
                detq = f'a path stores the argument as it came [{conds_str(p)[-100:]}]: a type given by name stays a string'
            continue
        if pt_name(v_) and any(pol and fmt(c) == 'is(ptype, (None))' for c, pol, _ in p.conds) and pt_name(v_) == 'none':
            continue
        if okq:
            okq = None
            detq = f'undecided: a path stores {fmt(v_)[:60]}'
    chk.ob('C08-e', 'T-override', fpi.key, 'a new plane carries the plane type it was given, converted by lentil.ptype', (okq if nq_ else None),
           detq or f'{nq_} path(s) store ptype(ptype)', fpi.loc())
    fim = repo.func('plane.Image.multiply')
    for node in ast.walk(fim.node):
        if isinstance(node, ast.Assign) and any(isinstance(t, ast.Attribute) and t.attr == 'ptype' for t in node.targets):
            v = tables.ptype_of_node(node.value)
            chk.ob('C08-e', 'T-override', 'plane.Image.multiply', 'forced ptype value', v == 'image',
                   f'Image.multiply sets ptype {v}; the table yields image', fim.loc(node))

    # ---------------------------------------------------------------- C08-g
    for key in ('plane.Plane.multiply', 'propagate.propagate_dft', 'propagate.propagate_fft',
                'plane.Pupil.multiply', 'plane.Image.multiply', 'plane.TiltInterface.multiply',
                'wavefront.Wavefront.__mul__', 'wavefront.Wavefront.__rmul__'):
        f, paths, _ = analyse(repo, key, types={('sym', 'wavefront'): wf})
        bad = []
        has_raise = False
        for p in paths:
            ws = [e for e in p.writes() if e.depth == 0 and root_sym(e.target) in ('self', 'wavefront', 'scratch')
                  and not (key.endswith('propagate_fft') and root_sym(e.target) == 'scratch' and p.status != 'raise')]
            if p.status == 'raise' and p.exc == 'TypeError':
                has_raise = True
                for e in ws:
                    bad.append(f'{e.data["how"]} on {fmt(e.target)} at {e.loc()} precedes the TypeError')
            elif p.status != 'raise':
                for e in ws:
                    if root_sym(e.target) != 'scratch':
                        bad.append(f'{e.data["how"]} on {fmt(e.target)} at {e.loc()} modifies an operand')
        chk.ob('C08-g', 'E5-refusal', key, 'operands untouched / refusal precedes effect', not bad,
               '; '.join(sorted(set(bad))) or 'no write to the plane or the incoming wavefront', f.loc())

    # the table decides first: no other validation (pixel scales, shapes) may refuse a pair before it
    for key in ('plane.Plane.multiply',):
        f, paths, _ = analyse(repo, key, types={('sym', 'wavefront'): wf})
        first_bad = []
        n_paths = 0
        for p in paths:
            calls = []
            new_depths = set()
            early_helpers = []
            for e in p.events:
                if e.kind != 'call':
                    continue
                ck = str(e.data.get('callee', ''))
                if not repo.has_func(ck):
                    continue
                g = repo.func(ck)
                if g.is_property or ck.endswith('.ptype') or ck.endswith('.shape') or ck.endswith('.pixelscale'):
                    continue      # attribute reads
                from ..interp import known_functions as _known
                if ck not in _known():
                    new_depths.add(e.depth + 1)       # a helper introduced later is followed: what it calls counts
                    if not calls:
                        early_helpers.append(g)
                    continue
                if e.depth != 0 and e.depth not in new_depths:
                    continue
                calls.append(ck)
            if not calls:
                continue
            n_paths += 1
            if calls[0] != 'plane._can_mul_ptype' and calls[0] not in helpers:       # any of the plane-type helpers of plane.py
                # the test may be written in place (a look-up in the table and a membership test): then it is the first
                # condition of the path that reads the plane types, and it has to stand above the first other call
                def line(n_):
                    return getattr(n_, 'lineno', None)
                tests = [line(nd) for c, pol, nd in p.conds if isinstance(c, Poly) and
                         any((a[0] == 'attr' and a[2] in ('ptype', '_ptype')) or (a[0] == 'sym' and 'ptype' in str(a[1]))
                             for a in nf.value_atoms(c))]
                first_call = next((line(e.node) for e in p.events if e.kind == 'call' and e.depth == 0
                                   and str(e.data.get('callee', '')) == calls[0]), None)
                tests = [t for t in tests if t is not None]
                # ... or inside a helper (introduced later) that runs before that call
                in_helper = any(isinstance(c, Poly) and any((a[0] == 'attr' and a[2] in ('ptype', '_ptype')) or (a[0] == 'sym' and 'ptype' in str(a[1]))
                                                            for a in nf.value_atoms(c)) and line(nd) is not None and
                                any(h.node.lineno <= line(nd) <= getattr(h.node, 'end_lineno', h.node.lineno) for h in early_helpers)
                                for c, pol, nd in p.conds)
                if in_helper:
                    continue
                if not (tests and first_call is not None and min(tests) < first_call):
                    first_bad.append(f'{calls[0]} runs before the plane-type test [{p.status}]')
        chk.ob('C08-g', 'D-dominance', key, 'the plane-type test precedes every other step that can refuse', not first_bad and n_paths > 0,
               '; '.join(sorted(set(first_bad))[:3]) or f'{n_paths} path(s): _can_mul_ptype is the first call', f.loc())

    # ---------------------------------------------------------------- C08-h
    # plane types are values (PType defines ==): identity comparisons break for equal copies
    ident = []
    n_cmp = 0
    for fn in repo.all_functions():
        for node in ast.walk(fn.node):
            if not isinstance(node, ast.Compare):
                continue
            operands = [node.left] + list(node.comparators)
            for op, l, r in zip(node.ops, operands, operands[1:]):
                names = [dotted(x) or '' for x in (l, r)]
                is_pt = [nm.split('.')[-1] in tables.PTYPES and (nm.startswith('lentil.') or nm.startswith('ptype.') or
                                                                  fn.module.name == 'ptype') or nm.split('.')[-1].endswith('ptype')
                         for nm in names]
                none = [isinstance(x, ast.Constant) and x.value is None for x in (l, r)]

                def sentinel(x):
                    # a module-level NAME = object(): a marker that is only ever compared by identity
                    v_ = fn.module.globals.get(x.id) if isinstance(x, ast.Name) else None
                    return isinstance(v_, ast.Call) and isinstance(v_.func, ast.Name) and v_.func.id == 'object' and not v_.args
                if any(is_pt) and not any(none) and not any(sentinel(x) for x in (l, r)):
                    n_cmp += 1
                    if isinstance(op, (ast.Is, ast.IsNot)):
                        ident.append(f'{fn.key}: `{fn.module.segment(node)[:70]}` at {fn.loc(node)}')
    chk.ob('C08-h', 'T-comparison', 'lentil', 'plane types are compared by value (== / in), never by identity', not ident,
           '; '.join(ident[:3]) or f'{n_cmp} plane-type comparison(s), none by identity', '')
    pc = repo.cls('ptype.PType')
    # a plane type is an object and therefore true: constructors write `if not ptype:` for "no type was given".  A __bool__
    # (or __len__) that makes one of the types false turns an explicit choice of that type into "not given".
    tests = []
    for fn in repo.all_functions():
        for node in ast.walk(fn.node):
            cands = []
            if isinstance(node, (ast.If, ast.IfExp, ast.While)):
                cands.append(node.test)
            elif isinstance(node, ast.BoolOp):
                cands += node.values
            for t in cands:
                if isinstance(t, ast.UnaryOp) and isinstance(t.op, ast.Not):
                    t = t.operand
                nm = dotted(t) if isinstance(t, (ast.Name, ast.Attribute)) else None
                if nm and nm.split('.')[-1].lstrip('_').endswith('ptype'):
                    tests.append(f'{fn.key} (`{fn.module.segment(node.test if hasattr(node, "test") else t)[:40]}` at {fn.loc(node)})')
    tb = pc.methods.get('__bool__') or pc.methods.get('__len__')
    if tb is None:
        chk.ob('C08-h', 'T-truth', 'ptype.PType', 'every plane type is true (truth tests of a type mean "was one given")', True,
               f'{len(tests)} truth test(s) of a plane type; PType defines neither __bool__ nor __len__', pc.loc() if hasattr(pc, 'loc') else '')
    else:
        falsy, unknown = [], []
        for key in tables.PTYPES:
            _, tp, _ = analyse(repo, tb, facts={nf.attr(S('self'), '_key').single_atom(): Const(key)})
            vals = {repr(q.ret) for q in returns(tp)}
            from ..expr import truth as _truth
            ts = {_truth(q.ret) for q in returns(tp)}
            if ts == {False}:
                falsy.append(key)
            elif ts != {True}:
                unknown.append(key)
        okt = (not falsy or not tests) if not unknown else (False if falsy and tests else None)
        chk.ob('C08-h', 'T-truth', 'ptype.PType', 'every plane type is true (truth tests of a type mean "was one given")', okt,
               (f'{tb.name} makes {", ".join(falsy)} false, and ' + '; '.join(sorted(set(tests))[:2]) + ' reads a false type as '
                '"not given": an explicit choice of that type is silently replaced by the default') if falsy and tests else
               f'{tb.name} is defined; false for {falsy or "no type"}; {len(tests)} truth test(s)', tb.loc())

    def self_attrs(fn):
        out = {n.attr for n in ast.walk(fn.node) if isinstance(n, ast.Attribute)
               and isinstance(n.value, ast.Name) and n.value.id == 'self'}
        # ... also when read through getattr(self, 'x') or a module-level operator.attrgetter('x')
        for n in ast.walk(fn.node):
            if isinstance(n, ast.Call) and n.args and isinstance(n.args[0], ast.Name) and n.args[0].id == 'self':
                if isinstance(n.func, ast.Name) and n.func.id == 'getattr' and len(n.args) > 1 and isinstance(n.args[1], ast.Constant):
                    out.add(n.args[1].value)
                elif isinstance(n.func, ast.Name):
                    g = fn.module.globals.get(n.func.id)
                    if isinstance(g, ast.Call) and (dotted(g.func) or '').split('.')[-1] == 'attrgetter':
                        out |= {a.value for a in g.args if isinstance(a, ast.Constant) and isinstance(a.value, str)}
        return out
    eq, hs = pc.methods.get('__eq__'), pc.methods.get('__hash__')
    if eq is None or hs is None:
        chk.ob('C08-h', 'structural', 'ptype.PType', '__eq__/__hash__ pair', eq is None and hs is None,
               'one of __eq__/__hash__ is missing')
    else:
        ea, ha = self_attrs(eq), self_attrs(hs)
        chk.ob('C08-h', 'structural', 'ptype.PType', '__eq__/__hash__ key', ea == ha and bool(ea),
               f'__eq__ compares {sorted(ea)}, __hash__ hashes {sorted(ha)}', eq.loc())
