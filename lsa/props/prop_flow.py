"""Data-flow extraction from propagate.propagate_dft (shared by C02/C03/C04)."""
from .. import nf
from ..nf import Poly, Tup, Const, NONE, TRUE
from ..model import AnalysisError
from ..rules import run as analyse, returns, fmt, is_app, S, C, pair

WF = S('wavefront')


def wf_attr(name):
    """wavefront.<name>, accepting the inlined property form (_name)."""
    return (nf.attr(WF, name), nf.attr(WF, '_' + name))


def bound_of(atom):
    return {k.items[0].value: k.items[1] for k in atom[2]}


def body_feasible(b, lp):
    """False when the conditions collected in one pass through the loop body contradict each other in the linear domain
    (with floor-half and min/max axioms), e.g. `the windows intersect` together with `their intersection is empty`"""
    from .. import linear
    try:
        alts = [[]]
        for c, pol, _ in b.conds[lp['n_pre_conds']:]:
            alts = [x + y for x in alts for y in linear.disjuncts(c, pol)]
            if len(alts) > 64:
                return True
        def sizeish(a):
            # array sizes, the oversampling factor and their products are at least 1
            if a[0] == 'mono':
                return all(sizeish(x) and e > 0 for x, e in a[1])
            if a[0] == 'sym':
                return a[1] == 'oversample'
            if a[0] == 'idx':
                return sizeish(a[1]) or (a[1][0] == 'sym' and a[1][1] in ('shape', 'prop_shape')) or (a[1][0] == 'attr' and a[1][2] == 'shape')
            return a[0] == 'attr' and a[2] == 'shape'
        for alt in alts:
            atoms = set()
            for c, _ in alt:
                atoms |= set(c.atoms(deep=True))
            for cons in linear.conj_constraints(alt):
                seen = set(atoms)
                for l in cons:
                    seen |= set(l.coefs)
                sizes = [linear.le(linear.Lin({}, 1), linear.Lin({a: 1})) for a in seen if sizeish(a)]
                # a bounding box (rmin, rmax, cmin, cmax) has rmin <= rmax and cmin <= cmax
                boxes = {a[1] for a in seen if a[0] == 'idx' and a[1][0] == 'app' and a[1][1].split('.')[-1] == 'boundary'}
                for bx in boxes:
                    for i, j in ((0, 1), (2, 3)):
                        sizes.append(linear.le(linear.linearise(nf.index(Poly.atom(bx), nf.Poly.const(i))),
                                               linear.linearise(nf.index(Poly.atom(bx), nf.Poly.const(j)))))
                if linear.satisfiable(cons + sizes, atoms):
                    return True
        return False
    except linear.NotLinear:
        return True


def transform_events(p):
    """events of the path with, inside the per-field loop, only those of the body state that transforms"""
    events = list(p.events)
    for lp in p.state.loops:
        hit = [b for b in lp['states'] if any(e.kind == 'call' and e.data.get('callee') == 'fourier.dft2'
                                               for e in b.events[lp['n_pre_events']:])]
        if len(hit) > 1:
            hit = [b for b in hit if body_feasible(b, lp)] or hit
        if hit:
            mine = {id(e) for e in hit[0].events}
            others = {id(e) for b in lp['states'] if b is not hit[0] for e in b.events} - mine
            events = [e for e in events if id(e) not in others]
            break
    return events


class DftFlow:
    """One returning path of propagate_dft under a configuration."""

    @classmethod
    def all(cls, repo, config, label):
        """One flow per returning path that transforms (a guard that re-interprets an argument on some path only
        must satisfy the contract on that path too)."""
        first = cls(repo, config, label)
        flows = [first]
        for k, p in enumerate(first.candidates):
            if p is first.path:
                continue
            flows.append(cls(repo, config, f'{label}, path {k + 1}', pick=p, shared=first))
        return flows

    def __init__(self, repo, config, label, pick=None, shared=None):
        self.repo, self.label = repo, label
        if shared is not None:
            self.f, self.paths, self.candidates = shared.f, shared.paths, shared.candidates
            self.path = pick
            self._collect()
            return
        wf = repo.cls('wavefront.Wavefront')
        self.f, paths, _ = analyse(repo, 'propagate.propagate_dft', config=config,
                                   types={('sym', 'wavefront'): wf})
        self.paths = returns(paths)
        if not self.paths:
            raise AnalysisError(f'propagate_dft has no returning path under {label}')
        # the path on which the windows intersect and a transform happens
        self.path = None
        want_mask = config.get('mask') is not None and config.get('mask') != NONE
        from ..rules import none_state
        self.candidates = []
        for p in self.paths:
            # with a mask the path established `mask is not None` (and used to call _mask_shape)
            masked = bool(p.calls('propagate._mask_shape')) or none_state(p, 'mask') is False
            if p.calls('fourier.dft2') and masked == want_mask:
                self.path = p
                self.candidates.append(p)
        if self.path is None:
            raise AnalysisError(f'propagate_dft never calls dft2 under {label}')
        self._collect()

    def _collect(self):
        p = self.path
        # inside the per-field loop the body may fork (window misses the output); keep the events of
        # the one body state that transforms, whatever statement the fork happened in
        events = list(p.events)
        for lp in p.state.loops:
            hit = [b for b in lp['states'] if any(e.kind == 'call' and e.data.get('callee') == 'fourier.dft2'
                                                   for e in b.events[lp['n_pre_events']:])]
            if hit:
                mine = {id(e) for e in hit[0].events}
                others = {id(e) for b in lp['states'] if b is not hit[0] for e in b.events} - mine
                events = [e for e in events if id(e) not in others]
                break
        calls = lambda name: [e for e in events if e.kind == 'call' and e.data.get('callee') == name]
        self.events = events
        self.ev = {}
        for name in ('fourier.dft2', 'propagate._dft_alpha', 'wavefront.Wavefront.empty', 'field.Field.shift',
                     'extent.intersection_shape', 'extent.intersection_shift', 'extent.intersect',
                     'extent.array_center', 'propagate._mask_shape', 'propagate._mask_shift',
                     'propagate._propagate_ptype'):
            self.ev[name] = calls(name)
        self.extents = calls('extent.array_extent')
        self.fields = [e for e in events if e.kind == 'call' and e.data.get('new') == 'field.Field']

    def one(self, name):
        ev = self.ev[name]
        if len(ev) != 1:
            raise AnalysisError(f'propagate_dft [{self.label}]: expected one call of {name}, found {len(ev)}')
        return ev[0]


def configs():
    shape, prop = pair('shape'), pair('prop_shape')
    return [
        ({'shape': shape, 'prop_shape': prop, 'mask': NONE}, 'shape & prop_shape given, no mask'),
        ({'shape': NONE, 'prop_shape': NONE, 'mask': NONE}, 'defaults'),
        ({'shape': shape, 'prop_shape': NONE, 'mask': NONE}, 'shape given, prop_shape left to default to it'),
        ({'shape': shape, 'prop_shape': prop, 'mask': S('mask')}, 'with mask'),
    ]


def own_storage_rule(chk, repo, clause):
    """Every propagated field owns the array its transform was written to.  `Field` keeps the array it is given, so an
    `out=` buffer of `dft2` that outlives the iteration (allocated before the per-field loop, or carried over from the
    previous iteration on some path) is shared by all fields of equal window shape: they all hold the last transform."""
    shape, prop = pair('shape'), pair('prop_shape')
    wf = repo.cls('wavefront.Wavefront')
    f, paths, _ = analyse(repo, 'propagate.propagate_dft', config={'shape': shape, 'prop_shape': prop, 'mask': NONE},
                          types={('sym', 'wavefront'): wf})
    bad, n = [], 0
    for p in returns(paths):
        for lp in p.state.loops:
            pre_vals = {nf.vkey(v) for v in lp['pre'].values() if isinstance(v, Poly) and v.single_atom() is not None
                        and is_app(v.single_atom(), ('empty', 'zeros', 'ones', 'empty_like', 'zeros_like', 'full'))}
            for b in lp['states']:
                for e in b.events[lp['n_pre_events']:]:
                    if not (e.kind == 'call' and e.data.get('callee') == 'fourier.dft2'):
                        continue
                    n += 1
                    outv = (e.data.get('bound') or {}).get('out')
                    if outv is None or outv == NONE:
                        continue
                    carried = [a for a in nf.value_atoms(outv) if a[0] == 'loop']
                    if carried or nf.vkey(outv) in pre_vals:
                        bad.append(f'dft2(..., out={fmt(outv)[:60]}) at {e.loc()}: the buffer '
                                   + ('is carried over from the previous field on this path' if carried else
                                      'was allocated once before the loop over the fields'))
    chk.ob(clause, 'E-alias', 'propagate.propagate_dft', 'each propagated field owns the array its transform is written to',
           (not bad) if n else None,
           ('; '.join(sorted(set(bad))[:2]) + ' - Field keeps the array it is given, so every field of that window shape ends up '
            'holding the last transform') if bad else f'{n} transform call(s) in the per-field loop write to storage of their own',
           f.loc())


def skip_rule(chk, repo, clause):
    """A field of the wavefront is left out of the result for one reason only: its (tilt-shifted) propagation window
    misses the output window, i.e. `intersect(out_extent, prop_extent)` is false.  Any other condition under which an
    iteration of the per-field loop ends without a transform drops light that the DFT of the whole plane would show."""
    from ..rules import literals
    shape, prop = pair('shape'), pair('prop_shape')
    wf = repo.cls('wavefront.Wavefront')
    f, paths, _ = analyse(repo, 'propagate.propagate_dft', config={'shape': shape, 'prop_shape': prop, 'mask': NONE},
                          types={('sym', 'wavefront'): wf})
    bad, n = [], 0
    for p in returns(paths):
        for lp in p.state.loops:
            body = lp['states']
            if not any(e.kind == 'call' and e.data.get('callee') == 'fourier.dft2' for b in body for e in b.events[lp['n_pre_events']:]):
                continue
            for b in body:
                if any(e.kind == 'call' and e.data.get('callee') == 'fourier.dft2' for e in b.events[lp['n_pre_events']:]):
                    continue
                n += 1
                own = [(c, pol) for c, pol in literals(b.conds[lp['n_pre_conds']:])]
                missed = False
                other = []
                for c, pol in own:
                    a = c.single_atom() if isinstance(c, Poly) else None
                    if a is not None and (is_app(a, 'call:extent.intersect') or is_app(a, 'call:wavefront._overlap')):
                        missed = missed or not pol
                        continue
                    other.append(f'{"" if pol else "not "}{fmt(c)[:90]}')
                if not missed and other:
                    bad.append('a field is skipped when ' + ' and '.join(other[:2]) + ', whether or not its window meets the output')
    # ... and leaving one field out never ends the walk over the others: no `break` / `return` inside the loop over the fields
    import ast as _ast
    from ..interp import known_functions as _kf
    early, n_loops = [], 0
    scope = [f] + [g for g in repo.all_functions() if g.module.name == 'propagate' and g.key not in _kf()]
    for g in scope:
        for loop in [x for x in _ast.walk(g.node) if isinstance(x, _ast.For)]:
            src = g.module.segment(loop.iter) or ''
            has_dft = any(isinstance(x, _ast.Call) and (getattr(x.func, 'attr', None) == 'dft2' or getattr(x.func, 'id', None) == 'dft2')
                          for x in _ast.walk(loop))
            if not (has_dft or '.data' in src or 'fields' in src):
                continue
            n_loops += 1
            inner_loops = [y for x in loop.body for y in _ast.walk(x) if isinstance(y, (_ast.For, _ast.While))]
            inner = {id(z) for y in inner_loops for z in _ast.walk(y)}
            for x in [y for b_ in loop.body for y in _ast.walk(b_)]:
                if isinstance(x, _ast.Break) and id(x) not in inner:
                    early.append(f'`break` at {g.loc(x)}')
                elif isinstance(x, _ast.Return) and not isinstance(g.node, _ast.Lambda):
                    early.append(f'`return` at {g.loc(x)}')
    chk.ob(clause, 'D-guard', 'propagate.propagate_dft', 'a field that is left out does not end the loop over the remaining fields',
           (not early) if n_loops else None,
           ('; '.join(sorted(set(early))[:2]) + ': the fields listed after the skipped one are never propagated') if early
           else f'{n_loops} loop(s) over the fields', f.loc())
    chk.ob(clause, 'D-guard', 'propagate.propagate_dft', 'a field is left out only when its window misses the output window',
           (not bad) if n else None,
           ('; '.join(sorted(set(bad))[:2]) + ': light that still lands inside the output is dropped') if bad else
           f'{n} non-transforming way(s) through the loop body, all guarded by the intersection test alone', f.loc())


def per_field_shift_rule(chk, repo, clause):
    """Each field is displaced by its *own* tilts: the shift that places the window and the sub-pixel shift handed to the
    transform come from `Field.shift` of the field of that iteration - not from one field of the list evaluated once."""
    shape, prop = pair('shape'), pair('prop_shape')
    wf = repo.cls('wavefront.Wavefront')
    f, paths, _ = analyse(repo, 'propagate.propagate_dft', config={'shape': shape, 'prop_shape': prop, 'mask': NONE},
                          types={('sym', 'wavefront'): wf})
    ok, det, n = None, 'no Field.shift result reaches the transform', 0
    for p in returns(paths):
        for lp in p.state.loops:
            for b in lp['states']:
                for e in b.events[lp['n_pre_events']:]:
                    if not (e.kind == 'call' and e.data.get('callee') == 'fourier.dft2'):
                        continue
                    sh = (e.data.get('bound') or {}).get('shift')
                    if sh is None:
                        continue
                    calls = [a for a in nf.value_atoms(sh) if is_app(a, 'call:field.Field.shift')]
                    for a in calls:
                        n += 1
                        who = bound_of(a).get('self')
                        own = who is not None and any(x[0] == 'iter' for x in nf.value_atoms(who))
                        if own:
                            ok = True if ok is None else ok
                        else:
                            ok = False
                            det = f'the shift handed to dft2 comes from {fmt(who)[:60]}.shift(...), evaluated once: every field is placed ' \
                                  f'and sub-pixel shifted with the tilt of that one field'
    chk.ob(clause, 'D-flow', 'propagate.propagate_dft', 'every field is shifted by its own tilts', ok,
           det if ok is not True else f'{n} shift(s) taken from the field of the iteration', f.loc())
    # the samples of a field sit at its offset in the input plane: every transform of `X.data` is told `offset=X.offset`
    # (a centred aperture has offset 0, which is why a call without it looks right)
    n_off, bad_off = 0, []
    for p in paths:
        evs = list(p.events) + [e for lp in p.state.loops for b in lp['states'] for e in b.events[lp['n_pre_events']:]]
        seen_ev = set()
        for e in evs:
            if id(e) in seen_ev or not (e.kind == 'call' and e.data.get('callee') == 'fourier.dft2'):
                continue
            seen_ev.add(id(e))
            b = e.data.get('bound') or {}
            fa = b.get('f').single_atom() if isinstance(b.get('f'), Poly) else None
            if fa is None or fa[0] != 'attr' or fa[2] != 'data':
                continue
            n_off += 1
            if b.get('offset') != nf.attr(Poly.atom(fa[1]), 'offset'):
                bad_off.append(f'dft2(f={fmt(b.get("f"))[:40]}, offset={fmt(b.get("offset"))[:40]}) at {e.loc()}')
    chk.ob(clause, 'D-flow', 'propagate.propagate_dft', 'every transform is told the offset of the field it transforms',
           (not bad_off) if n_off else None, '; '.join(sorted(set(bad_off))[:2]) or f'{n_off} transform call(s)', f.loc())
    # ... and it is the wavefront's own fields that are transformed: fields merged beforehand (reduce / merge sum the data and
    # build a Field without tilt) have lost the tilt each of them carried
    merged = []
    for p in paths:
        for e in p.events:
            if e.kind == 'call' and e.depth == 0 and str(e.data.get('callee')) in ('field.reduce', 'field.merge', 'field._merge',
                                                                                    'field._reduce'):
                merged.append(f'{e.data.get("callee")} at {e.loc()}')
    chk.ob(clause, 'D-flow', 'propagate.propagate_dft', 'the fields are transformed one by one, as the wavefront holds them',
           not merged, ('; '.join(sorted(set(merged))[:2]) + ': a merged field carries no tilt, so the displacement of every field '
                        'that overlapped another one is dropped') if merged else 'no merge of the input fields', f.loc())
