"""Data-flow extraction from propagate.propagate_dft (shared by C02/C03/C04)."""
from .. import nf
from ..nf import Poly, Tup, Const, NONE, TRUE
from ..model import AnalysisError
from ..rules import run as analyse, returns, fmt, is_app, S, C, pair

WF = S('wavefront')


def wf_attr(name):
    """wavefront.<name>, accepting the inlined property form (_name)."""
    return (nf.attr(WF, name), nf.attr(WF, '_' + name))


def bound_of(atom):
    return {k.items[0].value: k.items[1] for k in atom[2]}


def transform_events(p):
    """events of the path with, inside the per-field loop, only those of the body state that transforms"""
    events = list(p.events)
    for lp in p.state.loops:
        hit = [b for b in lp['states'] if any(e.kind == 'call' and e.data.get('callee') == 'fourier.dft2'
                                               for e in b.events[lp['n_pre_events']:])]
        if hit:
            mine = {id(e) for e in hit[0].events}
            others = {id(e) for b in lp['states'] if b is not hit[0] for e in b.events} - mine
            events = [e for e in events if id(e) not in others]
            break
    return events


class DftFlow:
    """One returning path of propagate_dft under a configuration."""

    @classmethod
    def all(cls, repo, config, label):
        """One flow per returning path that transforms (a guard that re-interprets an argument on some path only
        must satisfy the contract on that path too)."""
        first = cls(repo, config, label)
        flows = [first]
        for k, p in enumerate(first.candidates):
            if p is first.path:
                continue
            flows.append(cls(repo, config, f'{label}, path {k + 1}', pick=p, shared=first))
        return flows

    def __init__(self, repo, config, label, pick=None, shared=None):
        self.repo, self.label = repo, label
        if shared is not None:
            self.f, self.paths, self.candidates = shared.f, shared.paths, shared.candidates
            self.path = pick
            self._collect()
            return
        wf = repo.cls('wavefront.Wavefront')
        self.f, paths, _ = analyse(repo, 'propagate.propagate_dft', config=config,
                                   types={('sym', 'wavefront'): wf})
        self.paths = returns(paths)
        if not self.paths:
            raise AnalysisError(f'propagate_dft has no returning path under {label}')
        # the path on which the windows intersect and a transform happens
        self.path = None
        want_mask = config.get('mask') is not None and config.get('mask') != NONE
        from ..rules import none_state
        self.candidates = []
        for p in self.paths:
            # with a mask the path established `mask is not None` (and used to call _mask_shape)
            masked = bool(p.calls('propagate._mask_shape')) or none_state(p, 'mask') is False
            if p.calls('fourier.dft2') and masked == want_mask:
                self.path = p
                self.candidates.append(p)
        if self.path is None:
            raise AnalysisError(f'propagate_dft never calls dft2 under {label}')
        self._collect()

    def _collect(self):
        p = self.path
        # inside the per-field loop the body may fork (window misses the output); keep the events of
        # the one body state that transforms, whatever statement the fork happened in
        events = list(p.events)
        for lp in p.state.loops:
            hit = [b for b in lp['states'] if any(e.kind == 'call' and e.data.get('callee') == 'fourier.dft2'
                                                   for e in b.events[lp['n_pre_events']:])]
            if hit:
                mine = {id(e) for e in hit[0].events}
                others = {id(e) for b in lp['states'] if b is not hit[0] for e in b.events} - mine
                events = [e for e in events if id(e) not in others]
                break
        calls = lambda name: [e for e in events if e.kind == 'call' and e.data.get('callee') == name]
        self.events = events
        self.ev = {}
        for name in ('fourier.dft2', 'propagate._dft_alpha', 'wavefront.Wavefront.empty', 'field.Field.shift',
                     'extent.intersection_shape', 'extent.intersection_shift', 'extent.intersect',
                     'extent.array_center', 'propagate._mask_shape', 'propagate._mask_shift',
                     'propagate._propagate_ptype'):
            self.ev[name] = calls(name)
        self.extents = calls('extent.array_extent')
        self.fields = [e for e in events if e.kind == 'call' and e.data.get('new') == 'field.Field']

    def one(self, name):
        ev = self.ev[name]
        if len(ev) != 1:
            raise AnalysisError(f'propagate_dft [{self.label}]: expected one call of {name}, found {len(ev)}')
        return ev[0]


def configs():
    shape, prop = pair('shape'), pair('prop_shape')
    return [
        ({'shape': shape, 'prop_shape': prop, 'mask': NONE}, 'shape & prop_shape given, no mask'),
        ({'shape': NONE, 'prop_shape': NONE, 'mask': NONE}, 'defaults'),
        ({'shape': shape, 'prop_shape': prop, 'mask': S('mask')}, 'with mask'),
    ]
