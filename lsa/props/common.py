"""Rules shared between properties."""
import ast

from .. import nf
from ..nf import Poly, Tup, Const
from ..model import AnalysisError, dotted
from ..rules import run as analyse, returns, fmt, root_chain, alias_root, is_app, seg, kwarg, conds_str


def _ordered_stmts(func):
    out = []
    for n in ast.walk(func.node):
        if isinstance(n, ast.stmt) and n is not func.node:
            out.append(n)
    out.sort(key=lambda n: (n.lineno, n.col_offset))
    return out


def _out_kw_name(call):
    k = kwarg(call, 'out')
    return k.id if isinstance(k, ast.Name) else None


def out_finality(chk, repo, key, clause):
    """After the statement that writes the caller's ``out`` buffer, every later
    update of the result is in place on that object and it is what is returned."""
    f = repo.func(key)
    if 'out' not in f.param_names():
        raise AnalysisError(f'{key} has no out= parameter')
    # decided on the event log (which write lands in `out`, which later steps are in place, what is returned); the
    # statement-by-statement reading below is kept only as a fall-back for code the interpreter gives no verdict on
    try:
        return out_finality_by_value(chk, repo, key, clause)
    except AnalysisError:
        pass
    stmts = _ordered_stmts(f)
    buf, start = None, None
    for i, s in enumerate(stmts):
        if isinstance(s, (ast.Assign, ast.Expr, ast.Return)):
            v = s.value
            if isinstance(v, ast.Call) and _out_kw_name(v) == 'out':
                if isinstance(s, ast.Assign) and len(s.targets) == 1 and isinstance(s.targets[0], ast.Name):
                    buf = s.targets[0].id
                else:
                    buf = 'out'
                start = i
                break
    if buf is None:
        return out_finality_by_value(chk, repo, key, clause)
    names = {buf}
    n = 0
    for s in stmts[start + 1:]:
        if isinstance(s, ast.Assign):
            for t in s.targets:
                if isinstance(t, ast.Name) and t.id in names:
                    v = s.value
                    ok = isinstance(v, ast.Call) and _out_kw_name(v) in names
                    n += 1
                    chk.ob(clause, 'E-finality', key, f'rebinding of result `{t.id}`', ok,
                           f'`{seg(f, s)}` replaces the caller-supplied buffer by a new array' if not ok
                           else 'in-place update', f.loc(s))
        elif isinstance(s, ast.AugAssign) and isinstance(s.target, ast.Name) and s.target.id in names:
            n += 1
            chk.ob(clause, 'E-finality', key, f'augmented update of `{s.target.id}`', True, 'in place', f.loc(s))
        elif isinstance(s, ast.Expr) and isinstance(s.value, ast.Call):
            o = _out_kw_name(s.value)
            if o is not None:
                n += 1
                first = s.value.args[0] if s.value.args else None
                ok = o in names
                chk.ob(clause, 'E-finality', key, f'in-place step `{dotted(s.value.func)}`', ok,
                       f'`{seg(f, s)}` writes its result into `{o}`, not into the result buffer `{buf}`'
                       if not ok else 'in place', f.loc(s))
        if isinstance(s, ast.Return):
            v = s.value
            ok = (isinstance(v, ast.Name) and v.id in names) or \
                 (isinstance(v, ast.Call) and _out_kw_name(v) in names)
            n += 1
            chk.ob(clause, 'E-finality', key, 'returned object', ok,
                   f'`{seg(f, s)}` does not return the buffer `{buf}` that received the result'
                   if not ok else f'returns `{buf}`', f.loc(s))
    return n


def out_finality_by_value(chk, repo, key, clause):
    """The same obligation read off the event log (helpers inlined): some call writes its result into the caller's
    buffer, every later step up to the return updates that object in place, and that object is what is returned."""
    from ..rules import run as analyse, returns, fmt, S, conds_str
    from ..nf import Poly, NONE
    from ..expr import arith
    f = repo.func(key)
    out = S('out')
    _, paths, _ = analyse(repo, f, config={'out': out})
    n = 0
    for p in returns(paths):
        if any(pol and fmt(c) == 'is(out, (None))' for c, pol, _ in p.conds):
            continue            # no buffer supplied
        chain = None
        before = {}
        for i, e in enumerate(p.events):
            before[i] = chain
            if e.kind == 'note' and e.data.get('rule') == 'except':
                # the handler runs because a step of the try body did not complete: a buffer write in there is not relied on
                chain = before.get(e.data.get('start'), None)
                continue
            if e.kind == 'call' and e.depth == 0 and (e.data.get('bound') or {}).get('out') == out and \
                    repo.has_func(str(e.data.get('callee'))) and e.data.get('result') is not None:
                if chain is not None and any(k_ != 'out' and v_ == chain for k_, v_ in (e.data.get('bound') or {}).items()):
                    chk.ob(clause, 'E-finality', key, f'the buffer is not also the input of the call that fills it [{conds_str(p)[:60]}]', False,
                           f'{e.data.get("callee")} receives the content of `out` as an argument and `out` as its output: intermediate '
                           'values written there have the shape of the result, not of the input', f.loc(e.node))
                chain = e.data.get('result')        # delegated to a function of the package that fills `out` (checked there)
                continue
            if e.kind != 'write':
                continue
            how = e.data.get('how')
            if how == 'out=' and e.target == out:
                chain = e.data.get('value')
            elif chain is not None and how == 'out=' and e.target == chain:
                chain = e.data.get('value')
            elif chain is not None and how == 'augassign' and e.target == chain:
                chain = arith(e.data.get('op'), chain, e.data.get('value'))
            elif chain is not None and how == 'setitem' and e.target == chain:
                chain = nf.app('setitem', chain, e.data.get('key'), e.data.get('value'))
        n += 1
        if chain is None:
            chk.ob(clause, 'E-finality', key, f'the result is written into the caller\'s buffer [{conds_str(p)[:60]}]', False,
                   'no call writes its result into `out` on this path', f.loc(p.node))
            continue
        chk.ob(clause, 'E-finality', key, f'returned object [{conds_str(p)[:60]}]', p.ret == chain,
               'returns the buffer after in-place updates only' if p.ret == chain else
               f'returns {fmt(p.ret)[:100]}, but the buffer holds {fmt(chain)[:100]}: a step after the write into `out` '
               f'made a new array', f.loc(p.node))
    if not n:
        raise AnalysisError(f'{key}: no returning path with out given')
    return n


def agrees_with_reference(chk, clause, repo, key, ref_src, what, inline=(), types=None, config=None, max_paths=512):
    """Sibling cross-check against a reference implementation kept in the checker: both are evaluated to normal forms with
    the same helpers inlined, paths are paired by their (flattened, canonical) conditions and the results compared.
    Verdict True when every path has a partner with an equal result, False when a partner exists and the results differ,
    undecided when the case splits do not correspond."""
    from ..model import FuncInfo
    from ..rules import literals, conds_str
    f = repo.func(key)
    node = ast.parse(ref_src).body[0]
    ref = FuncInfo(f.module, '__reference__' + f.name, node, cls=f.cls)
    _, cp, _ = analyse(repo, f, inline=list(inline), types=types, config=config, max_paths=max_paths)
    _, rp, _ = analyse(repo, ref, inline=list(inline), types=types, config=config, max_paths=max_paths)

    def keyof(p):
        return frozenset((nf.vkey(c), bool(pol)) for c, pol in literals(p.conds))

    def outcome(p):
        return ('return', p.ret) if p.status == 'return' else (p.status, getattr(p, 'exc', None))
    refs = {}
    for p in rp:
        refs.setdefault(keyof(p), p)
    n_ok = 0
    for p in cp:
        q = refs.get(keyof(p))
        if q is None:
            # no reference path under exactly these tests: look for the reference paths these tests are compatible with
            mine = dict(keyof(p))
            comp = [r for r in rp if all(mine.get(k, v) == v for k, v in keyof(r))]
            same = comp and all(outcome(r) == outcome(p) for r in comp)
            none = comp and not any(outcome(r) == outcome(p) for r in comp)
            chk.ob(clause, 'N-sibling', key, f'{what} [{conds_str(p)[:80]}]', True if same else (False if none else None),
                   f'{len(comp)} compatible reference path(s), all with this result' if same else
                   (f'result {fmt(p.ret)[:120] if p.status == "return" else p.status} is none of the results the reference gives '
                    f'under these tests (e.g. {fmt(comp[0].ret)[:120] if comp[0].status == "return" else comp[0].status})' if none else
                    'the case split differs from the reference implementation: not decided'), f.loc(p.node))
            continue
        same = outcome(p) == outcome(q)
        n_ok += bool(same)
        chk.ob(clause, 'N-sibling', key, f'{what} [{conds_str(p)[:80]}]', same,
               'equal to the reference implementation' if same else
               f'result {fmt(p.ret)[:140] if p.status == "return" else p.status}; reference: '
               f'{fmt(q.ret)[:140] if q.status == "return" else q.status}', f.loc(p.node))
    return n_ok


def cached_functions(repo):
    return {f.key for f in repo.all_functions() if f.is_cached}


def cache_untouched(chk, repo, clause, modules=None):
    """E2: values returned by lru_cache'd functions are never written and never
    returned (escape) by any function of the given modules."""
    cached = cached_functions(repo)
    if not cached:
        # no memoisation at all: nothing can be poisoned
        chk.ob(clause, 'E2-cache', 'package', 'no memoised function present', True, 'no lru_cache in package')
        return
    # a memoised function is private to the package: what a public one returns is one object handed to every caller, and the
    # callers are free to edit what they were given
    public = sorted(k for k in cached if not k.split('.')[-1].startswith('_'))
    chk.ob(clause, 'E2-cache', 'package', 'only private helpers are memoised', not public,
           (', '.join(public) + ': every call with equal arguments returns the same array object - a caller that edits its result '
            'changes what later calls return') if public else f'{len(cached)} memoised helper(s), all private', '')
    n = 0
    for f in repo.all_functions():
        if modules and f.module.name not in modules:
            continue
        uses = [c for c in ast.walk(f.node) if isinstance(c, ast.Call)
                and _resolves_to(repo, f, c, cached)]
        if not uses:
            continue
        _, paths, _ = analyse(repo, f)
        bad = []
        for p in paths:
            for e in p.writes():
                root, steps = root_chain(e.target)
                if root is not None and is_app(root) and root[1].startswith('call:') and root[1][5:] in cached:
                    bad.append((e, f'writes ({e.how}) into the memoised result of {root[1][5:]}'))
            if p.status == 'return':
                vals = p.ret.items if isinstance(p.ret, Tup) else (p.ret,)
                for v in vals:
                    root, steps = root_chain(v)
                    if root is not None and is_app(root) and root[1].startswith('call:') and root[1][5:] in cached:
                        bad.append((p, f'returns (a view of) the memoised result of {root[1][5:]}'))
        for u in uses:
            n += 1
            mine = [b for b in bad]
            chk.ob(clause, 'E2-cache', f.key, f'use of memoised {dotted(u.func)}', not mine,
                   '; '.join(sorted({m[1] for m in mine})) or 'read-only use', f.loc(u))
    if n == 0:
        raise AnalysisError('memoised functions exist but no use site was found')


def _resolves_to(repo, f, call, keys):
    d = dotted(call.func)
    if d is None:
        return False
    t = repo.resolve_name(f.module, d)
    return getattr(t, 'key', None) in keys


def tilt_slot_agreement(chk, repo, clause):
    """C04-g / C10-e: the entries per segment that Plane.fit_tilt can accumulate
    in Plane.tilt are all consumed by Plane.multiply."""
    from ..nf import Slice
    fw = repo.func('plane.Plane.fit_tilt')
    _, wpaths, _ = analyse(repo, fw)
    grows, replaced = [], False
    for p in wpaths:
        reset = False
        for e in p.events:
            if e.kind != 'write' or e.depth != 0:
                continue
            if e.data.get('how') == 'attrstore' and e.data.get('attr') == 'tilt':
                reset = True
                replaced = True
            if e.data.get('how') in ('method:append', 'method:extend', 'method:insert') and not reset:
                a = e.target.single_atom() if hasattr(e.target, 'single_atom') else None
                if a is not None and a[0] == 'attr' and a[2] == 'tilt':
                    grows.append(e)
    fr = repo.func('plane.Plane.multiply')
    _, rpaths, _ = analyse(repo, fr, types={('sym', 'wavefront'): repo.cls('wavefront.Wavefront')})
    reads_all, reads, detail = True, 0, ''
    tilt_atom = nf.attr(nf.sym('self'), 'tilt').single_atom()
    for p in rpaths:
        for e in p.events:
            if e.kind == 'call' and e.data.get('new') == 'field.Field' and e.depth == 0:
                t = e.bound.get('tilt')
                if t is None or tilt_atom not in nf.value_atoms(t):
                    continue
                reads += 1
                full = False
                if isinstance(t, Poly) and t.single_atom() == tilt_atom:
                    full = True
                for a in nf.value_atoms(t):
                    if a[0] == 'idx' and a[1] == tilt_atom and isinstance(a[2], Slice) and a[2].hi == nf.NONE:
                        full = True      # an open-ended slice reaches every later entry of the segment
                if not full:
                    reads_all = False
                    detail = f'reader passes tilt={fmt(t)} (a single entry per segment)'
    if reads == 0:
        raise AnalysisError('Plane.multiply: no Field built from self.tilt found')
    ok = reads_all or not grows
    # every fit removes its tip/tilt from the OPD for good, so the record of an earlier fit (or a tilt the user
    # assigned) must survive a later fit: the writer adds to the list, it never replaces it
    chk.ob(clause, 'D-cardinality', 'plane.Plane.tilt', 'fit_tilt adds to the recorded tilts, it never replaces the record',
           not replaced and bool(grows), f'{len(grows)} growth site(s)' + ('; the list is re-assigned on a fitting path: what an '
                                                                         'earlier fit removed from the OPD is lost' if replaced else ''),
           fw.loc())
    chk.ob(clause, 'D-cardinality', 'plane.Plane.tilt', 'writer fit_tilt vs reader multiply', ok,
           (f'fit_tilt grows the list on every call ({len(grows)} growth site(s), e.g. {grows[0].loc()}) but '
            + detail + ': tilt fitted after an OPD update is never applied') if not ok else
           ('reader consumes every recorded entry of its segment' if reads_all else 'writer replaces the record'),
           fr.loc())


def seed_rules(chk, repo, eff, clause, global_users, only=None):
    """E3: seeded functions draw only from default_rng(seed); users of global
    random state are exactly the documented unseeded models."""
    from .. import bind
    S = nf.sym
    seeded = [f for f in repo.all_functions() if 'seed' in f.param_names()]
    if len(seeded) < 5:
        raise AnalysisError(f'only {len(seeded)} functions with a seed parameter found (5 confirmed by hand)')
    for f in seeded:
        s = eff.summary(f)
        rngs = [r for r in s.rng if r[0] == 'default_rng']
        draws = [r for r in s.rng if r[0] == 'draw']
        bad = [r for r in s.rng if r[0] in ('global-rng', 'nondet') or r[0].startswith('reaches:')]
        forwards = []
        for site in bind.sites(repo, f):
            if 'seed' in site.callee.param_names():
                a = site.binding.get('seed')
                forwards.append(isinstance(a, ast.Name) and a.id == 'seed')
        seeded_ok = (bool(rngs) and all(r[1] == S('seed') for r in rngs)) or (not rngs and forwards and all(forwards))
        chk.ob(clause, 'E3-seed', f.key, 'seed reaches the generator', seeded_ok,
               'default_rng(seed)' if seeded_ok else
               f'generator built from {[fmt(r[1]) if r[1] is not None else "nothing" for r in rngs] or "no default_rng / no forwarding"}',
               f.loc())
        from_rng = True
        for r in draws:
            meth, recv, _, _ = r[1]
            a = recv.single_atom() if isinstance(recv, Poly) else None
            from_rng = from_rng and a is not None and is_app(a, 'random.default_rng')
        chk.ob(clause, 'E3-draws', f.key, 'all draws come from that generator; no global RNG / clock',
               from_rng and not bad,
               '; '.join(f'{r[0]} {r[1]} at {r[2]}' for r in bad) or
               ('a draw does not come from default_rng(seed)' if not from_rng else f'{len(draws)} draw(s) from the local generator'),
               f.loc())
    from ..model import callees_of
    from ..interp import known_functions
    callers = {}
    for g_ in repo.all_functions():
        for k in callees_of(repo, g_):
            callers.setdefault(k, set()).add(g_.key)
        # a private function handed on by name (functools.partial(_helper, ...), a table entry) runs on behalf of the function
        # that names it
        for n_ in ast.walk(g_.node):
            if isinstance(n_, ast.Name) and isinstance(n_.ctx, ast.Load) and n_.id.startswith('_') and n_.id in g_.module.functions \
                    and f'{g_.module.name}.{n_.id}' != g_.key:
                callers.setdefault(f'{g_.module.name}.{n_.id}', set()).add(g_.key)

    def part_of_documented(key, seen=()):
        """a private helper split off a documented unseeded model: new since the rules were written and called by
        nothing but documented users of the global generator (or further such helpers)"""
        if key in global_users:
            return True
        parts = key.split('.')
        private = parts[-1].startswith('_') or (len(parts) >= 3 and parts[-2].startswith('_'))
        if key in seen or key in known_functions() or not private:
            return False
        cs = set(callers.get(key, set()))
        if len(parts) >= 3 and parts[-2].startswith('_'):
            # a method of a private class: it runs where the class is used - the functions that name the class
            cname = parts[-2]
            for g_ in repo.all_functions():
                if g_.module.name == parts[0] and g_.key != key and any(isinstance(n_, ast.Name) and n_.id == cname for n_ in ast.walk(g_.node)):
                    cs.add(g_.key)
            cs = {c for c in cs if not c.startswith('.'.join(parts[:-1]) + '.')} or cs
        return bool(cs) and all(part_of_documented(c, seen + (key,)) for c in cs)
    for f in repo.all_functions():
        s = eff.summary(f)
        g = [r for r in s.rng if r[0] in ('global-rng', 'nondet') or r[0].startswith('reaches:')]
        if g:
            ok = f.key in global_users or part_of_documented(f.key)
            chk.ob(clause, 'E3-global', f.key, 'global random state user', ok,
                   ('documented unseeded model: ' if ok else 'undocumented use of global random state / nondeterminism: ')
                   + '; '.join(f'{r[1]} at {r[2]}' for r in g), f.loc())



def mul_concat(chk, repo, clause):
    """Field.__mul__ hands the product a NEW list holding both operands' tilts."""
    S = nf.sym
    from ..rules import alias_root
    fm = repo.func('field.Field.__mul__')
    _, paths, _ = analyse(repo, fm)
    ok, det, n = True, '', 0
    for p in returns(paths):
        for e in p.events:
            if e.kind == 'call' and e.data.get('new') == 'field.Field':
                n += 1
                t = e.bound.get('tilt')
                r = alias_root(t) if t is not None else None
                fresh = t is not None and r is None and isinstance(t, Poly) and \
                    {nf.attr(S('self'), 'tilt').single_atom(), nf.attr(S('other'), 'tilt').single_atom()} <= t.atoms()
                if not fresh:
                    ok, det = False, f'product field gets tilt = {fmt(t)}'
                else:
                    both = nf.attr(S('self'), 'tilt') + nf.attr(S('other'), 'tilt')
                    tv = nf.strip_apps(t, ('list', 'copy', 'tuple'))
                    if tv != both:
                        choice = [a for a in nf.value_atoms(t) if is_app(a, ('or', 'and', 'ifexp', 'where'))]
                        if choice:
                            # `self.tilt or other.tilt`: one operand's tilts are dropped whenever the other has any
                            ok, det = False, f'product field gets tilt = {fmt(t)[:80]}: a choice between the two lists, not both'
                        elif ok:
                            ok, det = None, f'undecided: tilt = {fmt(t)[:80]} is built from both lists in a way that is not followed'
    chk.ob(clause, 'E-ownership', fm.key, 'product carries a new list with both operands\' tilts', (ok and n > 0) if ok is not None else None,
           det or 'tilt = self.tilt + other.tilt (new list)', fm.loc())
    # ... and is itself a new Field on every path: an operand handed back as "the product" is shared between the wavefront
    # that went in and the one that comes out (a tilt appended to one is appended to both)
    same = [p for p in returns(paths) if p.ret in (S('self'), S('other'))]
    chk.ob(clause, 'E-ownership', fm.key, 'the product is a new Field on every path (never one of the operands)', not same,
           f'[{conds_str(same[0])[:100]}] returns {fmt(same[0].ret)}' if same else '', fm.loc())


def shape_scan(chk, repo, clause, modules, skip=()):
    """Package-wide symbolic shape inference (engine U, axis part): in every
    function of the given modules, no operation may combine two *different*
    dimensions of one and the same array (they coincide only for square
    inputs).  Parameters the function itself treats as 2-D (`x.shape[1]`,
    `r, c = x.shape`) are declared 2-D; documented scalars are scalars."""
    import ast as _ast
    from ..effects import doc_param_kinds
    from ..shapes import Shapes
    from ..state import PathLimit
    from ..interp import Interp
    from ..effects import param_types
    n = 0
    for f in sorted(repo.all_functions(), key=lambda f: f.key):
        if f.module.name not in modules or f.key in skip:
            continue
        decl = {}
        two_d = set()
        idx_seen = {}
        for node in _ast.walk(f.node):
            if isinstance(node, _ast.Subscript) and isinstance(node.value, _ast.Attribute) and node.value.attr == 'shape' \
                    and isinstance(node.value.value, _ast.Name) and isinstance(node.slice, _ast.Constant) \
                    and node.slice.value in (0, 1):
                idx_seen.setdefault(node.value.value.id, set()).add(node.slice.value)
            if isinstance(node, _ast.Assign) and isinstance(node.value, _ast.Attribute) and node.value.attr == 'shape' \
                    and isinstance(node.value.value, _ast.Name) and isinstance(node.targets[0], _ast.Tuple) \
                    and len(node.targets[0].elts) == 2:
                two_d.add(node.value.value.id)
        two_d |= {k for k, v in idx_seen.items() if v == {0, 1}}
        # arrays that are also used as cubes (x.shape[2]) are not declared
        for node in _ast.walk(f.node):
            if isinstance(node, _ast.Subscript) and isinstance(node.value, _ast.Attribute) and node.value.attr == 'shape' \
                    and isinstance(node.value.value, _ast.Name) and isinstance(node.slice, _ast.Constant) \
                    and node.slice.value not in (0, 1):
                two_d.discard(node.value.value.id)
        # a rank test on the name means its rank varies: do not declare it
        for node in _ast.walk(f.node):
            if isinstance(node, _ast.Attribute) and node.attr == 'ndim' and isinstance(node.value, _ast.Name):
                two_d.discard(node.value.id)
        params = set(f.param_names())
        for name in two_d & params:
            sh = nf.attr(nf.sym(name), 'shape')
            decl[('sym', name)] = (nf.index(sh, Poly.const(0)), nf.index(sh, Poly.const(1)))
        for name, kind in doc_param_kinds(f).items():
            if kind == 'scalar' and name in params and ('sym', name) not in decl:
                decl[('sym', name)] = ()
        if not any(len(v) == 2 for v in decl.values()):
            continue
        try:
            paths = Interp(repo, types=param_types(repo, f), max_paths=512).run(f)
        except PathLimit:
            continue
        sh = Shapes(decl)
        for p in paths:
            vals = []
            if p.status == 'return' and p.ret is not None:
                vals += list(p.ret.items) if isinstance(p.ret, Tup) else [p.ret]
            for e in p.events:
                if e.kind == 'write' and isinstance(e.data.get('value'), Poly):
                    vals.append(e.data['value'])
                if e.kind == 'call':
                    vals += [v for v in (e.data.get('bound') or {}).values() if isinstance(v, Poly)]
                    vals += [v for v in (e.data.get('args') or []) if isinstance(v, Poly)]
            for v in vals:
                try:
                    sh.of(v, where=f.key)
                except RecursionError:
                    pass
        n += 1
        cl = sorted(set(sh.clashes))
        chk.ob(clause, 'U-shape-scan', f.key, 'no operation mixes two different axes of one array', not cl,
               '; '.join(cl[:3]) if cl else f'declared 2-D: {sorted(k[1] for k, v in decl.items() if len(v) == 2)}', f.loc())
    return n


def self_delegation_forwards(chk, repo, clause, keys):
    """A function that re-enters itself (e.g. on a converted copy) hands over every one of its own
    parameters: one that is left out silently falls back to its default on that path only."""
    from .. import bind
    for key in keys:
        f = repo.func(key)
        n = 0
        for s in bind.sites(repo, f):
            if s.callee.key != f.key:
                continue
            n += 1
            params = [p for p, d, k in f.params() if p != 'self' and k in ('pos', 'kwonly')]
            missing = [p for p in params if p not in s.binding and not s.star]
            chk.ob(clause, 'B6-forward', key, f'self-delegation at line {s.node.lineno} forwards every parameter', not missing,
                   ('not forwarded: ' + ', '.join(missing) + ' (the inner call uses the default)') if missing else
                   f'{len(params)} parameter(s) forwarded', s.loc())
        if n == 0:
            chk.undecided(clause, 'B6-forward', key, 'self-delegation forwards every parameter', 'no self-delegation found', f.loc())


def ctor_forwarding_rule(chk, repo, clause, module='plane'):
    """A plane class that refines another hands every constructor argument it shares with the parent on to it: an argument
    that is accepted and then left out of `super().__init__(...)` silently takes the parent's default (a mask that is
    ignored, a pixel scale that is dropped)."""
    bad, n = [], 0
    for cls in repo.modules[module].classes.values():
        init = cls.methods.get('__init__') if isinstance(cls.methods, dict) else None
        if init is None:
            continue
        own = [a.arg for a in init.node.args.posonlyargs + init.node.args.args + init.node.args.kwonlyargs if a.arg != 'self']
        for node in ast.walk(init.node):
            if not (isinstance(node, ast.Call) and isinstance(node.func, ast.Attribute) and node.func.attr == '__init__'
                    and isinstance(node.func.value, ast.Call) and isinstance(node.func.value.func, ast.Name)
                    and node.func.value.func.id == 'super'):
                continue
            parent = cls.find_method('__init__', after=cls)
            if parent is None:
                continue
            ppos = [a.arg for a in parent.node.args.posonlyargs + parent.node.args.args if a.arg != 'self']
            pnames = set(ppos) | {a.arg for a in parent.node.args.kwonlyargs}
            given = {k.arg for k in node.keywords if k.arg} | set(ppos[:len(node.args)])
            n += 1
            if init.node.args.kwarg is not None and parent.node.args.kwarg is not None:
                kw_ = init.node.args.kwarg.arg
                handed = any(k.arg is None and isinstance(k.value, ast.Name) and k.value.id == kw_ for k in node.keywords)
                used_kw = [x for x in ast.walk(init.node) if isinstance(x, ast.Name) and x.id == kw_ and isinstance(x.ctx, ast.Load)]
                if not handed and not used_kw:
                    bad.append(f'{cls.key}.__init__ accepts **{kw_} and hands none of it to {parent.key} at {init.loc(node)}')
            for q in own:
                if q in pnames and q not in given:
                    # used some other way (folded into another argument) is fine; accepted and never mentioned again is not
                    used = [x for x in ast.walk(init.node) if isinstance(x, ast.Name) and x.id == q and isinstance(x.ctx, ast.Load)]
                    if not used:
                        bad.append(f'{cls.key}.__init__ accepts `{q}` but does not pass it to {parent.key} at {init.loc(node)}')
    chk.ob(clause, 'B6-forward', f'lentil.{module}', 'a refining class passes the constructor arguments it shares with its parent on to it',
           (not bad) if n else None, '; '.join(bad[:2]) + (': the parent falls back to its default' if bad else f'{n} super().__init__ call(s)'), '')


def loop_accumulator(p, value):
    """(loop info, variable name) of the loop-carried variable that ``value`` (a loop phi atom) denotes on
    path p, whatever the variable is called; (None, None) if it is not a loop-carried variable."""
    from ..nf import Poly
    a = value.single_atom() if isinstance(value, Poly) else None
    if a is None or a[0] != 'loop':
        return None, None
    for lp in p.state.loops:
        for n, phi in lp['phi'].items():
            if phi.single_atom()[1] == a[1]:
                return lp, n
    return None, None


def operands_untouched(chk, repo, clause, keys, allow=()):
    """None of the functions writes (directly or through callees) into a caller-supplied operand,
    except the documented accumulate-into targets in ``allow`` ((function key, parameter) pairs).
    A result that depends on such a write depends on the call history."""
    from ..effects import Effects
    eff = Effects(repo)
    for key in keys:
        if not repo.has_func(key):
            chk.undecided(clause, 'E1-write', key, 'operands untouched', 'function no longer exists under this name', '')
            continue
        f = repo.func(key)
        sm = eff.summary(f)
        ws = [w for w in sm.writes if (key, w.param) not in allow
              and not (f.cls is not None and f.name == '__init__' and w.param == f.params()[0][0])]
        chk.ob(clause, 'E1-write', key, 'operands untouched', not ws,
               '; '.join(f'{w.how} on `{w.detail}` modifies the caller-supplied `{w.param}` at {w.loc}' for w in ws[:3]) or
               f'{len(sm.writes)} write(s), all on fresh values or documented accumulate-into targets', f.loc())


PROPERTY_MODULES = {
    'C01': ['fourier'], 'C02': ['propagate', 'fourier', 'extent', 'field', 'wavefront', 'util'],
    'C03': ['plane', 'helper', 'field', 'wavefront', 'propagate', 'fourier', 'extent'], 'C04': ['plane', 'field', 'propagate', 'wavefront'],
    'C05': ['fourier', 'propagate', 'util', 'wavefront'], 'C06': ['field', 'extent'],
    'C07': ['wavefront', 'plane', 'field'], 'C08': ['plane', 'propagate', 'ptype', 'wavefront', 'field'],
    'C09': ['propagate', 'util', 'field'], 'C11': ['zernike', 'helper', 'util'], 'C12': ['zernike'],
    'C13': ['radiometry'], 'C14': ['radiometry'], 'C15': ['radiometry'], 'C16': ['detector', 'radiometry'],
    'C17': ['plane', 'util'], 'C18': ['detector', 'wfe', 'helper'], 'C19': ['detector', 'convolvable'],
    'C20': ['util', 'helper', 'shape', 'segmented'],
}


def no_hidden_state(chk, repo, pid):
    """Results depend only on the arguments: no function of the property's
    modules keeps state in a module-level object (written by a function), and no
    memoised value is written or handed out.  A necessary condition of every
    'for all inputs the function returns ...' property: such state makes the
    result depend on the call history (e.g. a cache keyed on an incomplete set
    of arguments).  Evaluated first so that it is reported even when a later,
    structure-specific rule no longer recognises the code."""
    from ..effects import Effects
    clause = f'{pid}-m'
    mods = PROPERTY_MODULES[pid]
    public_signature_rule(chk, repo, pid, mods)
    chk.clause(clause, 'results depend only on the arguments: no module-level state is written by the functions of '
               + ', '.join(mods), 1)
    eff = Effects(repo)
    n = 0
    bad = []
    for f in repo.all_functions():
        if f.module.name not in mods:
            continue
        n += 1
        s = eff.summary(f)
        for name, how, loc in s.global_writes:
            bad.append((f.key, name, how, loc))
        for ck, how, loc in s.cached_writes:
            bad.append((f.key, 'memoised result of ' + ck, how, loc))
        # state kept on the class object (written through `cls` in __new__ / a classmethod) is shared by every later call too
        if f.cls is not None and (f.is_classmethod or f.name == '__new__') and f.params():
            first = f.params()[0][0]
            for w in s.writes:
                if w.param == first:
                    bad.append((f.key, f'class attribute of {f.cls.name} ({w.detail})', w.how, w.loc))
        # a mutable default argument that the function updates is one object shared by every call that relies on it
        for node in [f.node]:
            args = node.args
            pos = args.posonlyargs + args.args
            pairs = list(zip(pos[len(pos) - len(args.defaults):], args.defaults)) + \
                [(a, d) for a, d in zip(args.kwonlyargs, args.kw_defaults) if d is not None]
            for a, d in pairs:
                mutable = isinstance(d, (ast.Dict, ast.List, ast.Set)) or \
                    (isinstance(d, ast.Call) and dotted(d.func) in ('dict', 'list', 'set', 'np.zeros', 'np.ones', 'np.empty',
                                                                    'np.array', 'numpy.zeros', 'collections.defaultdict'))
                if not mutable:
                    continue
                for w in s.writes:
                    if w.param == a.arg:
                        bad.append((f.key, f'default value of parameter `{a.arg}`', w.how, w.loc))
    seen = set()
    for fk, name, how, loc in bad:
        if (fk, name) in seen:
            continue
        seen.add((fk, name))
        chk.ob(clause, 'E4-module-state', fk, f'keeps state in `{name}`', False,
               f'{how} on the module-level / memoised object `{name}`: later calls see what earlier calls left there, '
               f'so the result is not a function of the arguments alone', loc)
    chk.ob(clause, 'E4-module-state', '+'.join(mods), 'no hidden state', not bad, f'{n} functions scanned', '')
    lazy_attribute_rule(chk, repo, clause, mods)
    memory_layout_rule(chk, repo, clause, mods)
    no_tolerance_shortcut(chk, repo, pid)
    return eff


def mask_index_rule(chk, repo, clause, keys, config=None):
    """A 0/1 mask selects samples only as a boolean array: as an integer array it is a list of row numbers (rows 0 and 1), and
    the bitwise complement `~m` of an integer mask is the list (-1, -2).  Decided for subscript stores whose key is
      * `~x` with x a plane mask (`mask`, `_mask`, `global_mask`: stored as 0/1 numbers, integers after a rescale), or
      * a loop-carried array that starts as zeros / ones / empty / full of a non-boolean element type."""
    from .. import dtypes
    bad, n = [], 0
    cfgs = config if isinstance(config, list) else [config]
    for key in keys:
        if not repo.has_func(key):
            continue
        f = repo.func(key)
        for cfg in cfgs:
            try:
                _, paths, _ = analyse(repo, f, config=cfg)
            except AnalysisError:
                continue
            for p in paths:
                loops = p.state.loops
                evs = list(p.events) + [e for lp in loops for b in lp['states'] for e in b.events[lp['n_pre_events']:]]
                for e in evs:
                    if not (e.kind == 'write' and e.data.get('how') == 'setitem') or not isinstance(e.data.get('key'), Poly):
                        continue
                    k = e.data['key']
                    n += 1
                    ka = k.single_atom()
                    if ka is not None and is_app(ka, 'invert') and isinstance(ka[2][0], Poly):
                        xa = ka[2][0].single_atom()
                        if xa is not None and xa[0] == 'attr' and xa[2] in ('mask', '_mask', 'global_mask'):
                            bad.append(f'{f.key}: `~{fmt(ka[2][0])[-40:]}` used as an index at {e.loc()}: the mask holds the numbers 0 / 1, '
                                       'whose bitwise complement is -1 / -2 - a list of row numbers, not the samples outside the mask')
                    if ka is not None and ka[0] == 'loop':
                        for lp in loops:
                            for nm, phi in lp['phi'].items():
                                if phi.single_atom() is not None and phi.single_atom()[:2] == ka[:2]:
                                    pre = lp['pre'].get(nm)
                                    pa = pre.single_atom() if isinstance(pre, Poly) else None
                                    if pa is not None and is_app(pa, ('zeros', 'ones', 'empty', 'full', 'zeros_like', 'ones_like')) \
                                            and 'bool' not in dtypes.kinds(pre):
                                        bad.append(f'{f.key}: `{nm}` starts as {fmt(pre)[:60]} and is used as an index at {e.loc()}: a '
                                                   'numeric 0/1 array indexes rows 0 and 1 instead of selecting the marked samples')
    chk.ob(clause, 'T-dtype', '+'.join(k.split('.')[-1] for k in keys), 'masks select samples as boolean arrays',
           (not bad) if n else None, '; '.join(sorted(set(bad))[:2]) or f'{n} subscript store(s) examined', '')


LAZY_CALLS = ('map', 'filter', 'zip', 'iter', 'reversed', 'enumerate')


def memory_layout_rule(chk, repo, clause, mods):
    """The memory layout of an argument (C or Fortran order, a transposed view) is not part of its value: flattening or
    reshaping in "whatever order the data happens to be stored" (`order='K'` / `'A'`) pairs the samples with index grids
    flattened in C order differently for equal arrays."""
    bad, n = [], 0
    for f in repo.all_functions():
        if f.module.name not in mods:
            continue
        for node in ast.walk(f.node):
            if not isinstance(node, ast.Call):
                continue
            name = node.func.attr if isinstance(node.func, ast.Attribute) else getattr(node.func, 'id', '')
            if name not in ('ravel', 'flatten', 'reshape', 'resize', 'nditer', 'tobytes', 'tostring'):
                continue
            n += 1
            for k in node.keywords:
                if k.arg == 'order' and isinstance(k.value, ast.Constant) and k.value.value in ('K', 'A', 'k', 'a'):
                    bad.append(f"{f.key}: `{f.module.segment(node)[:60]}` at {f.loc(node)}")
            if name in ('ravel', 'flatten') and node.args and isinstance(node.args[-1], ast.Constant) and node.args[-1].value in ('K', 'A'):
                bad.append(f"{f.key}: `{f.module.segment(node)[:60]}` at {f.loc(node)}")
    chk.ob(clause, 'E5-layout', '+'.join(mods), 'samples are enumerated in index order, never in the order the argument happens to be stored in',
           not bad, ('; '.join(bad[:2]) + ': a Fortran-ordered or transposed argument with the same values gives another result') if bad
           else f'{n} flatten / reshape call(s)', '')


def lazy_attribute_rule(chk, repo, clause, mods):
    """No one-shot iterator is kept on an object: `self._slice = map(f, mask)` (or a helper that returns `map(...)` whose
    result is stored) is walked once - the first use of the object exhausts it and every later use sees an empty sequence,
    so what the object does depends on how often it has been used."""
    def lazy(node, names=()):
        if isinstance(node, ast.GeneratorExp):
            return True
        if isinstance(node, ast.Call) and isinstance(node.func, ast.Name) and node.func.id in LAZY_CALLS:
            return True
        if isinstance(node, ast.Call) and (dotted(node.func) or '').startswith('itertools.'):
            return True
        return isinstance(node, ast.Name) and node.id in names

    def lazy_names(fn):
        # locals that hold a lazy value on some path and are never re-bound to something else by list()/tuple()
        out = set()
        for n_ in ast.walk(fn.node):
            if isinstance(n_, ast.Assign) and len(n_.targets) == 1 and isinstance(n_.targets[0], ast.Name) and lazy(n_.value):
                out.add(n_.targets[0].id)
        return out
    lazy_funcs = {}
    for fn in repo.all_functions():
        names = lazy_names(fn)
        for n_ in ast.walk(fn.node):
            if isinstance(n_, ast.Return) and n_.value is not None and lazy(n_.value, names):
                lazy_funcs[fn.key] = fn.loc(n_)
    bad, n = [], 0
    for fn in repo.all_functions():
        if fn.module.name not in mods:
            continue
        names = lazy_names(fn)
        for n_ in ast.walk(fn.node):
            if not (isinstance(n_, ast.Assign) and any(isinstance(t, ast.Attribute) for t in n_.targets)):
                continue
            n += 1
            v = n_.value
            how = None
            if lazy(v, names):
                how = f'`{seg(fn, v)[:50]}`'
            elif isinstance(v, ast.Call):
                d = dotted(v.func)
                tgt = repo.resolve_name(fn.module, d) if d else None
                key = getattr(tgt, 'key', None)
                if key in lazy_funcs:
                    how = f'the result of {key}, which returns an iterator at {lazy_funcs[key]}'
            if how:
                bad.append(f'{fn.key} stores {how} at {fn.loc(n_)}')
    chk.ob(clause, 'E4-lazy-state', '+'.join(mods), 'no one-shot iterator is stored on an object',
           not bad, ('; '.join(sorted(set(bad))[:2]) + ': the first traversal exhausts it, the next use of the object '
                                     'sees nothing') if bad else f'{n} attribute store(s)', '')


def no_tolerance_shortcut(chk, repo, pid):
    """What is computed never hinges on `np.allclose` / `np.isclose` / `math.isclose` with their default *absolute*
    tolerance (1e-8, 1e-9): the properties quantify over data of any scale (amplitudes of 1e-9, wavelengths of 5e-7,
    OPDs of 1e-8 metres), for which such a test is true although the values differ.  A test that passes an explicit
    absolute tolerance states its scale and is not judged here."""
    clause = f'{pid}-t'
    mods = PROPERTY_MODULES[pid]
    chk.clause(clause, 'no test with a default absolute tolerance (allclose / isclose) decides what is computed', 1)
    bad, n = [], 0
    for f in repo.all_functions():
        if f.module.name not in mods:
            continue
        n += 1
        tol_names = set()

        def is_tol(node):
            if not isinstance(node, ast.Call):
                return False
            d = dotted(node.func) or ''
            if d.split('.')[-1] not in ('allclose', 'isclose'):
                return False
            kws = {k.arg for k in node.keywords}
            if 'atol' in kws or 'abs_tol' in kws or len(node.args) >= 4:
                return False
            return True
        tests = []
        for node in ast.walk(f.node):
            if isinstance(node, ast.Assign) and len(node.targets) == 1 and isinstance(node.targets[0], ast.Name) and \
                    any(is_tol(x) for x in ast.walk(node.value)):
                tol_names.add(node.targets[0].id)
            if isinstance(node, (ast.If, ast.IfExp, ast.While, ast.Assert)):
                tests.append(node.test)
            if isinstance(node, ast.comprehension):
                tests.extend(node.ifs)
            # a selection made element by element: np.where(test, a, b), x[test] = ..., x[test]
            if isinstance(node, ast.Call) and (dotted(node.func) or '').split('.')[-1] in ('where', 'select', 'putmask', 'place', 'copyto', 'compress', 'extract') \
                    and node.args:
                tests.extend(node.args[:2] if (dotted(node.func) or '').split('.')[-1] in ('putmask', 'place') else node.args[:1])
                tests.extend(k.value for k in node.keywords if k.arg in ('where', 'condition', 'mask'))
            if isinstance(node, ast.Subscript):
                tests.append(node.slice)
        for t in tests:
            hit = [x for x in ast.walk(t) if is_tol(x) or (isinstance(x, ast.Name) and x.id in tol_names)]
            if hit:
                bad.append((f, hit[0]))
    seen = set()
    for f, node in bad:
        k = (f.key, getattr(node, 'lineno', 0))
        if k in seen:
            continue
        seen.add(k)
        chk.ob(clause, 'T-tolerance', f.key, 'no default absolute tolerance in a test that selects what is computed', False,
               f'`{seg(f, node)[:80]}` decides a branch: with the default absolute tolerance values below 1e-8 count as equal, '
               f'whatever their unit or scale', f.loc(node))
    chk.ob(clause, 'T-tolerance', '+'.join(mods), 'no tolerance shortcut', not bad, f'{n} functions scanned', '')
    # rounding to a fixed number of decimals is the same thing said differently: an absolute grid of 1e-k in whatever unit
    # the data happen to be in (1e-9 is nothing for nanometre numbers and one nanometre for wavelengths in metres)
    badd = []
    for f in repo.all_functions():
        if f.module.name not in mods:
            continue
        for node in ast.walk(f.node):
            if isinstance(node, ast.Call) and (dotted(node.func) or '').split('.')[-1] in ('round', 'around', 'round_') and \
                    (dotted(node.func) or '').split('.')[0] in ('np', 'numpy', 'round'):
                dec = node.args[1] if len(node.args) > 1 else next((k.value for k in node.keywords if k.arg in ('decimals', 'ndigits')), None)
                if dec is not None and not (isinstance(dec, ast.Constant) and dec.value in (0, None)):
                    badd.append((f, node))
            elif isinstance(node, ast.Call) and isinstance(node.func, ast.Attribute) and node.func.attr == 'round' and \
                    (node.args or any(k.arg == 'decimals' for k in node.keywords)):
                dec = node.args[0] if node.args else next(k.value for k in node.keywords if k.arg == 'decimals')
                if not (isinstance(dec, ast.Constant) and dec.value in (0, None)):
                    badd.append((f, node))
    for f, node in badd:
        chk.ob(clause, 'T-tolerance', f.key, 'no rounding to a fixed number of decimals', False,
               f'`{seg(f, node)[:80]}` snaps values to an absolute grid: what survives depends on the unit and scale of the data',
               f.loc(node))
    # single / half precision named in the code: the properties are stated to rounding in double precision ("agrees with the
    # defining sum", "to rounding"), and a kernel, buffer or accumulator narrowed to 32 bits is 1e-7 away from that
    NARROW = {'float32', 'complex64', 'float16', 'single', 'csingle', 'half'}
    NARROW_CODES = {'f4', 'c8', 'f2', '<f4', '<c8', 'float32', 'complex64', 'float16'}
    # frozen exceptions (one reason each): the cosmic-ray tracer works on float32 ray coordinates by design upstream
    NARROW_OK = {'detector._cubeplane_ray_intersection', 'detector._process_cube_intersections'}
    # ... helpers introduced later that only those functions (or such helpers) call belong to the same tracer
    from ..interp import known_functions as _kfp
    from ..model import FuncInfo as _FI
    callers = {}
    for g in repo.all_functions():
        for node in ast.walk(g.node):
            if isinstance(node, ast.Call):
                d_ = dotted(node.func)
                t_ = repo.resolve_name(g.module, d_) if d_ and d_.split('.')[0] not in ('self', 'cls') else None
                if isinstance(t_, _FI):
                    callers.setdefault(t_.key, set()).add(g.key)
    NARROW_OK = set(NARROW_OK)
    # a tracer that was renamed / merged keeps its role: new private functions of the module called from the cosmic-ray code only
    roots = {'detector._cosmic_ray', 'detector._propagate_ray', 'detector.cosmic_rays'} | NARROW_OK
    for _ in range(4):
        for k_, cs in callers.items():
            if k_ not in _kfp() and k_ not in NARROW_OK and cs and cs <= (NARROW_OK | roots) and k_.startswith('detector._'):
                NARROW_OK.add(k_)
    badp = []
    for f in repo.all_functions():
        if f.module.name not in mods or f.key in NARROW_OK:
            continue
        dtype_strings = set()
        for node in ast.walk(f.node):
            if isinstance(node, ast.Call):
                for k in node.keywords:
                    if k.arg == 'dtype' and isinstance(k.value, ast.Constant):
                        dtype_strings.add(id(k.value))
                if isinstance(node.func, ast.Attribute) and node.func.attr in ('astype', 'view', 'dtype') and node.args \
                        and isinstance(node.args[0], ast.Constant):
                    dtype_strings.add(id(node.args[0]))
        for node in ast.walk(f.node):
            if (isinstance(node, ast.Attribute) and node.attr in NARROW and (dotted(node) or '').split('.')[0] in ('np', 'numpy')) or \
                    (isinstance(node, ast.Constant) and isinstance(node.value, str) and node.value in NARROW_CODES
                     and id(node) in dtype_strings):
                badp.append((f, node))
                break
    for f, node in badp:
        chk.ob(clause, 'T-precision', f.key, 'no computation narrowed to single precision', False,
               f'`{seg(f, node)[:60]}`: values that pass through a 32-bit type agree with the double-precision result to 1e-7 only',
               f.loc(node))
    # np.arange with a fractional step: the number of samples depends on rounding (stop - start)/step, so arrays built
    # from it are one sample longer for some sizes - shapes stop being a function of the arguments' shapes
    badr = []
    for f in repo.all_functions():
        if f.module.name not in mods:
            continue
        fractional = set()
        for node in ast.walk(f.node):
            if isinstance(node, ast.Assign) and len(node.targets) == 1 and isinstance(node.targets[0], ast.Name) and \
                    _fractional_expr(node.value, fractional):
                fractional.add(node.targets[0].id)
        for node in ast.walk(f.node):
            if isinstance(node, ast.Call) and (dotted(node.func) or '').split('.')[-1] == 'arange':
                step = node.args[2] if len(node.args) >= 3 else next((k.value for k in node.keywords if k.arg == 'step'), None)
                if step is not None and _fractional_expr(step, fractional):
                    badr.append((f, node))
    for f, node in badr:
        chk.ob(clause, 'T-tolerance', f.key, 'no np.arange with a fractional step', False,
               f'`{seg(f, node)[:90]}`: the length of a float-step arange is ceil((stop - start)/step) in floating point - one '
               f'sample more for some arguments', f.loc(node))


def _fractional_expr(node, names):
    """the expression is certainly not integer valued: it contains a true division, a fractional literal, or a name that was
    assigned such an expression in the same function"""
    for x in ast.walk(node):
        if isinstance(x, ast.BinOp) and isinstance(x.op, ast.Div):
            return True
        if isinstance(x, ast.Constant) and isinstance(x.value, float) and x.value != int(x.value):
            return True
        if isinstance(x, ast.Name) and x.id in names:
            return True
    return False


def final_attr_value(p, e):
    """What the attribute stored by event `e` holds at the end of path `p`: the stored value, with the in-place updates made
    through the attribute afterwards (`self._mask = m; self._mask[self._mask != 0] = 1`)."""
    v = e.data.get('value')
    try:
        key = nf.attr(e.target, e.data.get('attr')).single_atom()
    except Exception:
        return v
    hv = getattr(p.state, 'heap', {}).get(key)
    root = hv
    while isinstance(root, Poly) and root.single_atom() is not None and is_app(root.single_atom(), 'setitem'):
        root = root.single_atom()[2][0]
    return hv if (hv is not None and v is not None and root == v and hv != v) else v


def opaque_element(*values):
    """one of the values is (part of) an element of a sequence that was not resolved item by item: the product of two
    sequences, the items of a generator kept in a tuple ... indexed by the running position of a loop"""
    for v in values:
        if not isinstance(v, (Poly, Tup)):
            continue
        for a in nf.value_atoms(v):
            if a[0] == 'idx' and a[1][0] == 'app' and (a[1][1].startswith(('itertools.', 'call:')) or a[1][1] in ('zip', 'enumerate', 'tuple', 'list')) \
                    and isinstance(a[2], Poly) and any(x[0] == 'iter' for x in nf.value_atoms(a[2])):
                return True
    return False


class Remap:
    """Route the obligations of a shared rule into another property's clause
    (obligations of clauses that are not mapped are dropped)."""

    def __init__(self, chk, mapping):
        self._chk, self._map = chk, mapping

    def ob(self, clause, *a, **k):
        if clause in self._map:
            return self._chk.ob(self._map[clause], *a, **k)

    def undecided(self, clause, *a, **k):
        if clause in self._map:
            return self._chk.undecided(self._map[clause], *a, **k)

    def guard(self, clauses, construct, role='rule applicable'):
        cl = [clauses] if isinstance(clauses, str) else list(clauses)
        mapped = [self._map[c] for c in cl if c in self._map]
        return self._chk.guard(mapped or [next(iter(self._map.values()))], construct, role)

    def clause(self, *a, **k):
        pass

    def require(self, *a, **k):
        return self._chk.require(*a, **k)

    def __getattr__(self, name):
        return getattr(self._chk, name)


def flag_truth_rule(chk, repo, clause, funcs, flag):
    """A boolean option is tested for its truth, not for being the object True: `flag is True` / `flag == True` treat
    np.True_ (what a numpy comparison returns), 1 and other true values as false."""
    bad, n = [], 0
    for key in funcs:
        if not repo.has_func(key):
            continue
        f = repo.func(key)
        if flag not in f.param_names():
            continue
        for node in ast.walk(f.node):
            if isinstance(node, ast.Compare) and len(node.ops) == 1 and isinstance(node.left, ast.Name) and node.left.id == flag:
                n += 1
                r = node.comparators[0]
                if isinstance(node.ops[0], (ast.Is, ast.IsNot, ast.Eq, ast.NotEq)) and isinstance(r, ast.Constant) and isinstance(r.value, bool):
                    if isinstance(node.ops[0], (ast.Is, ast.IsNot)):
                        bad.append(f'{key}: `{f.module.segment(node)}` at {f.loc(node)}')
            elif isinstance(node, (ast.If, ast.IfExp)) and isinstance(node.test, ast.Name) and node.test.id == flag:
                n += 1
            elif isinstance(node, ast.UnaryOp) and isinstance(node.op, ast.Not) and isinstance(node.operand, ast.Name) and node.operand.id == flag:
                n += 1
    chk.ob(clause, 'T-truth', funcs[0] if funcs else flag, f'`{flag}` is tested for its truth value, never for identity with True/False',
           (not bad) if (n or bad) else None,
           ('; '.join(bad[:2]) + f': a true value that is not the object True (np.True_, 1) takes the other branch') if bad
           else f'{n} test(s) of `{flag}`', '')


def flag_identity_rule(chk, repo, clause, mods):
    """Options whose default is True / False are switches: every truthy value selects the branch (np.True_ is what a numpy
    comparison hands over, 1 what older callers pass).  `flag is True`, `flag is not False` ... send those the other way."""
    bad, n = [], 0
    for f in repo.all_functions():
        if f.module.name not in mods:
            continue
        a = f.node.args
        pos = a.posonlyargs + a.args
        flags = {x.arg for x, d in zip(pos[len(pos) - len(a.defaults):], a.defaults)
                 if isinstance(d, ast.Constant) and isinstance(d.value, bool)}
        flags |= {x.arg for x, d in zip(a.kwonlyargs, a.kw_defaults) if isinstance(d, ast.Constant) and isinstance(d.value, bool)}
        if not flags:
            continue
        rebound = {t.id for node in ast.walk(f.node) if isinstance(node, (ast.Assign, ast.AugAssign, ast.AnnAssign))
                   for t in ast.walk(node.targets[0] if isinstance(node, ast.Assign) else node.target)
                   if isinstance(t, ast.Name) and isinstance(t.ctx, ast.Store)}
        for node in ast.walk(f.node):
            if isinstance(node, ast.Compare) and len(node.ops) == 1:
                l, r = node.left, node.comparators[0]
                for x, y in ((l, r), (r, l)):
                    if isinstance(x, ast.Name) and x.id in flags - rebound and isinstance(y, ast.Constant) and isinstance(y.value, bool):
                        n += 1
                        if isinstance(node.ops[0], (ast.Is, ast.IsNot)):
                            bad.append(f'{f.key}: `{f.module.segment(node)}` at {f.loc(node)}')
            elif isinstance(node, ast.Name) and node.id in flags and isinstance(node.ctx, ast.Load):
                n += 1
    chk.ob(clause, 'T-truth', 'lentil.' + '/'.join(mods), 'switches (options defaulting to True / False) are tested for their truth value, never '
           'for identity with True / False', (not bad) if (n or bad) else None,
           ('; '.join(bad[:2]) + ': a true value that is not the object True (np.True_, 1) takes the other branch') if bad
           else f'{n} use(s) of switches', '')


def sequence_arithmetic_rule(chk, repo, clause, mods):
    """A parameter documented as array_like may be a tuple or a list: it enters arithmetic item by item or after
    `np.asarray`, never whole - `shape * pixelscale` raises for two tuples and *repeats* a list times an int.  Private helpers
    inherit the kind of a parameter from the documented caller that hands it over under the same name."""
    from ..effects import doc_param_kinds
    from ..model import FuncInfo
    arr_of = {}
    funcs = [f for f in repo.all_functions() if f.module.name in mods]
    for f in funcs:
        kinds = doc_param_kinds(f)
        arr_of[f.key] = {p_ for p_ in f.param_names() if kinds.get(p_) == 'array'}
    for _ in range(2):
        for f in funcs:
            for node in ast.walk(f.node):
                if not isinstance(node, ast.Call):
                    continue
                d = dotted(node.func)
                tgt = repo.resolve_name(f.module, d) if d and d.split('.')[0] not in ('self', 'cls') else None
                if not isinstance(tgt, FuncInfo) or tgt.key not in arr_of or (ast.get_docstring(tgt.node) or '').count(' : '):
                    continue
                names = tgt.param_names()
                for i, a in enumerate(node.args):
                    if isinstance(a, ast.Name) and a.id in arr_of[f.key] and i < len(names) and names[i] == a.id:
                        arr_of[tgt.key].add(a.id)
                for k in node.keywords:
                    if k.arg and isinstance(k.value, ast.Name) and k.value.id in arr_of[f.key] and k.arg == k.value.id:
                        arr_of[tgt.key].add(k.arg)
    bad, n = [], 0
    for f in funcs:
        arr = arr_of.get(f.key) or set()
        if not arr:
            continue
        rebound = {t.id for node in ast.walk(f.node) if isinstance(node, (ast.Assign, ast.AugAssign, ast.AnnAssign))
                   for t in ast.walk(node.targets[0] if isinstance(node, ast.Assign) else node.target)
                   if isinstance(t, ast.Name) and isinstance(t.ctx, ast.Store)}

        def whole(e):
            if isinstance(e, ast.Name) and e.id in arr - rebound:
                return e.id
            if isinstance(e, ast.Subscript) and isinstance(e.slice, ast.Slice) and isinstance(e.value, ast.Name) and e.value.id in arr - rebound:
                return e.value.id
            return None
        n += len(arr)
        for node in ast.walk(f.node):
            if isinstance(node, ast.BinOp) and isinstance(node.op, (ast.Mult, ast.Add, ast.Sub, ast.Div, ast.FloorDiv, ast.Pow)):
                l, r = whole(node.left), whole(node.right)
                other_seq = (l and r) or (l and isinstance(node.right, (ast.Tuple, ast.List, ast.Constant))) or \
                    (r and isinstance(node.left, (ast.Tuple, ast.List, ast.Constant)))
                if l and r and l == r:
                    continue            # x[1:] - x[:-1]: differences of one array with itself (it has been converted by then)
                if other_seq and isinstance(node.op, (ast.Mult, ast.Add)) or (l and r):
                    bad.append(f'{f.key}: `{f.module.segment(node)[:50]}` at {f.loc(node)}')
    chk.ob(clause, 'T-sequence', 'lentil.' + '/'.join(mods), 'array_like parameters enter arithmetic item by item or through np.asarray, never as whole sequences',
           (not bad) if n else None, ('; '.join(sorted(set(bad))[:2]) + ': tuples raise TypeError here, a list is repeated or concatenated') if bad
           else f'{n} array_like parameter(s)', '')


def array_truth_rule(chk, repo, clause, mods):
    """A parameter documented as array_like is never tested by its truth: `x if x else default`, `if not x`, `x or default`
    raise for an array of more than one element, and take the default for a legitimate 0 / [0, 0] / empty value.  (`is
    None` is the test for "not given".)"""
    from ..effects import doc_param_kinds
    bad, n = [], 0

    def truth_names(t):
        if isinstance(t, ast.Name):
            return [t]
        if isinstance(t, ast.UnaryOp) and isinstance(t.op, ast.Not):
            return truth_names(t.operand)
        if isinstance(t, ast.BoolOp):
            return [x for v in t.values for x in truth_names(v)]
        if isinstance(t, ast.Compare) and len(t.ops) == 1 and isinstance(t.ops[0], (ast.Lt, ast.LtE, ast.Gt, ast.GtE)):
            # `seed < 0` is an array of booleans for an array argument: its truth is as ambiguous as the array's own
            return [x for x in (t.left, t.comparators[0]) if isinstance(x, ast.Name)]
        return []
    for f in repo.all_functions():
        if f.module.name not in mods:
            continue
        kinds = doc_param_kinds(f)
        arr = {p_ for p_ in f.param_names() if kinds.get(p_) == 'array'}
        if not arr:
            continue
        n += len(arr)
        rebound = {t.id for node in ast.walk(f.node) if isinstance(node, (ast.Assign, ast.AugAssign, ast.AnnAssign))
                   for t in ast.walk(node.targets[0] if isinstance(node, ast.Assign) else node.target)
                   if isinstance(t, ast.Name) and isinstance(t.ctx, ast.Store)}
        for node in ast.walk(f.node):
            tests = []
            if isinstance(node, (ast.If, ast.IfExp, ast.While)):
                tests = truth_names(node.test)
            elif isinstance(node, ast.BoolOp):
                tests = [x for v in node.values[:-1] for x in truth_names(v)]
            for t in tests:
                if t.id in arr - rebound:
                    bad.append(f'{f.key}: `{t.id}` is tested by its truth value at {f.loc(node)}')
    chk.ob(clause, 'T-truth', 'lentil.' + '/'.join(mods), 'array_like parameters are never tested by their truth value',
           (not bad) if n else None,
           ('; '.join(sorted(set(bad))[:2]) + ': an array of two or more elements raises, and zero / [0, 0] counts as "not given"') if bad
           else f'{n} array_like parameter(s)', '')


def _literal(src):
    try:
        return ('lit', ast.literal_eval(src))
    except Exception:
        return ('src', src)


# crossed bare-name arguments that are harmless, one reason each
CROSSED_OK = {
    ('propagate._fft_shape', 'propagate._dft_alpha'): 'z and wavelength enter _dft_alpha as a product only (symmetry proved by C09-e)',
}


def crossed_arguments_rule(chk, repo, clause, mods):
    """Inside the package a call that passes the caller's variable `x` for a parameter called something else, while the
    callee also has a parameter `x`, has crossed two arguments (`cls(wavelength, pixelscale, focal_length, diameter)` against
    `__init__(self, wavelength, pixelscale, diameter, focal_length)`).  Resolved on the syntax tree: module functions,
    classes (their constructor) and `cls(...)` inside a class method."""
    from .. import bind
    from ..model import ClassInfo, FuncInfo
    bad, n = [], 0
    for f in repo.all_functions():
        if f.module.name not in mods:
            continue
        for node in ast.walk(f.node):
            if not isinstance(node, ast.Call):
                continue
            callee, ctor = None, False
            d = dotted(node.func)
            if isinstance(node.func, ast.Name) and node.func.id == 'cls' and f.cls is not None and f.is_classmethod:
                callee, ctor = f.cls.find_method('__init__'), True
            elif isinstance(node.func, ast.Attribute) and node.func.attr == '__init__' and isinstance(node.func.value, ast.Call) and \
                    isinstance(node.func.value.func, ast.Name) and node.func.value.func.id == 'super' and f.cls is not None:
                # super().__init__(...): the constructor of the next class up
                for b_ in f.cls.bases:
                    m_ = b_.find_method('__init__')
                    if m_ is not None:
                        callee, ctor = m_, True
                        break
            elif d is not None and d.split('.')[0] not in ('self', 'cls'):
                tgt = repo.resolve_name(f.module, d)
                if isinstance(tgt, FuncInfo):
                    callee = tgt
                elif isinstance(tgt, ClassInfo):
                    callee, ctor = tgt.find_method('__init__'), True
            if callee is None or any(isinstance(a, ast.Starred) for a in node.args):
                continue
            try:
                site = bind._site(repo, f, node, callee, ctor)
            except Exception:
                continue
            if ctor and site.binding and callee.params() and callee.params()[0][0] in site.binding and \
                    not isinstance(node.func, ast.Attribute):
                pass
            n += 1
            # crossed: `x` is passed for parameter p while the parameter called x receives another of the callee's names
            pn = set(callee.param_names())
            mm = [(p_, a) for p_, a in bind.b3_mismatches(site)
                  if isinstance(site.binding.get(a), ast.Name) and site.binding[a].id != a and site.binding[a].id in pn]
            # ... likewise for attributes of one object handed over by position: `obj.focal_length` for parameter `diameter`
            # while `focal_length` is filled from something that is not called that
            attr_of = {p_: v_.attr for p_, v_ in site.binding.items() if isinstance(v_, ast.Attribute) and p_ not in (node.keywords and
                       {k.arg for k in node.keywords} or set())}
            for p_, at in attr_of.items():
                if at != p_ and at in pn and at.lstrip('_') != p_.lstrip('_'):
                    other = site.binding.get(at)
                    o_name = other.attr if isinstance(other, ast.Attribute) else (other.id if isinstance(other, ast.Name) else None)
                    if other is None or (o_name is not None and o_name.lstrip('_') != at.lstrip('_')):
                        mm.append((p_, at))
            if mm and all(a_ in pn and b_ in pn for a_, b_ in mm):
                # arguments exchanged: harmless exactly when the callee is symmetric in the two parameters
                try:
                    _, cps, _ = analyse(repo, callee)
                    rs = [q.ret for q in returns(cps)]
                    keep = []
                    for a_, b_ in mm:
                        swap = {('sym', a_): nf.sym(b_), ('sym', b_): nf.sym(a_)}
                        if not (rs and all(r is not None and nf.subst_value(r, swap) == r for r in rs)):
                            keep.append((a_, b_))
                    mm = keep
                except Exception:
                    pass
            if mm and (f.key, callee.key) not in CROSSED_OK:
                bad.append(f'{f.key} -> {callee.key} at {f.loc(node)}: ' + ', '.join(f'`{a}` passed for `{p_}`' for p_, a in mm))
    # running minimum / maximum kept per variable: `cmax = max(cmin, x)` takes the extreme over the wrong pair
    acc_bad, n_acc = [], 0
    for f in repo.all_functions():
        if f.module.name not in mods:
            continue
        for loop in (x for x in ast.walk(f.node) if isinstance(x, (ast.For, ast.While))):
            pairs = []
            for st_ in ast.walk(loop):
                if not isinstance(st_, ast.Assign) or len(st_.targets) != 1:
                    continue
                tg, vl = st_.targets[0], st_.value
                items = list(zip(tg.elts, vl.elts)) if isinstance(tg, ast.Tuple) and isinstance(vl, ast.Tuple) and len(tg.elts) == len(vl.elts) \
                    else [(tg, vl)]
                for t_, v_ in items:
                    if isinstance(t_, ast.Name) and isinstance(v_, ast.Call) and isinstance(v_.func, ast.Name) and v_.func.id in ('min', 'max') \
                            and len(v_.args) == 2 and all(isinstance(a_, ast.Name) for a_ in v_.args) and not v_.keywords:
                        pairs.append((t_.id, v_.func.id, [a_.id for a_ in v_.args], st_))
            running = {t_ for t_, _fn, args_, _ in pairs if t_ in args_}
            for t_, fn_, args_, st_ in pairs:
                n_acc += 1
                if t_ not in args_ and any(a_ in running for a_ in args_):
                    acc_bad.append(f'{f.key} at {f.loc(st_)}: `{t_} = {fn_}({", ".join(args_)})` combines the running value of '
                                   f'`{[a_ for a_ in args_ if a_ in running][0]}`, not of `{t_}`')
    if n_acc:
        chk.ob(clause, 'B3-binding', 'lentil.' + '/'.join(mods), 'a running minimum / maximum is updated from its own previous value',
               not acc_bad, '; '.join(acc_bad[:2]), '')
    # one method name, several classes, different positional orders (Tilt.shift(xs, ys, z, wavelength) against
    # DispersiveTilt.shift(wavelength, xs, ys, z)): a call on "whichever of them" names its arguments
    by_name = {}
    for g in repo.all_functions():
        if g.cls is not None and not g.name.startswith('__') and not g.is_property and not g.is_setter:
            ps_ = [x for x in g.param_names() if x not in ('self', 'cls')]
            by_name.setdefault(g.name, {})[g.cls.key] = ps_
    divergent = {nm_: v_ for nm_, v_ in by_name.items() if len(v_) > 1 and
                 any(a_[:k_] != b_[:k_] for a_ in v_.values() for b_ in v_.values()
                     for k_ in (min(len(a_), len(b_)),) if set(a_[:k_]) & set(b_[:k_]) and a_ != b_)}
    poly_bad, n_poly = [], 0
    for f in repo.all_functions():
        if f.module.name not in mods:
            continue
        for node in ast.walk(f.node):
            if isinstance(node, ast.Call) and isinstance(node.func, ast.Attribute) and node.func.attr in divergent:
                recv = node.func.value
                if isinstance(recv, ast.Name) and recv.id in ('self', 'cls') or \
                        isinstance(recv, ast.Call) and isinstance(recv.func, ast.Name) and recv.func.id == 'super':
                    continue
                if isinstance(recv, ast.Name) and recv.id[:1].isupper():
                    continue        # Class.method(...): one particular implementation
                n_poly += 1
                if node.args and not any(isinstance(a_, ast.Starred) for a_ in node.args):
                    orders = sorted({tuple(v_[:len(node.args)]) for v_ in divergent[node.func.attr].values()})
                    if len(orders) > 1:
                        poly_bad.append(f'{f.key} at {f.loc(node)}: `{ast.unparse(node)[:50]}` passes {len(node.args)} argument(s) by position; '
                                        f'the implementations of `{node.func.attr}` take them as {" / ".join(str(list(o)) for o in orders)}')
    if n_poly:
        chk.ob(clause, 'B3-binding', 'lentil.' + '/'.join(mods), 'a call on any of several sibling implementations names its arguments',
               not poly_bad, '; '.join(poly_bad[:2]), '')
    chk.ob(clause, 'B3-binding', 'lentil.' + '/'.join(mods), 'internal calls pass like-named variables for like-named parameters',
           (not bad) if n else None, '; '.join(sorted(set(bad))[:3]) or f'{n} resolved call site(s)', '')


def public_signature_rule(chk, repo, pid, mods):
    """The calling convention of the public functions is part of what "for all inputs" quantifies over: a parameter
    inserted in front of existing ones, two parameters exchanged, or a default changed makes existing calls mean
    something else (`zernike_remove(opd, mask, modes, rho, theta)` binding rho to a new flag).  Compared with the
    conventions pinned in specs/known_functions.json: every pinned positional parameter keeps its position and name,
    pinned defaults keep their value, keyword-only / trailing additions are free."""
    import json
    import os
    from ..report import VERIF
    clause = f'{pid}-s'
    pinned = json.load(open(os.path.join(VERIF, 'specs', 'known_functions.json'))).get('signatures', {})
    chk.clause(clause, 'public calling conventions are the pinned ones (positional order, names, defaults) in ' + ', '.join(mods), 1)
    bad, n = [], 0
    for key, old in sorted(pinned.items()):
        if key.split('.')[0] not in mods or not repo.has_func(key):
            continue
        f = repo.func(key)
        n += 1
        a = f.node.args
        pos = a.posonlyargs + a.args
        defaults = [None] * (len(pos) - len(a.defaults)) + list(a.defaults)
        new_pos = [(p_.arg, ast.unparse(d) if d is not None else None) for p_, d in zip(pos, defaults)]
        new_kw = {p_.arg: (ast.unparse(d) if d is not None else None) for p_, d in zip(a.kwonlyargs, a.kw_defaults)}
        old_pos = [(nm, d) for nm, kind, d in old if kind == 'pos']
        has_varkw = a.kwarg is not None
        for i, (nm, d) in enumerate(old_pos):
            if i < len(new_pos) and new_pos[i][0] == nm:
                nd = new_pos[i][1]
            elif nm in new_kw or nm in [x for x, _ in new_pos]:
                where = 'keyword-only' if nm in new_kw else f'position {[x for x, _ in new_pos].index(nm)}'
                bad.append(f'{key}: parameter `{nm}` moved from position {i} to {where}'
                           + (f' (position {i} is now `{new_pos[i][0]}`)' if i < len(new_pos) else ''))
                continue
            elif has_varkw or any(k == 'varkw' for _, k, _ in old):
                continue            # swallowed by / taken out of **kwargs: still accepted by keyword
            else:
                bad.append(f'{key}: parameter `{nm}` is gone')
                continue
            if d is not None and nd is None:
                bad.append(f'{key}: `{nm}` lost its default {d}')
            elif d is not None and nd is not None and _literal(d) != _literal(nd) and _literal(d)[0] == 'lit' and _literal(nd)[0] == 'lit':
                bad.append(f'{key}: default of `{nm}` changed from {d} to {nd}')
        for nm, d in new_pos[len(old_pos):]:
            if d is None and nm not in [x for x, _ in old_pos]:
                bad.append(f'{key}: new parameter `{nm}` has no default')
    crossed_arguments_rule(chk, repo, clause, mods)
    flag_identity_rule(chk, repo, clause, mods)
    array_truth_rule(chk, repo, clause, mods)
    sequence_arithmetic_rule(chk, repo, clause, mods)
    chk.ob(clause, 'B-signature', 'lentil.' + '/'.join(mods), 'pinned public calling conventions', (not bad) if n else None,
           '; '.join(bad[:3]) + (': calls written against the documented convention bind other parameters / get other values'
                                 if bad else f'{n} public function(s) keep their calling convention'), '')
