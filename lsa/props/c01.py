"""C01 - matrix-triple-product DFT (lentil/fourier.py)."""
import ast
from fractions import Fraction

from .. import nf
from ..nf import Poly, Tup, Const, NONE, TRUE, FALSE
from ..model import AnalysisError
from ..rules import (run as analyse, returns, pair, S, C, fmt, is_app, alias_root, seg, kwarg, conds_str)
from ..npmodel import nf_abs
from . import common

INL = ['fourier._dft2_matrices', 'fourier._dft2_coords']


def fourier_inline(repo):
    """Every helper of fourier.py is inlined (so that kernels built through new helpers are still understood)."""
    return [f.key for f in repo.all_functions() if f.module.name == 'fourier' and f.name not in ('dft2', 'idft2')]


def flatten_dot(t):
    a = t.single_atom() if isinstance(t, Poly) else None
    if a is not None and is_app(a, 'dot'):
        return flatten_dot(a[2][0]) + flatten_dot(a[2][1])
    return [t]


def kernel_form(K):
    """exp(c * outer(A, B)) possibly transposed -> (c, rowvec, colvec)."""
    transposed = False
    a = K.single_atom() if isinstance(K, Poly) else None
    while a is not None and (is_app(a, 'T') or is_app(a, 'transpose') or is_app(a, 'm:transpose')):
        transposed = not transposed
        K = a[2][0]
        a = K.single_atom()
    if a is None or not is_app(a, 'exp'):
        return None
    arg = a[2][0]
    if not isinstance(arg, Poly) or len(arg.terms) != 1:
        return None
    m, c = arg.terms[0]
    outers = [(at, e) for at, e in m if is_app(at, 'outer')]
    if len(outers) != 1 or outers[0][1] != 1:
        return None
    o = outers[0][0]
    coeff = arg / Poly.atom(o)
    A, B = o[2][0], o[2][1]
    if transposed:
        A, B = B, A
    return coeff, A, B


def split_gain(ret):
    """ret = gain * dot(...) -> (gain, dot atom)."""
    if not isinstance(ret, Poly) or len(ret.terms) != 1:
        return None
    m, c = ret.terms[0]
    dots = [(a, e) for a, e in m if is_app(a, 'dot')]
    if len(dots) != 1 or dots[0][1] != 1:
        return None
    d = Poly.atom(dots[0][0])
    return ret / d, d


def coord(n, sign, delta):
    """arange(n) - floor(n/2) +/- delta"""
    return nf.app('arange', n) - nf.floor(n / 2) + sign * delta


def dft2_gain(repo, unitary):
    """Gain of dft2 (factor outside the triple product) under a flag value."""
    cfg = {'unitary': unitary, 'shape': pair('shape'), 'out': NONE}
    f, paths, _ = analyse(repo, 'fourier.dft2', inline=fourier_inline(repo), config=cfg)
    gains = set()
    for p in returns(paths):
        sg = split_gain(p.ret)
        if sg is None:
            return None
        gains.add(sg[0])
    return gains.pop() if len(gains) == 1 else None


def run_check(chk, repo, tier):
    chk.clause('C01-a', 'kernel phase pairs (alpha, offset, shift) of the same axis on each side', 4)
    chk.clause('C01-c', 'triple product contracts rows of f with the row kernel and columns with the column kernel', 1)
    chk.clause('C01-d', 'origin of all four coordinate vectors at floor(n/2); integer-counted ranges', 5)
    chk.clause('C01-e', 'kernel constant is -2*pi*i in both matrices', 2)
    chk.clause('C01-g', 'gain is sqrt|alpha_r*alpha_c| exactly when unitary, 1 otherwise', 2)
    chk.clause('C01-h', 'inverse: total gain 1/N when not unitary, sqrt|alpha_r*alpha_c| when unitary', 2)
    chk.clause('C01-i', 'out= finality: after the buffer is written every later update is in place and it is returned', 2)
    chk.clause('C01-j', 'memoised coordinate vectors are never written and never escape', 1)
    chk.clause('C01-s', 'no operation in fourier.py mixes the two axes of one array (shape inference)', 1)
    chk.not_decided += ['element-wise equality with the defining sum to rounding', 'Parseval numerically']
    # the transforms read their input and write `out` only: an input conjugated in place "for the duration of the call" is
    # the output when the caller passes out=F (the documented in-place pattern), and then the restore undoes the result
    from .common import operands_untouched
    operands_untouched(chk, repo, 'C01-i', ['fourier.dft2', 'fourier.idft2'], allow=[('fourier.dft2', 'out'), ('fourier.idft2', 'out')])

    fdft = repo.func('fourier.dft2')
    alpha, shift, offset = pair('alpha'), pair('shift'), pair('offset')
    a0, a1 = alpha.items
    # the coordinate vectors have exactly m, n, M, N entries: np.arange counts ceil(stop - start) in floating point, so a
    # range whose end points carry the (fractional) shift or sampling returns one entry more for some arguments
    _, cpaths, _ = analyse(repo, fdft, inline=fourier_inline(repo), config={'unitary': TRUE, 'shape': pair('shape')})
    real_valued = set(nf.value_atoms(shift)) | set(nf.value_atoms(alpha)) | {('sym', 'shift'), ('sym', 'alpha')}
    bad_ar, n_ar = [], 0
    for p in returns(cpaths):
        for e in p.events:
            if e.kind == 'call' and e.data.get('callee') in ('ext:numpy.arange', 'ext:numpy.linspace'):
                n_ar += 1
                args = list(e.data.get('args', []))[:2] if e.data.get('callee').endswith('arange') else []
                if any(isinstance(x, Poly) and real_valued & nf.value_atoms(x) for x in args):
                    bad_ar.append(f'arange({", ".join(fmt(x)[:50] for x in e.data.get("args", []))}) at {e.loc()}')
    chk.ob('C01-d', 'N-count', 'fourier._dft2_coords', 'coordinate vectors are counted with integer bounds (shift and sampling are added afterwards)',
           (not bad_ar) if n_ar else None,
           ('; '.join(sorted(set(bad_ar))[:2]) + ': the number of output samples becomes ceil(stop - start) of two rounded real numbers - '
            'dft2 returns M+1 rows for some shifts') if bad_ar else f'{n_ar} range(s) with integer bounds', fdft.loc())
    fs = nf.attr(S('f'), 'shape')
    m_, n_ = nf.index(fs, C(0)), nf.index(fs, C(1))
    for shape_cfg, label in ((pair('shape'), 'shape given'), (NONE, 'shape=None')):
        M_, N_ = (shape_cfg.items if shape_cfg is not NONE else (m_, n_))
        for unitary, ulabel in ((TRUE, 'unitary=True'), (FALSE, 'unitary=False')):
            cfg = {'unitary': unitary, 'shape': shape_cfg}
            f, paths, _ = analyse(repo, fdft, inline=fourier_inline(repo), config=cfg)
            rets = returns(paths)
            chk.require(rets, 'fourier.dft2 has no returning path')
            for p in rets:
                tag = f'{label}, {ulabel}, {conds_str(p)}'
                sg = split_gain(p.ret)
                if sg is None:
                    raise AnalysisError(f'fourier.dft2: result is not gain*dot(...) on path [{tag}]: {fmt(p.ret)}')
                gain, d = sg
                want = (nf_abs(a0 * a1)).pow(Fraction(1, 2)) if unitary is TRUE else nf.ONE
                chk.ob('C01-g', 'N-gain', 'fourier.dft2', f'gain [{label}, {ulabel}]', gain == want,
                       f'gain outside the triple product is {fmt(gain)}, expected {fmt(want)}',
                       f.loc(p.node), path=conds_str(p))
                if unitary is FALSE:
                    continue
                chain = flatten_dot(d)
                ok_c = len(chain) == 3 and nf.strip_apps(chain[1]) == S('f')
                chk.ob('C01-c', 'N-structure', 'fourier.dft2', f'triple product [{label}]', ok_c,
                       f'expected E1 . f . E2, got {len(chain)} factors with middle {fmt(chain[1]) if len(chain) > 1 else "-"}',
                       f.loc(p.node))
                if not ok_c:
                    continue
                # element-wise semantics of the two kernel matrices: E1[u, x] and E2[y, v]
                from ..elem import ElemEval, Unsupported
                from ..shapes import Shapes, declare_2d
                ev = ElemEval(Shapes(declare_2d('f'), assume_scalar=True))
                u, x, y, v = S('@u'), S('@x'), S('@y'), S('@v')
                try:
                    e1 = ev.at(chain[0], (u, x))
                    e2 = ev.at(chain[2], (y, v))
                except Unsupported as ex:
                    raise AnalysisError(f'fourier.dft2: kernel not understood element-wise: {ex}')
                kconst = -2 * nf.I * nf.PI
                specs = [('row', e1, a0, (u - nf.floor(M_ / 2) - shift.items[0]), (x - nf.floor(m_ / 2) + offset.items[0]), u, x,
                          M_, m_),
                         ('col', e2, a1, (v - nf.floor(N_ / 2) - shift.items[1]), (y - nf.floor(n_ / 2) + offset.items[1]), v, y,
                          N_, n_)]
                for axis, el, al, out_c, in_c, so, si, n_out, n_in in specs:
                    ea = el.single_atom()
                    if ea is not None and is_app(ea, 'pow') and len(ea[2]) == 2 and isinstance(ea[2][0], Poly) \
                            and ea[2][0].single_atom() is not None and is_app(ea[2][0].single_atom(), 'exp') \
                            and any(a_ == nf.I.single_atom() for a_ in nf.value_atoms(ea[2][0].single_atom()[2][0])):
                        # W**(x*u) with W = exp(-2 pi i alpha): a complex base raised to a real power goes through the
                        # principal logarithm, i.e. alpha is taken modulo 1 into (-1/2, 1/2] - equal to exp(-2 pi i alpha x u)
                        # only where x*u is an integer, which a fractional shift (or offset) rules out
                        expo = ea[2][1]
                        fractional = [a_ for a_ in nf.value_atoms(expo) if a_ in nf.value_atoms(shift) or a_ in nf.value_atoms(offset)
                                      or a_ in nf.value_atoms(alpha)]
                        chk.ob('C01-e', 'N-const', 'fourier._dft2_matrices', f'{axis} kernel is the exponential of the phase [{label}]',
                               False if fractional else None,
                               f'kernel element {fmt(el)[:120]}: a power of the complex twiddle factor takes the principal branch of its '
                               'logarithm; for |alpha| > 1/2 and a fractional shift the element differs from exp(-2 pi i alpha x u)',
                               f.loc(p.node))
                        continue
                    if ea is None or not is_app(ea, 'exp'):
                        raise AnalysisError(f'fourier.dft2: {axis} kernel element is not exp(...): {fmt(el)[:200]}')
                    phase = ea[2][0]
                    want = kconst * al * out_c * in_c
                    diff = phase - want
                    if diff.is_zero():
                        for cl, rule, role in (('C01-e', 'N-const', f'{axis} kernel constant [{label}]'),
                                               ('C01-a', 'N-pairing', f'{axis} kernel alpha [{label}]'),
                                               ('C01-d', 'N-origin', f'{axis} kernel coordinate origins [{label}]'),
                                               ('C01-a', 'N-pairing', f'{axis} kernel offset/shift pairing [{label}]')):
                            chk.ob(cl, rule, 'fourier._dft2_matrices', role, True,
                                   f'phase[{fmt(so)},{fmt(si)}] = {fmt(phase)[:160]}', f.loc(p.node))
                        continue
                    # classify the discrepancy: phase/(-2 pi i alpha) must be (u + b)(x + c)
                    soa, sia = so.single_atom(), si.single_atom()
                    coef = {(1, 1): nf.ZERO, (1, 0): nf.ZERO, (0, 1): nf.ZERO, (0, 0): nf.ZERO}
                    other = False
                    for mono, c in phase.terms:
                        d = dict(mono)
                        key = (d.get(soa, 0), d.get(sia, 0))
                        if key not in coef:
                            other = True
                            continue
                        rest = tuple((a_, e_) for a_, e_ in mono if a_ not in (soa, sia))
                        coef[key] = coef[key] + Poly(((rest, c),))
                    A = coef[(1, 1)]
                    const_ok = (not other) and bool(A.terms) and A / al == kconst
                    alpha_ok = (not other) and A == kconst * al
                    chk.ob('C01-e', 'N-const', 'fourier._dft2_matrices', f'{axis} kernel constant [{label}]', bool(const_ok),
                           f'coefficient of the bilinear term is {fmt(A)}; expected -2*pi*1j*alpha', f.loc(p.node))
                    chk.ob('C01-a', 'N-pairing', 'fourier._dft2_matrices', f'{axis} kernel alpha [{label}]', bool(alpha_ok),
                           f'coefficient of the bilinear term is {fmt(A)}; expected {fmt(kconst * al)}', f.loc(p.node))
                    if alpha_ok:
                        bo = coef[(0, 1)] / A        # added to the output coordinate
                        ci = coef[(1, 0)] / A        # added to the input coordinate
                        want_bo = out_c - so
                        want_ci = in_c - si
                        fl = lambda t: {z for z in t.atoms(deep=False) if is_app(z, 'floor') or is_app(z, 'ceil')}
                        origin_ok = fl(bo) == fl(want_bo) and fl(ci) == fl(want_ci) and \
                            all(dict(bo.terms).get(m_) == c_ for m_, c_ in want_bo.terms if fl(Poly(((m_, c_),)))) and \
                            all(dict(ci.terms).get(m_) == c_ for m_, c_ in want_ci.terms if fl(Poly(((m_, c_),))))
                        pair_ok = (bo == want_bo and ci == want_ci) or not origin_ok
                        cross_ok = coef[(0, 0)] == A * bo * ci
                    else:
                        origin_ok = pair_ok = cross_ok = True     # the coefficient finding explains the difference
                    chk.ob('C01-d', 'N-origin', 'fourier._dft2_coords', f'{axis} kernel coordinate origins [{label}]',
                           bool(origin_ok), f'coordinates are (u {fmt(bo) if alpha_ok else "?"}) and (x {fmt(ci) if alpha_ok else "?"}); '
                           f'expected origins floor(N/2), floor(n/2)', f.loc(p.node))
                    chk.ob('C01-a', 'N-pairing', 'fourier._dft2_matrices', f'{axis} kernel offset/shift pairing [{label}]',
                           bool(pair_ok and cross_ok),
                           f'phase[{fmt(so)},{fmt(si)}] = -2*pi*1j*alpha*(u + b)(x + c) needs b = {fmt(out_c - so)}, c = {fmt(in_c - si)} '
                           f'and the constant term b*c; found b = {fmt(bo) if alpha_ok else "?"}, c = {fmt(ci) if alpha_ok else "?"}, '
                           f'constant term {"ok" if cross_ok else "not b*c (the shift x offset cross term is wrong)"}',
                           f.loc(p.node))

    # ---------------------------------------------------------------- C01-h
    fid = repo.func('fourier.idft2')
    for unitary, ulabel in ((TRUE, 'unitary=True'), (FALSE, 'unitary=False')):
        f, paths, _ = analyse(repo, fid, config={'unitary': unitary})
        for p in returns(paths):
            calls = [e for e in p.calls('fourier.dft2')]
            if len(calls) != 1:
                _idft2_by_value(chk, repo, fid, unitary, ulabel, a0, a1)
                break
            passed = calls[0].bound.get('unitary')
            if passed not in (TRUE, FALSE):
                raise AnalysisError(f'idft2 passes a non-constant unitary flag {fmt(passed)} under config {ulabel}')
            dg = dft2_gain(repo, passed)
            if dg is None:
                raise AnalysisError('cannot determine the gain of dft2')
            res = calls[0].result
            ret = p.ret
            a = ret.single_atom() if isinstance(ret, Poly) and len(ret.terms) == 1 else None
            # ret = post * conj(call)
            conj_atoms = [x for x in ret.atoms(deep=False) if is_app(x, 'conj')] if isinstance(ret, Poly) else []
            ok_form = isinstance(ret, Poly) and len(ret.terms) == 1 and len(conj_atoms) == 1 \
                and conj_atoms[0][2][0] == res
            if not ok_form and isinstance(ret, Poly) and not conj_atoms and res.single_atom() in nf.value_atoms(ret):
                # the forward transform of conj(F) is handed back without the closing conjugation
                chk.ob('C01-h', 'N-gain', 'fourier.idft2', f'inverse = conj(dft2(conj(F))) [{ulabel}, {conds_str(p)[:60]}]', False,
                       f'returns {fmt(ret)[:120]}: the result of dft2(conj(F)) is not conjugated back', f.loc(p.node))
                continue
            if not ok_form:
                raise AnalysisError(f'idft2 result is not post*conj(dft2(conj(F))): {fmt(ret)}')
            post = ret / Poly.atom(conj_atoms[0])
            total = post * dg
            Fs = nf.attr(S('F'), 'shape')
            Ns = [nf.attr(S('F'), 'size'), nf.index(Fs, C(0)) * nf.index(Fs, C(1))]
            if unitary is TRUE:
                want = [(nf_abs(a0 * a1)).pow(Fraction(1, 2))]
            else:
                want = [n.pow(-1) for n in Ns]
            chk.ob('C01-h', 'N-gain', 'fourier.idft2', f'inverse gain [{ulabel}]', total in want,
                   f'delegate gain {fmt(dg)} (dft2 called with unitary={passed!r}) times post-factor {fmt(post)} '
                   f'= {fmt(total)}; expected {fmt(want[0])}', f.loc(p.node))

    # ---------------------------------------------------------------- C01-i
    for key in ('fourier.dft2', 'fourier.idft2'):
        common.out_finality(chk, repo, key, 'C01-i')

    common.shape_scan(chk, repo, 'C01-s', ['fourier'])
    # ---------------------------------------------------------------- C01-j
    common.cache_untouched(chk, repo, 'C01-j', modules=['fourier'])


def _idft2_by_value(chk, repo, fid, unitary, ulabel, a0, a1):
    """idft2 does not go through the public dft2 (exactly once): evaluate it with dft2 and its helpers inlined and read the
    gain off the value: result = post * conj(g * E1.conj(F).E2)"""
    f, paths, _ = analyse(repo, fid, config={'unitary': unitary}, inline=['fourier.dft2'])
    Fs = nf.attr(S('F'), 'shape')
    Ns = [nf.attr(S('F'), 'size'), nf.index(Fs, C(0)) * nf.index(Fs, C(1))]
    want = [(nf_abs(a0 * a1)).pow(Fraction(1, 2))] if unitary is TRUE else [n.pow(-1) for n in Ns]
    cF = nf.app('conj', S('F')).single_atom()
    for p in returns(paths):
        ret = p.ret
        conj_atoms = [x for x in ret.atoms(deep=False) if is_app(x, 'conj')] if isinstance(ret, Poly) else []
        verdict, det = None, f'result is not post*conj(g*E1.conj(F).E2): {fmt(ret)[:160]}'
        if isinstance(ret, Poly) and len(ret.terms) == 1 and len(conj_atoms) == 1 and isinstance(conj_atoms[0][2][0], Poly):
            inner = conj_atoms[0][2][0]
            dots = [x for x in inner.atoms(deep=False) if is_app(x, ('dot', 'matmul', 'einsum'))]
            if len(inner.terms) == 1 and len(dots) == 1 and cF in nf.value_atoms(Poly.atom(dots[0])):
                post = ret / Poly.atom(conj_atoms[0])
                g = inner / Poly.atom(dots[0])
                real = not any(x == ('I',) or x[0] == 'I' for x in nf.value_atoms(g))
                total = post * g
                verdict = (total in want) if real else None
                det = f'gain inside the conjugate {fmt(g)} times post-factor {fmt(post)} = {fmt(total)}; expected {fmt(want[0])}'
        chk.ob('C01-h', 'N-gain', 'fourier.idft2', f'inverse gain [{ulabel}, {conds_str(p)[:60]}]', verdict, det, f.loc(p.node))


SECTIONED = ('run_check',)


def run(chk, repo, tier):   # noqa: F811  (entry point; shadows rules.run deliberately)
    from .common import no_hidden_state
    no_hidden_state(chk, repo, 'C01')
    run_check(chk, repo, tier)
