"""C11 - Zernike modes are the Noll-ordered orthonormal polynomials (structural part)."""
from fractions import Fraction

from .. import nf
from ..nf import Poly, Tup, Const, NONE, TRUE, FALSE
from ..model import AnalysisError, dotted
from ..rules import run as analyse, returns, fmt, is_app, S, C, has_factor, conds_str

HALF = lambda x: nf.floor(x / 2)


def is_mask(a):
    """the mask parameter, coerced to bool or not"""
    if a == ('sym', 'mask'):
        return True
    return is_app(a, 'cast') and a[2][0] == S('mask')


def cond_key(p, drop=()):
    return frozenset((nf.vkey(c), pol) for c, pol, _ in p.conds if fmt(c) not in drop)


def _new_private(repo, key):
    from ..model import _known_spec
    nm = key.rsplit('.', 1)[-1]
    return repo.has_func(key) and nm.startswith('_') and not nm.startswith('__') and key not in set(_known_spec().get('functions', []))


def _bare_where(repo, key, nm='mask', depth=0):
    """Where in function `key` its parameter `nm` (the mask) is used other than through its boolean support; '' if nowhere.
    Handing it on to a function of the module that coerces it itself is not a use; a helper written after the rules
    is looked into for the parameter that receives it."""
    ff, pp, _ = analyse(repo, key)
    for p in pp:
        vals = [p.ret] if p.status == 'return' else []
        for e in p.events:
            callee = str(e.data.get('callee', ''))
            if e.kind == 'call' and not callee.startswith('ext:'):
                for k_, v in (e.data.get('bound') or {}).items():
                    if v == S(nm) and k_ == 'mask':
                        continue
                    if v == S(nm) and depth < 3 and _new_private(repo, callee) and not _bare_where(repo, callee, k_, depth + 1):
                        continue
                    vals.append(v)
            elif e.kind == 'call' and callee not in ('ext:numpy.asarray', 'ext:numpy.array', 'ext:numpy.asanyarray',
                                                     'ext:numpy.ascontiguousarray', 'ext:numpy.shape', 'ext:numpy.ndim',
                                                     'ext:functools.partial'):      # partial(f, mask, ..): handed on to f
                vals += [a_ for a_ in (e.data.get('args') or []) if a_ is not None]
                vals += [a_ for a_ in (e.data.get('kwargs') or {}).values() if a_ is not None]
        for c, _, _ in p.conds:
            vals.append(c)
        for lp in getattr(p.state, 'loops', []) or []:
            # what an accumulation starts from is part of the result
            vals += [v for v in (lp.get('pre') or {}).values() if isinstance(v, (Poly, Tup))]
        for v in vals:
            if v is not None and _bare_use(v, nm, repo, depth):
                return fmt(v)[:120]
    return ''


def bool_coercion_rule(chk, repo, clause='C11-b'):
    """the mask is only used through its boolean support in zernike / zernike_coordinates (C11-b; reused by C12)"""
    for key in ('zernike.zernike', 'zernike.zernike_coordinates', 'zernike.zernike_fit', 'zernike.zernike_remove',
                'zernike.zernike_basis', 'zernike.zernike_compose'):
        if not repo.has_func(key) or 'mask' not in repo.func(key).param_names():
            continue
        where = _bare_where(repo, key)
        chk.ob(clause, 'D-dominance', key, 'mask only used through its boolean support', not where,
               f'un-coerced use of `mask`: {where}' if where else 'np.asarray(mask, dtype=bool) precedes every use', repo.func(key).loc())


def run(chk, repo, tier):
    from .common import no_hidden_state
    no_hidden_state(chk, repo, 'C11')
    chk.clause('C11-o', 'evaluating a mode leaves its arguments (mask, rho, theta) untouched: the same coordinates may be reused for another mask', 5)
    from .common import operands_untouched
    operands_untouched(chk, repo, 'C11-o', ['zernike.zernike', 'zernike.zernike_compose', 'zernike.zernike_basis', 'zernike.zernike_fit', 'zernike.zernike_remove', 'zernike.zernike_coordinates', 'zernike.R'], allow=[])
    chk.clause('C11-a', 'zero outside the mask: the mask is a factor of every returned mode', 1)
    chk.clause('C11-b', 'the mask is coerced to bool before any other use', 2)
    from .c12 import binding_rule, basis_dtype_rule, basis_order_rule
    basis_dtype_rule(chk, repo, 'C11-b')
    basis_order_rule(chk, repo, 'C11-b')
    binding_rule(chk, repo, 'C11-c')
    chk.clause('C11-c', 'normalised = un-normalised x sqrt(n+1) (m = 0) or sqrt(2)*sqrt(n+1) (m != 0); cosine for m > 0, sine for m < 0', 3)
    chk.clause('C11-d', 'default polar origin = mask centroid for either parity (shift = centroid - floor(n/2))', 2)
    from .c20 import centroid_rule
    from .common import Remap
    centroid_rule(Remap(chk, {'C11-d': 'C11-d'}), repo, 'C11-d')
    chk.clause('C11-e', 'rho is scaled by the largest radius over the mask', 1)
    chk.clause('C11-f', 'radial term is the textbook factorial term, summed over k = 0..(n-m)/2', 2)
    chk.clause('C11-h', 'polar coordinates: isotropic radius of the mesh, angle convention, caller shift honoured', 3)
    chk.clause('C11-g', 'Noll index map: radial order from the triangular-number formula, position within the row, row of '
                        '|m| values by parity of n, sign of m from the parity of j (even j cosine, odd j sine)', 6)
    noll_rules(chk, repo, 'C11-g')
    chk.not_decided += ['that the Noll map is one-to-one (follows from C11-g only by arithmetic reasoning not done here)',
                        'R(1) = 1, orthonormality, boundedness',
                        'sign convention of sine modes with caller-supplied theta']

    from .extra_rules import zernike_polar_rules
    zernike_polar_rules(chk, repo, 'C11-h')
    f, paths, _ = analyse(repo, 'zernike.zernike', config={'rho': S('rho'), 'theta': S('theta')})
    rets = returns(paths)
    if len(rets) < 1:
        raise AnalysisError('zernike.zernike: no returning path')
    # ---------------------------------------------------------------- C11-a
    for p in rets:
        hm = isinstance(p.ret, Poly) and has_factor(p.ret, is_mask)
        chk.ob('C11-a', 'D-factor', f.key, f'mask factor [{conds_str(p)[-110:]}]', hm,
               f'returns {fmt(p.ret)[:200]}', f.loc(p.node))
    # ---------------------------------------------------------------- C11-b
    bool_coercion_rule(chk, repo)
    # ---------------------------------------------------------------- C11-c
    from .common import flag_truth_rule
    flag_truth_rule(chk, repo, 'C11-c', ['zernike.zernike', 'zernike.zernike_basis', 'zernike.zernike_compose', 'zernike.zernike_fit',
                                         'zernike.zernike_remove'], 'normalize')
    nm = 'normalize'
    idx = None
    for p in rets:
        for e in p.calls('zernike.zernike_index'):
            idx = e
    if idx is None:
        raise AnalysisError('zernike does not call zernike_index')
    m_, n_ = nf.index(idx.result, C(0)), nf.index(idx.result, C(1))

    def literal_truth(c, sign_m, n_is_zero):
        """Truth of a path condition over (sign of m, n == 0); None when it is about something else."""
        a = c.single_atom() if isinstance(c, Poly) else None
        if a is None or not is_app(a):
            return None
        if a[1] in ('and', 'or') and all(isinstance(x, Poly) for x in a[2]):
            vals = [literal_truth(x, sign_m, n_is_zero) for x in a[2]]
            if any(v is None for v in vals):
                return None
            return all(vals) if a[1] == 'and' else any(vals)
        if a[1] == 'not' and isinstance(a[2][0], Poly):
            v = literal_truth(a[2][0], sign_m, n_is_zero)
            return None if v is None else not v
        if a[1] in ('eq', 'ne', 'lt', 'le') and len(a[2]) == 2:
            x, y = a[2]
            for var, val in ((m_, sign_m), (n_, 0 if n_is_zero else 1)):
                if x == var and y == C(0):
                    lhs, rhs = val, 0
                elif y == var and x == C(0):
                    lhs, rhs = 0, val
                else:
                    continue
                return {'eq': lhs == rhs, 'ne': lhs != rhs, 'lt': lhs < rhs, 'le': lhs <= rhs}[a[1]]
        return None

    def cases(p):
        """The (sign of m, n == 0) cases path p is feasible for."""
        out = []
        for sm in (-1, 0, 1):
            for nz in (True, False):
                if sm != 0 and nz:
                    continue          # |m| <= n
                good = True
                for c, pol, _ in p.conds:
                    t = literal_truth(c, sm, nz)
                    if t is not None and t != pol:
                        good = False
                if good:
                    out.append((sm, nz))
        return out

    def other_key(p):
        return frozenset((nf.vkey(c), pol) for c, pol, _ in p.conds
                         if fmt(c) != nm and literal_truth(c, 1, False) is None)

    groups = {}
    for p in rets:
        pol = [pl for c, pl, _ in p.conds if fmt(c) == nm]
        for case in cases(p):
            groups.setdefault((case, other_key(p)), {}).setdefault(pol[0] if pol else None, []).append(p)
    from ..rules import none_state
    given = [p for p in rets if none_state(p, 'rho') is False and cases(p)]
    if not given:
        raise AnalysisError('zernike: paths with caller-supplied coordinates not identified')
    n_pairs = 0
    for (case, _), g in sorted(groups.items(), key=lambda kv: str(kv[0][0])):
        norm = g.get(True, []) + g.get(None, [])
        plain = g.get(False, []) + g.get(None, [])
        if case == (0, True) or not norm or not plain:
            continue          # piston is the mask itself on either path
        if not g.get(True) and not g.get(False) and not any(('sym', nm) in nf.value_atoms(q_.ret) for q_ in g.get(None, [])):
            if not any(is_app(a_, 'call:zernike.R') for q_ in g.get(None, []) for a_ in nf.value_atoms(q_.ret)):
                continue        # no radial polynomial on this path: the piston term (the mask itself), selected some other way
            # the flag is not consulted at all for this case: normalised and un-normalised modes come out the same although
            # they differ by sqrt(n+1) or sqrt(2(n+1))
            m_zero = case[0] == 0
            n_pairs += 1
            chk.ob('C11-c', 'N-sibling', f.key,
                   f'normalisation factor [{"m = 0" if m_zero else ("m > 0" if case[0] > 0 else "m < 0")}, '
                   f'{"rho given" if none_state(g[None][0], "rho") is False else "default coordinates"}]', False,
                   f'`normalize` does not take part in any condition of this case: the result is {fmt(g[None][0].ret)[:120]} whatever '
                   f'the flag says', f.loc(g[None][0].node))
            continue
        for pa in norm[:1]:
            for pb in plain[:1]:
                if pa is pb:
                    continue
                n_pairs += 1
                a, b = pa.ret, pb.ret
                ratio = a / b if isinstance(b, Poly) and isinstance(a, Poly) and len(b.terms) == 1 else None
                m_zero = case[0] == 0
                want = (n_ + 1).pow(Fraction(1, 2)) * (1 if m_zero else Poly.const(2).pow(Fraction(1, 2)))
                chk.ob('C11-c', 'N-sibling', f.key,
                       f'normalisation factor [{"m = 0" if m_zero else ("m > 0" if case[0] > 0 else "m < 0")}, '
                       f'{"rho given" if none_state(pa, "rho") is False else "default coordinates"}]',
                       ratio == want, f'normalised/un-normalised = {fmt(ratio)}; Noll: {fmt(want)}', f.loc(pa.node))
    # the rotationally symmetric modes (m = 0, n > 0) are sqrt(n+1) R_n^0(rho): whatever selects sine or cosine for the others
    # (the sign of m, the parity of the index), with m = 0 no azimuthal factor is left and the mode does not vanish
    ok0, det0, n0 = None, 'undecided: no path is feasible for m = 0, n > 0', 0
    m_atom = m_.single_atom()
    for p in rets:
        if (0, False) not in cases(p) or not isinstance(p.ret, Poly):
            continue
        r0 = nf.subst_value(p.ret, {m_atom: nf.ZERO})
        trig0 = {a: (nf.ZERO if a[1] == 'sin' else nf.ONE) for a in nf.value_atoms(r0)
                 if is_app(a, ('sin', 'cos')) and isinstance(a[2][0], Poly) and a[2][0].is_zero()}
        if trig0:
            r0 = nf.subst_value(r0, trig0)
        rc = [a for a in r0.atoms(deep=False) if is_app(a, 'call:zernike.R')] if isinstance(r0, Poly) else []
        if isinstance(r0, Poly) and not r0.is_zero() and len(rc) != 1:
            continue            # not of the form factor * R(...) * mask: left to the pairwise comparison
        n0 += 1
        left = [a for a in nf.value_atoms(r0) if is_app(a, ('sin', 'cos'))] if isinstance(r0, Poly) else []
        if not isinstance(r0, Poly) or r0.is_zero() or left:
            ok0 = False
            det0 = (f'[{conds_str(p)[:80]}] with m = 0 the mode is {fmt(r0)[:100]}: ' +
                    ('it vanishes identically' if isinstance(r0, Poly) and r0.is_zero() else 'an azimuthal factor is left'))
        elif ok0 is None:
            ok0, det0 = True, ''
    chk.ob('C11-c', 'N-sibling', f.key, 'rotationally symmetric modes (m = 0, n > 0) are a multiple of R_n^0(rho) * mask on every path',
           ok0, det0 or f'{n0} path(s)', f.loc())
    if n_pairs < 1:
        raise AnalysisError('zernike: no normalised/un-normalised path pair found')
    for p in given:
        cs = cases(p)
        if len(cs) != 1 or cs[0][0] == 0:
            continue
        trig = [a for a in p.ret.atoms(deep=False) if is_app(a, ('cos', 'sin'))] if isinstance(p.ret, Poly) else []
        want = 'cos' if cs[0][0] > 0 else 'sin'
        ok = len(trig) == 1 and trig[0][1] == want and trig[0][2][0] == m_ * S('theta')
        chk.ob('C11-c', 'N-sibling', f.key, f'azimuthal factor {want}(m*theta) [{"m > 0" if want == "cos" else "m < 0"}, '
               f'{"normalised" if any(pol and fmt(c) == nm for c, pol, _ in p.conds) else "un-normalised"}]', ok,
               f'azimuthal factor {nf.fmt_atom(trig[0]) if trig else "missing"}', f.loc(p.node))

    # ------------------------------------------------------------ C11-d / e
    # default coordinates are those of the MASK wherever the module derives them: the centroid and the unit radius of the OPD's
    # own support differ from the mask's as soon as the OPD is nonzero outside it
    import ast as _ast
    wrong, ncoord = [], 0
    for g in repo.all_functions():
        if g.module.name != 'zernike' or 'mask' not in g.param_names():
            continue
        for node in _ast.walk(g.node):
            if isinstance(node, _ast.Call) and (dotted(node.func) or '').split('.')[-1] == 'zernike_coordinates':
                ncoord += 1
                arg = node.args[0] if node.args else next((k.value for k in node.keywords if k.arg == 'mask'), None)
                if isinstance(arg, _ast.Name) and arg.id != 'mask' and arg.id in g.param_names():
                    wrong.append(f'{g.key}: `{g.module.segment(node)[:50]}` at {g.loc(node)}')
    chk.ob('C11-d', 'D-flow', 'lentil.zernike', 'default polar coordinates are derived from the mask (not from another argument)',
           (not wrong) if ncoord else None, '; '.join(wrong[:2]) or f'{ncoord} call(s) of zernike_coordinates', '')
    cm = nf.app('cast', S('mask'), Const(('builtin', 'bool')))
    cshape = nf.attr(cm, 'shape')
    cpair = Tup([nf.index(cshape, C(0)), nf.index(cshape, C(1))], 'tuple')
    fc, cp, _ = analyse(repo, 'zernike.zernike_coordinates', config={'shift': NONE},
                        facts={cshape.single_atom(): cpair})
    rets_c = returns(cp)
    if not rets_c:
        raise AnalysisError('zernike_coordinates: default-shift configuration has no returning path')
    # a test on the computed shift (a tolerance, a rounding guard) splits the default configuration into several paths: the
    # origin has to sit on the centroid on each of them
    for q in rets_c[1:]:
        qm, qc = q.calls('helper.mesh'), q.calls('util.centroid')
        if len(qm) != 1 or len(qc) != 1:
            continue
        qsh = qm[0].bound.get('shift')
        for ax in (0, 1):
            got = qsh.items[ax] if isinstance(qsh, Tup) and len(qsh) == 2 else None
            want = nf.index(qc[0].result, C(ax)) - HALF(cpair.items[ax])
            chk.ob('C11-d', 'N-origin', fc.key, f'axis {ax}: mesh origin floor(n/2) + shift = centroid [{conds_str(q)[:70]}]',
                   got is not None and got == want,
                   f'shift[{ax}] = {fmt(got)}; mesh puts its origin at floor(n/2), so the centroid needs {fmt(want)}', fc.loc(qm[0].node))
    p = rets_c[0]
    mesh = p.calls('helper.mesh')
    cen = p.calls('util.centroid')
    if len(mesh) == 1 and not cen:
        # the default origin is computed some other way than from lentil.centroid(mask): the midpoint of the bounding box, the
        # array centre ... coincide with the centroid for symmetric masks only
        for ax in (0, 1):
            chk.ob('C11-d', 'N-origin', fc.key, f'axis {ax}: mesh origin floor(n/2) + shift = centroid', False,
                   f'shift = {fmt(mesh[0].bound.get("shift"))[:100]}: not derived from the centroid of the mask', fc.loc(mesh[0].node))
        mesh = []
    if len(mesh) != 1 or len(cen) != 1:
        raise AnalysisError('zernike_coordinates: expected one helper.mesh and one centroid call')
    sh = mesh[0].bound.get('shift')
    mshape = mesh[0].bound.get('shape')
    if mshape != cpair:
        raise AnalysisError(f'zernike_coordinates: mesh is not built on mask.shape ({fmt(mshape)})')
    for ax in (0, 1):
        got = sh.items[ax] if isinstance(sh, Tup) and len(sh) == 2 else None
        want = nf.index(cen[0].result, C(ax)) - HALF(cpair.items[ax])
        chk.ob('C11-d', 'N-origin', fc.key, f'axis {ax}: mesh origin floor(n/2) + shift = centroid', got is not None and got == want,
               f'shift[{ax}] = {fmt(got)}; mesh puts its origin at floor(n/2), so the centroid needs {fmt(want)}',
               fc.loc(mesh[0].node))
    rho = p.ret.items[0] if isinstance(p.ret, Tup) and len(p.ret) == 2 else None
    oke, det = False, f'rho = {fmt(rho)[:200]}'
    if isinstance(rho, Poly) and len(rho.terms) == 1:
        mx = [a for a, e in rho.terms[0][0] if is_app(a, 'amax') and e == -1]
        if len(mx) == 1:
            arg = mx[0][2][0]
            r = rho * Poly.atom(mx[0])
            oke = isinstance(arg, Poly) and has_factor(arg, is_mask) and arg == r * Poly.atom(
                [a for a in arg.atoms(deep=False) if is_mask(a)][0]) if has_factor(arg, is_mask) else False
    chk.ob('C11-e', 'D-scale', fc.key, 'rho = r / max(r over the mask)', bool(oke), det, fc.loc(p.node))

    # ---------------------------------------------------------------- C11-f
    fr, rp, _ = analyse(repo, 'zernike.R')
    rets_r = [p for p in returns(rp) if not (isinstance(p.ret, Poly) and p.ret.is_zero())]
    okt = okl = False
    seen_term = False
    det = ''
    # m, n inside R are int(abs(.)) of the arguments
    mm, nn = nf.app('abs', S('m')), nf.app('abs', S('n'))

    def even_case(v):
        """On the non-zero path n-m is even, so floor((n-m)/2) and floor((n+m)/2) are exact halves."""
        mapping = {}
        for a in nf.value_atoms(v):
            if is_app(a, 'floor') and isinstance(a[2][0], Poly) and a[2][0] in ((nn - mm) / 2, (nn + mm) / 2):
                mapping[a] = a[2][0]
        return nf.subst_value(v, mapping) if mapping else v
    for p in rets_r:
        for lp in p.state.loops:
            if lp['func'] != fr.key:
                continue
            cnt = nf.iter_count(lp['iter']) if isinstance(lp['iter'], (Poly, Tup)) else None
            okl = cnt is not None and even_case(cnt) == (nn - mm) / 2 + 1
            for bs in lp['states']:
                for e in bs.events[lp['n_pre_events']:]:
                    if e.kind == 'write' and e.data.get('how') == 'augassign' and e.data.get('op') == 'add':
                        k = [a for a in nf.value_atoms(e.data['value']) if a[0] == 'iter']
                        if not k:
                            continue
                        kk = Poly.atom(k[0])
                        fact = lambda x: nf.app('factorial', x)
                        want = nf.app('pow', C(-1), kk) * fact(nn - kk) / (fact(kk) * fact((nn + mm) / 2 - kk) *
                                                                           fact((nn - mm) / 2 - kk)) * \
                            nf.app('pow', S('rho'), nn - 2 * kk)
                        okt = even_case(nf.strip_apps(e.data['value'], ('cast', 'float'))) == want
                        det = f'summand {fmt(e.data["value"])[:260]}'
                        seen_term = True
                        other = sorted({a[1] for a in nf.value_atoms(e.data['value']) if a[0] == 'app' and
                                        str(a[1]).split('.')[-1] in ('comb', 'binom', 'perm', 'gamma', 'gammaln', 'ifexp', 'prod',
                                                                     'where', 'poch', 'factorial2')})
                        if not okt and other:
                            # written with other functions (binomials, a sign selected by parity, ...): not compared
                            okt, det = None, f'undecided: the summand uses {", ".join(other)[:80]}: {fmt(e.data["value"])[:160]}'
    if not seen_term:
        okt, det = None, 'undecided: no accumulation `R += term(k)` in a loop of R'
        okl = None if not okl else okl
    chk.ob('C11-f', 'N-formula', fr.key, 'summand = (-1)^k (n-k)! / (k! ((n+m)/2-k)! ((n-m)/2-k)!) rho^(n-2k)', okt, det, fr.loc())
    chk.ob('C11-f', 'N-formula', fr.key, 'k runs over 0 .. (n-m)/2', okl, '', fr.loc())
    # what is returned is the sum itself - for every rho, rho = 1 (where every mode of the basis has radial part 1) included
    wrapped = []
    for p in rets_r:
        ra = p.ret.single_atom() if isinstance(p.ret, Poly) else None
        if ra is not None and is_app(ra, ('where', 'clip', 'select', 'putmask', 'setitem', 'ifexp', 'piecewise')) and \
                any(x[0] == 'loop' for x in nf.value_atoms(p.ret)):
            wrapped.append(fmt(p.ret)[:100])
    # the coefficients are ratios of factorials that cancel almost completely at high order: they are exact only as long as
    # the factorials are the integer ones (math.factorial, or scipy's with exact=True) - the float gamma function loses the
    # rim value R(1) = 1 from n = 26 on
    import ast as _ast
    from ..interp import known_functions as _kf11
    inexact, nfac = [], 0
    for g in [fr] + [h for h in repo.all_functions() if h.module.name == 'zernike' and h.key not in _kf11()]:
        for node in _ast.walk(g.node):
            if isinstance(node, _ast.Call) and (dotted(node.func) or '').split('.')[-1] in ('factorial', 'gamma', 'comb', 'binom'):
                nfac += 1
                tgt = repo.resolve_name(g.module, dotted(node.func))
                nm_ = tgt[1] if isinstance(tgt, tuple) and tgt[0] == 'ext' else ''
                exact = any(k.arg == 'exact' and isinstance(k.value, _ast.Constant) and k.value.value is True for k in node.keywords)
                if nm_.startswith('scipy.special.') and not exact or nm_.endswith('gamma') or nm_.endswith('.binom'):
                    inexact.append(f'`{g.module.segment(node)[:40]}` at {g.loc(node)} is {nm_}')
    chk.ob('C11-f', 'T-precision', fr.key, 'the factorials of the radial coefficients are exact integers', (not inexact) if nfac else None,
           '; '.join(sorted(set(inexact))[:2]) + (': floating-point factorials' if inexact else f'{nfac} factorial call(s)'), fr.loc())
    chk.ob('C11-f', 'N-formula', fr.key, 'the radial polynomial is returned as summed (no values replaced afterwards)',
           (not wrapped) if rets_r else None, '; '.join(wrapped[:1]) + (': samples selected by rho get another value than the polynomial'
                                                                       if wrapped else ''), fr.loc())


def _bare_use(v, nm='mask', repo=None, depth=0):
    """`mask` occurs in v other than as the operand of the boolean cast."""
    def walk(x, under_cast=False):
        if isinstance(x, Poly):
            return any(walk(a) for m, _ in x.terms for a, _e in m)
        if isinstance(x, Tup):
            return any(walk(i) for i in x.items)
        if isinstance(x, nf.Slice):
            return walk(x.lo) or walk(x.hi) or walk(x.step)
        if isinstance(x, tuple):
            if x == ('sym', nm):
                return True
            if len(x) == 3 and x[0] == 'app' and x[1] == 'cast' and x[2] and x[2][0] == S(nm):
                return False
            if len(x) == 3 and x[0] == 'attr' and x[1] == ('sym', nm) and x[2] in ('shape', 'ndim', 'size'):
                return False            # the geometry of the array does not depend on its values
            if len(x) == 3 and x[0] == 'app' and isinstance(x[1], str) and x[1].startswith('call:'):
                # the result of another function of the module that was handed the mask (and coerces it itself)
                def handed_on(a_):
                    if not (isinstance(a_, Tup) and len(a_) == 2 and isinstance(a_.items[0], Const) and a_.items[1] == S(nm)):
                        return False
                    if a_.items[0] == Const('mask'):
                        return True
                    ck = x[1][5:]
                    return repo is not None and depth < 3 and _new_private(repo, ck) and not _bare_where(repo, ck, a_.items[0].value, depth + 1)
                rest = [a_ for a_ in x[2] if not handed_on(a_)]
                return any(walk(i) for i in rest)
            return any(walk(i) for i in x)
        return False
    return walk(v)


def noll_rules(chk, repo, clause):
    """zernike_index against the reference construction of Noll's ordering:
    n = ceil((-1+sqrt(1+8j))/2) - 1; position in row r = j - n(n+1)/2 - 1 (from the
    row start) or r - (n+1) (from its end); the row of |m| is 1,1,3,3,.. (n odd) /
    0,2,2,4,4,.. (n even); m is negative (sine) exactly for odd j."""
    f, paths, _ = analyse(repo, 'zernike.zernike_index')
    j = S('j')
    n_ref = nf.ceil((Poly.const(-1) + (1 + 8 * j).pow(Fraction(1, 2))) / 2) - 1
    rets = [p for p in returns(paths) if len(p.conds) >= 3]
    if len(rets) < 2:
        raise AnalysisError('zernike_index: general paths not found')
    refusal = any(p.status == 'raise' and p.exc == 'ValueError' and p.conds and p.conds[-1][0] == nf.app('lt', j, C(1)) for p in paths)
    chk.ob(clause, 'D-guard', f.key, 'indices below 1 are refused', refusal, '', f.loc())
    ok_n = ok_sign = True
    ok_r = True
    det_n = det_r = det_s = ''
    by_rest = {}
    for p in rets:
        m_t, n_t = p.ret.items
        if n_t != n_ref:
            ok_n, det_n = False, f'n = {fmt(n_t)}; Noll: {fmt(n_ref)}'
        parity = [(c, pol) for c, pol, _ in p.conds if c in (nf.app('bitand', j, C(1)), nf.app('mod', j, C(2)))]
        if len(parity) != 1 or not isinstance(m_t, Poly):
            ok_sign, det_s = False, 'the sign of m is not decided by the parity of j'
            continue
        rest = frozenset((nf.vkey(c), pol) for c, pol, _ in p.conds if c != parity[0][0])
        by_rest.setdefault(rest, {})[parity[0][1]] = m_t
        ia = [a for a in m_t.atoms(deep=False) if a[0] == 'idx']
        if len(m_t.terms) != 1 or len(ia) != 1:
            ok_r = None if ok_r is not False else ok_r
            det_r = 'undecided: |m| is not read from a row list (closed form?)'
            continue
        r = ia[0][2]
        r_start = j - n_ref * (n_ref + 1) / 2 - 1
        if r not in (r_start, r_start - (n_ref + 1)):
            ok_r, det_r = False, f'row position {fmt(r)}; Noll: {fmt(r_start)} (or that minus the row length)'
    # odd j <-> negative m: the two parity branches of every case differ exactly by the sign
    for rest, d in by_rest.items():
        if True in d and False in d:
            if d[True] != -d[False] or (len(d[True].terms) == 1 and d[True].terms[0][1] > 0):
                ok_sign, det_s = False, f'm(odd j) = {fmt(d[True])[:80]}, m(even j) = {fmt(d[False])[:80]}'
            elif len(d[True].terms) != 1 and ok_sign is True:
                # m(odd) = -m(even) holds, but which of the two is the negative one is not visible in a sum
                ok_sign, det_s = None, 'undecided: m(odd j) = -m(even j), sign of the closed form not determined'
        else:
            ok_sign, det_s = False, 'only one parity branch found'
    chk.ob(clause, 'N-formula', f.key, 'radial order n from the triangular numbers', ok_n, det_n, f.loc())
    chk.ob(clause, 'N-formula', f.key, 'position of j within its row', ok_r, det_r, f.loc())
    chk.ob(clause, 'D-parity', f.key, 'odd j gives the sine (negative m) term, even j the cosine term', ok_sign, det_s, f.loc())
    # the row of |m| values
    ok_row, det_row = True, ''
    n_par = nf.app('bitand', n_ref, C(1))
    seen_par = set()
    for p in rets:
        lps = [lp for lp in p.state.loops if lp['func'] == f.key]
        if len(lps) != 1:
            ok_row = None if ok_row is not False else ok_row
            det_row = 'undecided: no row construction loop (closed form?)'
            continue
        lp = lps[0]
        par = [pol for c, pol, _ in p.conds if c == n_par]
        if len(par) != 1:
            ok_row, det_row = False, 'the row start is not chosen by the parity of n'
            continue
        seen_par.add(par[0])
        want_pre = Tup([C(1), C(1)], 'list') if par[0] else Tup([C(0)], 'list')
        lists = [v for v in lp['pre'].values() if isinstance(v, Tup) and v.kind == 'list']
        if want_pre not in lists:
            ok_row, det_row = False, f'row for {"odd" if par[0] else "even"} n starts {lists[0] if lists else None!r}'
        it = lp['iter'].single_atom() if isinstance(lp['iter'], Poly) else None
        if it is None or not is_app(it, 'range') or tuple(it[2]) != (nf.floor(n_ref / 2),):
            ok_row, det_row = False, f'row is extended {fmt(lp["iter"])} times; Noll: floor(n/2) pairs'
        apps = [e for bs in lp['states'] for e in bs.events[lp['n_pre_events']:]
                if e.kind == 'write' and e.data.get('how') == 'method:append']
        if len(apps) != 2:
            ok_row, det_row = False, f'{len(apps)} appends per step; Noll rows grow by one pair (|m|+2 twice)'
        else:
            a0 = apps[0].data['args'][0]
            last = nf.index(apps[0].target, C(-1))
            if a0 != last + 2:
                ok_row, det_row = False, f'first appended value {fmt(a0)}; expected previous + 2'
    ok_row = (ok_row and seen_par == {True, False}) if ok_row is not None else None
    chk.ob(clause, 'N-formula', f.key, 'row of |m|: 1,1,3,3,... for odd n and 0,2,2,4,4,... for even n', ok_row, det_row, f.loc())
    chk.ob(clause, 'N-formula', f.key, 'piston: j = 1 (n = 0) gives m = 0',
           any(p.ret.items[0] == nf.ZERO and any(c == nf.app('eq', n_ref, C(0)) and pol for c, pol, _ in p.conds)
               for p in returns(paths) if isinstance(p.ret, Tup)), '', f.loc())
