"""C03 - splitting an aperture into segments or sub-arrays never changes the result."""
import ast

from ..resilient import run_nested as _run_nested
from .. import nf
from ..nf import Poly, Tup, Const, Slice, NONE, TRUE, FALSE
from ..model import AnalysisError, dotted
from ..rules import run as analyse, returns, fmt, is_app, S, C, has_factor, seg
from .plane_flow import phasors, self_attr, is_mask_atom, base_and_keys, SELF
from .prop_flow import DftFlow, configs


def coherent(chk, repo, clause):
    """Every modulus that reaches an intensity result is applied to coherently
    combined data: fields passed through field.reduce, or the complex field."""
    for key in ('wavefront.Wavefront.intensity', 'wavefront.Wavefront.insert'):
        # (an accessor that hands the work to Wavefront.insert is followed into it)
        f, paths, _ = analyse(repo, key, inline=['wavefront.Wavefront.insert'] if key.endswith('intensity') else (),
                              types={('sym', 'self'): repo.cls('wavefront.Wavefront')})
        rets = returns(paths)
        ok, det, n = True, '', 0
        for p in rets:
            ins = [e for e in p.calls('field.insert') if e.bound.get('intensity') != FALSE]
            for e in ins:
                n += 1
                fld = e.bound.get('field')
                a = fld.single_atom() if isinstance(fld, Poly) else None
                src = Poly.atom(a[1]) if a is not None and a[0] == 'idx' else None
                sa = src.single_atom() if src is not None else None
                good = sa is not None and is_app(sa, 'call:field.reduce') and \
                    {k.items[0].value: k.items[1] for k in sa[2]}.get('fields') == nf.attr(SELF, 'data')
                if not good:
                    ok = False
                    det = f'|.|^2 is taken of {fmt(fld)}: fields that overlap would be added as intensities, not amplitudes'
            # accepted alternative: abs(self.field)**2
            if not ins and isinstance(p.ret, Poly):
                absf = [x for x in nf.value_atoms(p.ret) if is_app(x, 'abs')]
                if absf and all(nf.attr(SELF, 'field').single_atom() in nf.value_atoms(x[2][0]) or
                                any(is_app(y, 'call:wavefront.Wavefront.field') for y in nf.value_atoms(x[2][0]))
                                for x in absf):
                    n += 1
        chk.ob(clause, 'D-pass-through', key, 'modulus only of coherently combined fields', ok and n > 0,
               det or 'intensity is taken of field.reduce(self.data) (overlapping fields merged as complex amplitudes)',
               f.loc())


def mask_cache_rule(chk, repo, clause):
    """Whatever a plane caches from its mask is recomputed wherever the mask is replaced (C03-e; C17-d: rescale)."""
    # what the constructor caches from the mask (the bounding slices, and anything computed from them): each of these has to
    # be recomputed wherever the mask is replaced
    derived = {'_slice'}
    try:
        _, ipaths, _ = analyse(repo, repo.func('plane.Plane.__init__'))
        for p in returns(ipaths) + [q for q in ipaths if q.status == 'fall']:
            seen_mask = False
            roots = set()
            for e in p.events:
                if e.kind == 'write' and e.data.get('how') == 'attrstore' and e.target == SELF:
                    at = e.data.get('attr')
                    if at == '_mask':
                        seen_mask = True
                        roots |= {x for x in nf.value_atoms(e.data.get('value')) if x[0] in ('app', 'idx')}
                        roots |= {nf.attr(SELF, '_mask').single_atom(), nf.attr(SELF, 'mask').single_atom()}
                    elif seen_mask and at not in ('_mask',) and e.data.get('value') is not None:
                        va = nf.value_atoms(e.data['value'])
                        dep = {nf.attr(SELF, d).single_atom() for d in derived} | {nf.attr(SELF, 'shape').single_atom(),
                                                                                    nf.attr(SELF, 'size').single_atom()}
                        if at.startswith('_') and ((va & roots and at == '_slice') or (va & dep)):
                            derived.add(at)
    except AnalysisError:
        pass
    # caches filled on first use (a method that stores a private attribute computed from the mask) are derived values too
    for fn in repo.all_functions():
        if fn.module.name != 'plane' or fn.name == '__init__' or fn.is_setter:
            continue
        if not any(isinstance(x, ast.Attribute) and isinstance(x.ctx, ast.Store) and x.attr.startswith('_') and x.attr != '_mask'
                   and isinstance(x.value, ast.Name) and x.value.id == 'self' for x in ast.walk(fn.node)):
            continue
        try:
            _, lpaths, _ = analyse(repo, fn)
        except AnalysisError:
            continue
        dep = {nf.attr(SELF, d).single_atom() for d in ('mask', '_mask', 'shape', 'size', 'global_mask')}
        for p in lpaths:
            for e in p.events:
                if e.kind == 'write' and e.data.get('how') == 'attrstore' and e.target == SELF and e.depth == 0 \
                        and e.data.get('value') is not None and str(e.data.get('attr', '')).startswith('_') \
                        and e.data['attr'] != '_mask' and nf.value_atoms(e.data['value']) & dep:
                    derived.add(e.data['attr'])
    n = 0
    for fn in repo.all_functions():
        if fn.module.name != 'plane':
            continue
        if not any(isinstance(x, (ast.Assign, ast.AugAssign, ast.AnnAssign)) and
                   any(isinstance(t, ast.Attribute) and t.attr == '_mask'
                       for t in (x.targets if isinstance(x, ast.Assign) else [x.target])) for x in ast.walk(fn.node)):
            continue
        n += 1
        with chk.guard([clause], fn.key):
            _, fpaths, _ = analyse(repo, fn)
            ok, det, where = True, '', fn.loc()
            n_paths = 0
            for p in returns(fpaths) + [q for q in fpaths if q.status == 'fall']:
                ms = [(i, e) for i, e in enumerate(p.events) if e.kind == 'write' and e.data.get('how') == 'attrstore'
                      and e.data.get('attr') == '_mask']
                if not ms:
                    continue
                n_paths += 1
                i, last = ms[-1]
                from .common import final_attr_value
                obj, val = last.target, final_attr_value(p, last)
                fresh = [e for e in p.events[i + 1:] if e.kind == 'write' and e.data.get('how') == 'attrstore'
                         and e.data.get('attr') == '_slice' and e.target == obj]
                good = False
                for e in fresh[-1:]:
                    a = e.data['value'].single_atom() if isinstance(e.data.get('value'), Poly) else None
                    if a is not None and is_app(a, 'call:plane._plane_slice'):
                        arg = dict((k.items[0].value, k.items[1]) for k in a[2]).get('mask')
                        good = arg == val or arg == nf.attr(obj, '_mask') or arg == nf.attr(obj, 'mask')
                    elif e.data.get('value') is not None:
                        # the helper evaluated in place (moved, renamed, turned into a method): the refreshed cache is computed
                        # from the mask that was stored when the value, or a condition it was selected under, reads that mask
                        mine = nf.value_atoms(val) | {nf.attr(obj, '_mask').single_atom(), nf.attr(obj, 'mask').single_atom()}
                        mine = {x for x in mine if x[0] in ('sym', 'attr', 'app', 'idx', 'fresh')}
                        reads = nf.value_atoms(e.data['value']) | {x for c, _, _ in p.conds for x in nf.value_atoms(c)}
                        good = True if (mine & reads) else None
                stale = [d for d in sorted(derived - {'_slice'})
                         if not any(e.kind == 'write' and e.data.get('how') == 'attrstore' and e.data.get('attr') == d and e.target == obj
                                    for e in p.events[i + 1:])]
                if stale and good is not False:
                    ok = False
                    det = (f'{fmt(obj)[:40]}._mask is replaced but {", ".join("." + d for d in stale)}, which the constructor computes from '
                           f'the mask, keeps its old value')
                    where = fn.loc(last.node)
                    continue
                if good is None:
                    ok = None if ok else ok
                    det = f'{fmt(obj)[:40]}._slice is refreshed with {fmt(fresh[-1].data["value"])[:60]}; its dependence on the mask is not visible'
                    continue
                if not good:
                    ok = False
                    det = (f'{fmt(obj)[:40]}._mask is stored and the path ends with ._slice = '
                           f'{fmt(fresh[-1].data["value"])[:100] if fresh else "<not refreshed>"}')
                    where = fn.loc(last.node)
            if n_paths == 0:
                raise AnalysisError(f'{fn.key}: no path storing ._mask')
            chk.ob(clause, 'D-pairing', fn.key, 'slice cache refreshed after the mask assignment', ok,
                   det or f'{n_paths} path(s): the last ._mask store is followed by ._slice = _plane_slice(that mask)', where)
    if n < 2:
        raise AnalysisError(f'only {n} functions assigning ._mask found (Plane.__init__ and Plane.rescale expected)')



def run(chk, repo, tier):
    from .common import no_hidden_state
    no_hidden_state(chk, repo, 'C03')
    chk.clause('C03-o', 'combining segment fields leaves the fields of the wavefront untouched', 4)
    from .common import operands_untouched
    operands_untouched(chk, repo, 'C03-o', ['field.merge', 'field.reduce', 'wavefront.Wavefront.field', 'wavefront.Wavefront.intensity', 'plane.Plane.multiply'], allow=[])
    chk.clause('C03-a', 'modulus only after coherent combination (reduce before |.|^2)', 2)
    chk.clause('C03-b', 'merge adds complex data; the complex field inserts with intensity=False', 2)
    chk.clause('C03-c', 'reduce merges every transitively overlapping group of fields (group extents kept up to date)', 4)
    chk.clause('C03-h', 'sub-array bookkeeping: bounding slices and their offsets agree with array_extent (floor(n/2) convention)', 7)
    chk.clause('C03-d', 'per segment the same slice indexes amplitude, mask and OPD and feeds the offset; index n selects mask and tilt slot', 8)
    chk.clause('C03-e', 'the slice cache is recomputed from the mask wherever the mask is assigned', 2)
    chk.clause('C03-f', 'the mask is a multiplicative factor of every segment phasor on every path', 4)
    from .extra_rules import mask_support_rule
    mask_support_rule(chk, repo, 'C03-f')
    chk.clause('C03-g', 'sub-array offsets reach the transform', 3)
    chk.clause('C03-i', 'the slice cache holds one bounding slice per (segment) mask', 2)
    chk.clause('C03-j', 'resampling treats the segment masks exactly like the global mask', 1)
    chk.clause('C03-n', 'segment bookkeeping rests on exact extent algebra and inserts (overlap tests, clipping, floor(n/2) placement)', 20)
    from . import extent_rules as _X
    from .c06 import insert_rules
    _X.extent_identities(chk, repo, 'C03-n')
    insert_rules(chk, repo, 'C03-n')
    chk.clause('C03-l', 'a masked output window is placed by the bounding box of the mask with the floor(n/2) convention, for '
                        'segmented and monolithic wavefronts alike', 2)
    from . import extent_rules as X
    with chk.guard(['C03-l'], 'propagate._mask_shift'):
        X.mask_window_identities(chk, repo, 'C03-l')
    from .c17 import mask_rescale_siblings
    mask_rescale_siblings(chk, repo, 'C03-j')
    chk.not_decided += ['numerical equality of segmented and monolithic results']

    coherent(chk, repo, 'C03-a')
    from .common import Remap
    from .c06 import disjoint_rules
    from .c20 import helper_rules
    disjoint_rules(Remap(chk, {'C06-f': 'C03-c'}), repo)
    # where the merged segment fields are placed: shape, centre and slices of the union against its bounding box
    from .c06 import merge_helper_rules
    merge_helper_rules(Remap(chk, {'C06-b': 'C03-c'}), repo)
    chk.clause('C03-k', 'segment fields multiply like embedded arrays: a one-element operand inherits the shape and offset of the other (mirror-image cases); the product is taken on the overlap', 3)
    from .c06 import product_rules
    product_rules(chk, repo, 'C03-k')
    helper_rules(Remap(chk, {'C20-d': 'C03-h'}), repo)
    # the tilt each segment carries travels with its field through every product (a shared list would hand one segment's
    # tilt to another), and the FFT branch adds the segment fields in a zeroed region that is the one transformed
    chk.clause('C03-p', 'segment tilts stay with their own field through products; the FFT branch sums the segment fields in one zeroed region', 3)
    from . import common as _common, c09 as _c09
    _common.mul_concat(chk, repo, 'C03-p')
    # a monolithic and a segmented plane keep the same books: every fit adds to the recorded tilts on either branch
    _common.tilt_slot_agreement(chk, repo, 'C03-p')
    # a segmented plane and its copies are independent (a tilt fit on a copy extends the copy's tilt list only), and the
    # tilts a field carries are folded one after the other, each fed the displacement accumulated so far
    from .c10 import plane_copy_rules as _plane_copy_rules
    _plane_copy_rules(chk, repo, 'C03-p')
    from .c04 import folding as _folding, additive as _additive3
    _folding(_common.Remap(chk, {'C04-d': 'C03-p'}), repo, 'C04-d')
    _additive3(chk, repo, 'C03-p')
    from .prop_flow import own_storage_rule
    own_storage_rule(chk, repo, 'C03-p')
    # segments stay mutually coherent through a tilt fit: only tip and tilt leave a segment's OPD, never its piston
    from .extra_rules import fit_tilt_rules as _fit_tilt_rules
    with chk.guard(['C03-p'], 'plane.Plane.fit_tilt'):
        _fit_tilt_rules(chk, repo, 'C03-p')
    # ... and what is taken out of each segment's OPD is recorded - on the plane that is handed back
    from .c04 import fit_tilt_rule as _fit_tilt_rule4
    with chk.guard(['C03-p'], 'plane.Plane.fit_tilt'):
        _fit_tilt_rule4(chk, repo, 'C03-p')
    # ... fitted against the same piston / tip / tilt basis as the whole aperture: the rows of every segment are the
    # monolithic rows times that segment's mask, each ramp scaled by the pixel size of its own axis
    from .c04 import basis_rule as _basis_rule
    with chk.guard(['C03-p'], 'plane.Plane.ptt_vector'):
        _basis_rule(_common.Remap(chk, {'C04-i': 'C03-p'}), repo, 'C04-i')
    # the segment masks lentil itself makes partition the aperture: no sample belongs to two segments
    from .c20 import non_overlap_rule as _non_overlap_rule
    with chk.guard(['C03-p'], 'segmented.hex_segments'):
        _non_overlap_rule(chk, repo, 'C03-p')
    from .prop_flow import skip_rule as _skip_rule
    _skip_rule(chk, repo, 'C03-p')
    from .prop_flow import per_field_shift_rule as _pfs_rule
    _pfs_rule(chk, repo, 'C03-p')
    _run_nested(_c09, Remap(chk, {'C09-d': 'C03-p', 'C09-f': 'C03-p'}), repo, tier)
    # a cropped sub-array is transformed about its own origin floor(n/2) on each axis (plus its offset): the kernel
    # coordinate origins of the DFT
    from . import c01 as _c01
    _run_nested(_c01, Remap(chk, {'C01-d': 'C03-g', 'C01-a': 'C03-g'}), repo, tier, fname='run_check')

    from .extra_rules import plane_slice_rule
    plane_slice_rule(chk, repo, 'C03-i')
    # ---------------------------------------------------------------- C03-b
    f, paths, _ = analyse(repo, 'field._merge')
    ok, det = False, ''
    for p in returns(paths):
        for e in p.writes():
            if e.data.get('how') == 'setitem' and e.in_loop and e.data.get('aug'):
                rhs = e.data.get('rhs')
                a = rhs.single_atom() if isinstance(rhs, Poly) else None
                ok = e.data.get('aug') == 'add' and a is not None and a[0] == 'attr' and a[2] == 'data'
                det = f'out[...] {e.data.get("aug")}= {fmt(rhs)}'
    chk.ob('C03-b', 'D-complex-sum', f.key, 'merge accumulates the complex data itself', ok, det, f.loc())
    f, paths, _ = analyse(repo, 'wavefront.Wavefront.field')
    ok = False
    for p in returns(paths):
        ins = p.calls('field.insert')
        ok = len(ins) == 1 and ins[0].bound.get('intensity') == FALSE and ins[0].bound.get('weight') == C(1)
    chk.ob('C03-b', 'D-complex-sum', f.key, 'complex field: every Field inserted with intensity=False, weight 1', ok, '', f.loc())

    # ------------------------------------------------------------ C03-d / f
    f, phs, rets = phasors(repo)
    amp_a, opd_a, mask_a, slice_a, tilt_a = (self_attr(x) for x in ('amplitude', 'opd', 'mask', 'slice', 'tilt'))
    slice_a |= {nf.attr(SELF, '_slice').single_atom()}
    # what `self.shape` / `self.size` stand for when the properties are followed instead of read as attributes
    from ..rules import run_snippet
    shape_vals, size_vals = {nf.attr(SELF, 'shape')}, {nf.attr(SELF, 'size')}
    try:
        cont_, _, _ = run_snippet(repo, 'plane', 'x__ = self.shape\ny__ = self.size\n', {'self': SELF},
                                  types={('sym', 'self'): repo.cls('plane.Plane')})
        for st_ in cont_:
            if isinstance(st_.env.get('x__'), (Poly, Tup)):
                shape_vals.add(st_.env['x__'])
            if isinstance(st_.env.get('y__'), Poly):
                size_vals.add(st_.env['y__'])
    except Exception:
        pass
    for k, (p, e) in enumerate(phs):
        data = e.bound.get('data')
        off = e.bound.get('offset')
        tilt = e.bound.get('tilt')
        # the segment slice s and index n
        oa = off.single_atom() if isinstance(off, Poly) else None
        if oa is None or not is_app(oa, 'call:helper.slice_offset'):
            # a Field built some other way (e.g. a copy of an incoming field on a shortcut path): nothing to say about slices
            chk.undecided('C03-d', 'D-index', f.key, f'amplitude, mask and OPD use the segment slice [field #{k}]',
                          f'field built with offset {fmt(off)[:60]}, not from a segment slice', f.loc(e.node))
            continue
        ob = {x.items[0].value: x.items[1] for x in oa[2]}
        s = ob.get('slice')
        sa = s.single_atom() if isinstance(s, Poly) else None
        n = sa[2] if sa is not None and sa[0] == 'idx' and sa[1] in slice_a else None
        shape_ok = ob.get('shape') in shape_vals
        desc = f'phasor #{k}'
        has_mask = isinstance(data, Poly) and has_factor(data, is_mask_atom)
        from .common import opaque_element
        opaque = opaque_element(data, off, tilt)
        chk.ob('C03-f', 'D-factor', f.key, f'mask is a factor of the phasor [{_variant(data, amp_a, opd_a)}]', has_mask or (None if opaque else False),
               f'phasor = {fmt(data)}' + ('' if has_mask else ': samples outside the mask are not zeroed'),
               f.loc(e.node))
        bad = []
        idxs = [a for a in nf.value_atoms(data) if a[0] == 'idx']
        inner = {a[1] for a in idxs}
        for a in idxs:
            if a in inner:
                continue
            base, keys = base_and_keys(a)
            if base in amp_a | opd_a:
                if keys != [s]:
                    bad.append(f'{fmt(Poly.atom(a))} is not indexed by the segment slice')
            if base in mask_a:
                if keys not in ([s], [n, s]):
                    bad.append(f'{fmt(Poly.atom(a))} is not mask[n][s] / mask[s]')
        # an attribute used whole (not sliced) is only legitimate when the path established that it is a scalar
        scalar_ok = set()
        for c, pol, _ in e.data.get('path_conds', []):
            ca = c.single_atom() if isinstance(c, Poly) else None
            if ca is not None and is_app(ca, 'eq') and pol and C(1) in ca[2]:
                for x in ca[2]:
                    xa = x.single_atom() if isinstance(x, Poly) else None
                    if xa is not None and xa[0] == 'attr' and xa[2] == 'size':
                        scalar_ok.add(xa[1])
        for a in (data.atoms(deep=True) if isinstance(data, Poly) else []):
            if a in amp_a | opd_a and a not in inner and a not in scalar_ok:
                bad.append(f'{fmt(Poly.atom(a))} is used whole although the segment works on the slice {fmt(s)}')
        chk.ob('C03-d', 'D-index', f.key, f'amplitude, mask and OPD use the segment slice [{_variant(data, amp_a, opd_a)}]',
               (not bad and n is not None and shape_ok) or (None if opaque else False), '; '.join(bad) or f'slice {fmt(s)}', f.loc(e.node))
        ta = tilt.single_atom() if isinstance(tilt, Poly) else None
        t_ok = ta is not None and ta[0] == 'idx' and ta[1] in tilt_a and isinstance(ta[2], Slice) and ta[2].lo == n \
            and ta[2].step in size_vals or (isinstance(tilt, Tup) and len(tilt) == 0)
        chk.ob('C03-d', 'D-index', f.key, f'tilt slot of the same segment [{_variant(data, amp_a, opd_a)}]', bool(t_ok) or (None if opaque else False),
               f'tilt = {fmt(tilt)}', f.loc(e.node))

    # ---------------------------------------------------------------- C03-e
    mask_cache_rule(chk, repo, 'C03-e')

    # ---------------------------------------------------------------- C03-g
    for cfg, label in configs():
        fl = DftFlow(repo, cfg, label)
        ed = fl.one('fourier.dft2')
        fld = ed.bound.get('f')
        fa = fld.single_atom() if isinstance(fld, Poly) else None
        ok = fa is not None and fa[0] == 'attr' and fa[2] == 'data' and \
            ed.bound.get('offset') == nf.attr(Poly.atom(fa[1]), 'offset')
        chk.ob('C03-g', 'D-flow', 'propagate.propagate_dft', f'offset=field.offset at the dft2 call [{label}]', ok,
               f'offset = {fmt(ed.bound.get("offset"))}', fl.f.loc(ed.node))


def _variant(data, amp_a, opd_a):
    def sliced(names):
        for a in nf.value_atoms(data):
            if a[0] == 'idx' and base_and_keys(a)[0] in names:
                return 'array'
        return 'scalar'
    masks = sorted({len(base_and_keys(a)[1]) for a in nf.value_atoms(data) if a[0] == 'idx' and is_mask_atom(a)})
    return f'amplitude {sliced(amp_a)}, opd {sliced(opd_a)}, mask index depth {masks or "-"}'
