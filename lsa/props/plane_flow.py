"""Extraction of the phasor construction in Plane.multiply (C03, C07)."""
from .. import nf
from ..nf import Poly, Tup, Const, Slice, NONE
from ..model import AnalysisError
from ..rules import run as analyse, returns, fmt, is_app, S, C

SELF, WFR = S('self'), S('wavefront')


def self_attr(name):
    return {nf.attr(SELF, name).single_atom(), nf.attr(SELF, '_' + name).single_atom()}


def phasors(repo, facts=None):
    """-> (func, [(path, Field ctor event)]) for every phasor built."""
    wf = repo.cls('wavefront.Wavefront')
    f, paths, _ = analyse(repo, 'plane.Plane.multiply', types={('sym', 'wavefront'): wf}, facts=facts, max_paths=1024)
    out = []
    seen = set()
    for p in returns(paths):
        conds_of = {}
        for lp in p.state.loops:
            for bs, cds in zip(lp.get('states', []), lp.get('conds', [])):
                for e in bs.events[lp['n_pre_events']:]:
                    if e.kind == 'call' and e.data.get('new') == 'field.Field':
                        conds_of.setdefault(id(e), cds)
        for e in p.events:
            if e.kind == 'call' and e.data.get('new') == 'field.Field' and e.depth == 0:
                k = nf.vkey(e.bound.get('data')) + '|' + nf.vkey(e.bound.get('tilt')) + '|' + nf.vkey(e.bound.get('offset'))
                if k not in seen:
                    seen.add(k)
                    e.data['path_conds'] = conds_of.get(id(e), [])
                    out.append((p, e))
    if not out:
        raise AnalysisError('Plane.multiply builds no phasor Field')
    return f, out, returns(paths)


def is_mask_atom(a):
    """self.mask / self._mask possibly indexed."""
    masks = self_attr('mask')
    while a[0] == 'idx':
        a = a[1]
    return a in masks


def base_and_keys(a):
    keys = []
    while a[0] == 'idx':
        keys.append(a[2])
        a = a[1]
    return a, list(reversed(keys))
