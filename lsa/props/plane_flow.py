"""Extraction of the phasor construction in Plane.multiply (C03, C07)."""
from .. import nf
from ..nf import Poly, Tup, Const, Slice, NONE
from ..model import AnalysisError
from ..rules import run as analyse, returns, fmt, is_app, S, C

SELF, WFR = S('self'), S('wavefront')


def self_attr(name):
    return {nf.attr(SELF, name).single_atom(), nf.attr(SELF, '_' + name).single_atom()}


def phasors(repo, facts=None):
    """-> (func, [(path, Field ctor event)]) for every phasor built."""
    wf = repo.cls('wavefront.Wavefront')
    f, paths, _ = analyse(repo, 'plane.Plane.multiply', types={('sym', 'wavefront'): wf}, facts=facts, max_paths=1024)
    out = []
    seen = set()
    for p in returns(paths):
        conds_of = {}
        for lp in p.state.loops:
            for bs, cds in zip(lp.get('states', []), lp.get('conds', [])):
                for e in bs.events[lp['n_pre_events']:]:
                    if e.kind == 'call' and e.data.get('new') == 'field.Field':
                        conds_of.setdefault(id(e), cds)
        for e in p.events:
            if e.kind == 'call' and e.data.get('new') == 'field.Field' and e.depth == 0:
                k = nf.vkey(e.bound.get('data')) + '|' + nf.vkey(e.bound.get('tilt')) + '|' + nf.vkey(e.bound.get('offset'))
                if k not in seen:
                    seen.add(k)
                    e.data['path_conds'] = conds_of.get(id(e), [])
                    out.append((p, e))
    if not out:
        raise AnalysisError('Plane.multiply builds no phasor Field')
    return f, out, returns(paths)


def product_rule(chk, repo, clause):
    """Whatever Plane.multiply appends to the new wavefront is the product `field * phasor` of an incoming field with a
    phasor of this plane - on every path, also for a unit plane wave (the incoming field carries the tilt met so far and
    its own offset; using the phasor alone drops them)."""
    wf = repo.cls('wavefront.Wavefront')
    f, paths, _ = analyse(repo, 'plane.Plane.multiply', types={('sym', 'wavefront'): wf}, max_paths=1024)
    ok, n, det = True, 0, ''
    for p in returns(paths):
        loops = p.state.loops
        states = [bs for lp in loops for bs in lp['states']] or [p.state]
        seen_nodes = set()
        for bs in states:
            evs = bs.events
            muls = {nf.vkey(e.data.get('result')): e for e in evs if e.kind == 'call' and e.data.get('callee') == 'field.Field.__mul__'}
            phs = {nf.vkey(e.data.get('result')) for e in evs if e.kind == 'call' and e.data.get('new') == 'field.Field'}
            for e in evs:
                if e.kind != 'write' or e.data.get('how') != 'method:append' or id(e) in seen_nodes:
                    continue
                ta = e.target.single_atom() if isinstance(e.target, Poly) else None
                if ta is None or ta[0] != 'attr' or ta[2] != 'data':
                    continue
                seen_nodes.add(id(e))
                n += 1
                v = e.data['args'][0] if e.data.get('args') else None
                m = muls.get(nf.vkey(v)) if v is not None else None
                good = False
                if m is not None:
                    a, b = m.bound.get('self'), m.bound.get('other')
                    incoming = [x for x in (a, b) if x is not None and any(y[0] == 'iter' for y in nf.value_atoms(x))
                                and nf.vkey(x) not in phs]
                    phasor = [x for x in (a, b) if x is not None and nf.vkey(x) in phs]
                    good = len(incoming) == 1 and len(phasor) == 1
                if not good and isinstance(v, Poly) and len(v.terms) == 1 and v.terms[0][1] == 1:
                    # the operator form `field * phasor` between two objects: a product of exactly those two values
                    mono = v.terms[0][0]
                    if len(mono) == 2 and all(e_ == 1 for _, e_ in mono):
                        vals = [Poly.atom(a_) for a_, _ in mono]
                        incoming = [x for x in vals if any(y[0] == 'iter' for y in nf.value_atoms(x)) and nf.vkey(x) not in phs]
                        phasor = [x for x in vals if nf.vkey(x) in phs]
                        good = len(incoming) == 1 and len(phasor) == 1
                if not good:
                    ok = False
                    det = f'appends {fmt(v)[:100] if v is not None else "?"}, which is not incoming field * phasor'
    chk.ob(clause, 'D-flow', f.key, 'every field of the product wavefront is (incoming field) * (phasor of this plane)',
           (ok and n > 0) if (n or not ok) else None, det or f'{n} append(s)', f.loc())


def is_mask_atom(a):
    """self.mask / self._mask possibly indexed."""
    masks = self_attr('mask')
    while a[0] == 'idx':
        a = a[1]
    return a in masks


def base_and_keys(a):
    keys = []
    while a[0] == 'idx':
        keys.append(a[2])
        a = a[1]
    return a, list(reversed(keys))
