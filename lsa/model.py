"""Program model: parsed modules, functions, classes, import/alias and call
resolution for the lentil package.  Pure ``ast``; nothing is imported."""
import ast
import hashlib
import os


class AnalysisError(Exception):
    """The analysis itself is broken (vanished anchor, parse failure, ...)."""


class AnchorMissing(AnalysisError):
    pass


class PrivateAnchorMissing(AnalysisError):
    """A private helper the rules know is gone and no renamed / moved successor could be identified (e.g. it was merged
    into another function).  Rules about it become undecided inside a guard; un-guarded it is an analysis error."""


def repo_root():
    return os.environ.get('LENTIL_REPO', '/repo')


class FuncInfo:
    def __init__(self, module, qualname, node, cls=None):
        self.module = module            # ModuleInfo
        self.qualname = qualname        # 'dft2' or 'Plane.multiply'
        self.node = node
        self.cls = cls                  # ClassInfo or None
        self.decorators = [_dotted(d.func if isinstance(d, ast.Call) else d)
                           for d in node.decorator_list]
        self.param_alias = {}           # current parameter name -> name the rules know it by (renamed parameters)

    def old_name(self, param):
        return self.param_alias.get(param, param)

    def rules_view(self, bound):
        """Bound arguments keyed by the parameter names the rules were written against."""
        if not self.param_alias:
            return bound
        return {self.param_alias.get(k, k): v for k, v in bound.items()}

    @property
    def key(self):
        if getattr(self, 'pinned_key', None):
            return self.pinned_key         # a helper that was moved / renamed keeps the key the rules know
        return f'{self.module.name}.{self.qualname}'

    @property
    def name(self):
        return self.node.name

    @property
    def is_property(self):
        return 'property' in self.decorators

    @property
    def is_setter(self):
        return any(d and d.endswith('.setter') for d in self.decorators)

    @property
    def is_static(self):
        return 'staticmethod' in self.decorators

    @property
    def is_classmethod(self):
        return 'classmethod' in self.decorators

    @property
    def is_cached(self):
        return any(d in ('functools.lru_cache', 'lru_cache', 'functools.cache', 'cache')
                   for d in self.decorators)

    def params(self):
        """List of (name, default_node_or_None, kind)."""
        a = self.node.args
        out = []
        pos = list(a.posonlyargs) + list(a.args)
        nd = len(a.defaults)
        for i, p in enumerate(pos):
            d = a.defaults[i - (len(pos) - nd)] if i >= len(pos) - nd else None
            out.append((p.arg, d, 'pos'))
        if a.vararg:
            out.append((a.vararg.arg, None, 'vararg'))
        for p, d in zip(a.kwonlyargs, a.kw_defaults):
            out.append((p.arg, d, 'kwonly'))
        if a.kwarg:
            out.append((a.kwarg.arg, None, 'kwarg'))
        return out

    def param_names(self):
        return [p[0] for p in self.params() if p[2] in ('pos', 'kwonly')]

    def loc(self, node=None):
        n = node if node is not None else self.node
        return f'{self.module.relpath}:{getattr(n, "lineno", self.node.lineno)}'

    def __repr__(self):
        return f'<Func {self.key}>'


class ClassInfo:
    def __init__(self, module, node):
        self.module = module
        self.node = node
        self.name = node.name
        self.base_exprs = [_dotted(b) for b in node.bases]
        self.bases = []      # resolved ClassInfo
        self.methods = {}    # name -> FuncInfo (getter for properties)
        self.setters = {}    # name -> FuncInfo
        self.class_attrs = {}  # name -> value node

    @property
    def key(self):
        return f'{self.module.name}.{self.name}'

    def mro(self):
        out, seen = [], set()

        def walk(c):
            if c.key in seen:
                return
            seen.add(c.key)
            out.append(c)
            for b in c.bases:
                walk(b)
        walk(self)
        return out

    def find_method(self, name, after=None):
        """Resolve a method through the MRO; ``after`` skips classes up to and
        including that one (super())."""
        mro = self.mro()
        if after is not None:
            idx = [c.key for c in mro].index(after.key)
            mro = mro[idx + 1:]
        for c in mro:
            if name in c.methods:
                return c.methods[name]
        return None

    def find_setter(self, name):
        for c in self.mro():
            if name in c.setters:
                return c.setters[name]
        return None

    def attr_names(self):
        """Every attribute name this class (with bases) is known to have."""
        names = set()
        for c in self.mro():
            names.update(c.methods)
            names.update(c.setters)
            names.update(c.class_attrs)
            for f in list(c.methods.values()) + list(c.setters.values()):
                for n in ast.walk(f.node):
                    if isinstance(n, ast.Attribute) and isinstance(n.ctx, ast.Store) \
                            and isinstance(n.value, ast.Name) and n.value.id in ('self', 'w', 'cls'):
                        names.add(n.attr)
            for n in c.node.body:
                if isinstance(n, ast.Assign):
                    for t in n.targets:
                        if isinstance(t, ast.Name) and t.id == '__slots__':
                            try:
                                names.update(ast.literal_eval(n.value))
                            except Exception:
                                pass
        return names

    def is_subclass_of(self, key):
        return any(c.key == key for c in self.mro())


class ModuleInfo:
    def __init__(self, name, path, relpath, src):
        self.name = name           # 'fourier'
        self.path = path
        self.relpath = relpath     # 'lentil/fourier.py'
        self.src = src
        self.lines = src.splitlines()
        try:
            self.tree = ast.parse(src, filename=path)
        except SyntaxError as e:
            raise AnalysisError(f'cannot parse {relpath}: {e}')
        self.functions = {}        # qualname -> FuncInfo
        self.classes = {}          # name -> ClassInfo
        self.imports = {}          # local alias -> dotted target ('numpy', 'lentil.field.Field')
        self.globals = {}          # name -> value node (module-level assigns)
        self.digest = hashlib.sha256(src.encode()).hexdigest()[:16]

    def segment(self, node):
        return ast.get_source_segment(self.src, node) or ''


def _dotted(node):
    """Dotted name of a Name/Attribute chain, else None."""
    parts = []
    while isinstance(node, ast.Attribute):
        parts.append(node.attr)
        node = node.value
    if isinstance(node, ast.Name):
        parts.append(node.id)
        return '.'.join(reversed(parts))
    return None


dotted = _dotted


class Repo:
    PKG = 'lentil'

    def __init__(self, root=None):
        self.root = root or repo_root()
        self.modules = {}
        pkgdir = os.path.join(self.root, self.PKG)
        if not os.path.isdir(pkgdir):
            raise AnalysisError(f'package directory {pkgdir} not found')
        for fn in sorted(os.listdir(pkgdir)):
            if not fn.endswith('.py'):
                continue
            name = fn[:-3]
            path = os.path.join(pkgdir, fn)
            with open(path, encoding='utf-8') as fh:
                src = fh.read()
            self.modules[name] = ModuleInfo(name, path, f'{self.PKG}/{fn}', src)
        for m in self.modules.values():
            self._index(m)
        for m in self.modules.values():
            for c in m.classes.values():
                for b in c.base_exprs:
                    t = self.resolve_name(m, b) if b else None
                    if isinstance(t, ClassInfo):
                        c.bases.append(t)
        self.facade = self._facade()
        self.renamed = {}
        self._resolve_renames()

    # ------------------------------------------------------------------ index
    def _index(self, m):
        for node in m.tree.body:
            self._index_stmt(m, node)

    def _index_stmt(self, m, node):
        if isinstance(node, (ast.FunctionDef, ast.AsyncFunctionDef)):
            m.functions[node.name] = FuncInfo(m, node.name, node)
        elif isinstance(node, ast.ClassDef):
            c = ClassInfo(m, node)
            m.classes[node.name] = c
            for sub in node.body:
                if isinstance(sub, ast.FunctionDef):
                    f = FuncInfo(m, f'{node.name}.{sub.name}', sub, cls=c)
                    if f.is_setter:
                        c.setters[sub.name] = f
                        m.functions[f'{node.name}.{sub.name}#setter'] = f
                    else:
                        c.methods[sub.name] = f
                        m.functions[f.qualname] = f
                elif isinstance(sub, ast.Assign):
                    for t in sub.targets:
                        if isinstance(t, ast.Name):
                            c.class_attrs[t.id] = sub.value
                            # alias of a method: __rmul__ = __mul__
                            if isinstance(sub.value, ast.Name) and sub.value.id in c.methods:
                                c.methods[t.id] = c.methods[sub.value.id]
        elif isinstance(node, ast.Import):
            for a in node.names:
                if a.asname:
                    m.imports[a.asname] = a.name
                else:
                    m.imports[a.name.split('.')[0]] = a.name.split('.')[0]
        elif isinstance(node, ast.ImportFrom):
            if node.module:
                for a in node.names:
                    m.imports[a.asname or a.name] = f'{node.module}.{a.name}'
        elif isinstance(node, ast.Assign):
            for t in node.targets:
                if isinstance(t, ast.Name):
                    m.globals[t.id] = node.value
        elif isinstance(node, (ast.If, ast.Try)):
            for sub in ast.iter_child_nodes(node):
                if isinstance(sub, ast.stmt):
                    self._index_stmt(m, sub)

    def _facade(self):
        """Names exported by lentil/__init__.py -> dotted target."""
        init = self.modules.get('__init__')
        out = {}
        if init is None:
            return out
        for k, v in init.imports.items():
            out[k] = v
        for k in init.globals:
            out[k] = f'lentil.__init__.{k}'
        return out

    # ------------------------------------------------------------- resolution
    def resolve_dotted(self, dotted_name):
        """Resolve 'lentil.x.y' / 'numpy.dot' to FuncInfo / ClassInfo /
        ('module', ModuleInfo) / ('global', module, name) / ('ext', dotted)."""
        parts = dotted_name.split('.')
        if parts[0] != self.PKG:
            return ('ext', dotted_name)
        if len(parts) == 1:
            return ('module', self.modules['__init__'])
        # a from-import in __init__ rebinds the package attribute (lentil.ptype
        # is the function, not the sub-module)
        ftgt = self.facade.get(parts[1]) if hasattr(self, 'facade') else None
        if ftgt and ftgt not in (dotted_name, f'{self.PKG}.{parts[1]}') and ftgt.startswith(self.PKG + '.') \
                and not ftgt.startswith('lentil.__init__.'):
            return self.resolve_dotted('.'.join([ftgt] + parts[2:]))
        # lentil.<module>...
        if parts[1] in self.modules and parts[1] != '__init__':
            m = self.modules[parts[1]]
            if len(parts) == 2:
                return ('module', m)
            return self._in_module(m, parts[2:])
        if parts[1] == '__init__':
            return self._in_module(self.modules['__init__'], parts[2:])
        # facade
        if parts[1] in self.facade:
            tgt = self.facade[parts[1]]
            if tgt == dotted_name:
                return ('ext', dotted_name)
            rest = parts[2:]
            if tgt.startswith('lentil.__init__.'):
                return self._in_module(self.modules['__init__'], [parts[1]] + rest)
            return self.resolve_dotted('.'.join([tgt] + rest))
        return ('missing', dotted_name)

    def _in_module(self, m, parts):
        head = parts[0]
        if head in m.classes:
            c = m.classes[head]
            if len(parts) == 1:
                return c
            f = c.find_method(parts[1])
            if f is not None and len(parts) == 2:
                return f
            if parts[1] in c.attr_names():
                return ('classattr', c, parts[1])
            return ('missing', f'{m.name}.{".".join(parts)}')
        if head in m.functions:
            if len(parts) == 1:
                return m.functions[head]
            return ('missing', f'{m.name}.{".".join(parts)}')
        if head in m.globals:
            return ('global', m, head) if len(parts) == 1 else ('globalattr', m, parts)
        if head in m.imports:
            return self.resolve_dotted('.'.join([m.imports[head]] + parts[1:]))
        return ('missing', f'{m.name}.{".".join(parts)}')

    def resolve_name(self, m, dotted_name):
        """Resolve a dotted name as seen from inside module ``m``."""
        if dotted_name is None:
            return None
        parts = dotted_name.split('.')
        head = parts[0]
        if head in m.functions and len(parts) == 1:
            return m.functions[head]
        if head in m.classes:
            return self._in_module(m, parts)
        if head in m.imports:
            return self.resolve_dotted('.'.join([m.imports[head]] + parts[1:]))
        if head in m.globals:
            return ('global', m, head) if len(parts) == 1 else ('globalattr', m, parts)
        return None

    # ---------------------------------------------------------------- renames
    def _resolve_renames(self):
        """A private helper known to the rules that no longer exists under its name, while exactly one
        *new* private function of the same module/class with the same number of parameters is called from
        the helper's former callers, has been renamed: it keeps answering to the old key."""
        spec = _known_spec()
        known = set(spec.get('functions', []))
        private = spec.get('private', {})
        missing = [k for k in private if not self.has_func(k)]
        new = [f for f in self.all_functions() if f.key not in known and not f.is_setter
               and f.name.startswith('_') and not f.name.startswith('__')]
        calls = {}
        pending = []
        for key in missing:
            mod, _, qual = key.partition('.')
            owner = qual.rsplit('.', 1)[0] if '.' in qual else None
            cands = []
            for f in new:
                same_place = f.module.name == mod and (f.cls.name if f.cls else None) == owner
                moved = owner is None and f.cls is None and f.module.name != mod      # module-level helper moved to another module
                if not (same_place or moved):
                    continue
                if len(f.params()) != len(private[key]['params']):
                    continue
                fp_old = private[key].get('fp') or {}
                if fp_old and bool(fp_old.get('t:Return')) != bool(fingerprint(f).get('t:Return')):
                    continue            # one hands a value back, the other does not: a different role (a check that raises, say)
                callers = [c for c in private[key]['callers'] if self.has_func(c)]
                if f.module.name != mod and not callers:
                    continue            # a move is only recognised through the former callers
                hit = False
                for c in callers:
                    if c not in calls:
                        calls[c] = callees_of(self, self.func(c))
                    hit = hit or f.key in calls[c]
                if hit or not callers:
                    cands.append(f)
            resolved_to = getattr(self, '_rename_targets', None)
            if resolved_to is None:
                resolved_to = self._rename_targets = {}
            if len(cands) == 1:
                resolved_to.setdefault(id(cands[0]), []).append(key)
            pending.append((key, qual, mod, cands))
        # several helpers renamed at once: pair old and new by how alike the bodies are (pinned fingerprint), greedily, one-to-one
        scored = []
        for key, qual, mod, cands in pending:
            fp = private[key].get('fp')
            for f in cands:
                scored.append((similarity(fp, fingerprint(f)) if fp else 0.0, key, f))
        scored.sort(key=lambda t: -t[0])
        taken_keys, taken_funcs, chosen = set(), set(), {}
        for sc, key, f in scored:
            if key in taken_keys or id(f) in taken_funcs:
                continue
            rivals = [s2 for s2, k2, f2 in scored if (k2 == key or f2 is f) and not (k2 == key and f2 is f)
                      and k2 not in taken_keys and id(f2) not in taken_funcs]
            if sc >= 0.5 and all(sc - r >= 0.15 for r in rivals):
                chosen[key] = f
                taken_keys.add(key)
                taken_funcs.add(id(f))
        for key, qual, mod, cands in pending:
            f = None
            if len(cands) == 1 and len(self._rename_targets[id(cands[0])]) == 1:
                f = cands[0]
            elif key in chosen:
                f = chosen[key]
            if f is not None:
                self.renamed[key] = f.key
                if f.module.name != mod:
                    f.pinned_key = key
                    self.modules[mod].functions[qual] = f
                else:
                    f.qualname = qual
                    f.module.functions[qual] = f
                    if f.cls is not None:
                        f.cls.methods[qual.rsplit('.', 1)[1]] = f
        # renamed parameters of private helpers (same number and kinds): the rules keep using the old names
        for key, info in private.items():
            if not self.has_func(key):
                continue
            f = self.func(key)
            cur = [p[0] for p in f.params()]
            if cur != info['params'] and len(cur) == len(info['params']):
                # by position, but never across a permutation: a name that is still in use keeps its meaning
                alias = {c: o for c, o in zip(cur, info['params']) if c != o and o not in cur and c not in info['params']}
                # ... and only while the callers still hand over the same things at those positions: a helper whose first
                # parameter used to be the pupil sampling and now is a precomputed ratio kept the count, not the meaning
                idx = [i for i, c in enumerate(cur) if c in alias]
                verdicts = []
                for ck, old_sites in (info.get('sites') or {}).items():
                    if not self.has_func(ck):
                        continue
                    for new_site in call_site_texts(self.func(ck), f.name, cur):
                        # evidence of a moved meaning: what used to be handed over at one position now arrives at another
                        for o_ in old_sites:
                            verdicts.append(any(new_site[i] is not None and new_site[i] != o_[i] and
                                                any(new_site[i] == o_[j] for j in range(len(o_)) if j != i) for i in idx))
                if verdicts and all(verdicts):
                    alias = {}
                f.param_alias = alias

    def signature_moved(self, key):
        """A private helper the rules know by its parameter names no longer has them (and the change is not a mere
        renaming): what it is handed means something else, so rules that read its parameters give no verdict."""
        info = _known_spec().get('private', {}).get(key)
        if info is None or not self.has_func(key):
            return False
        f = self.func(key)
        return [f.param_alias.get(p[0], p[0]) for p in f.params()] != info['params']

    # ---------------------------------------------------------------- lookup
    def func(self, key):
        """'fourier.dft2' / 'plane.Plane.multiply' -> FuncInfo (AnchorMissing)."""
        mod, _, qual = key.partition('.')
        m = self.modules.get(mod)
        if m is None or qual not in m.functions:
            if qual.rsplit('.', 1)[-1].startswith('_') and not qual.rsplit('.', 1)[-1].startswith('__'):
                raise PrivateAnchorMissing(f'private helper {key} not found in {self.root} (merged or removed?)')
            raise AnchorMissing(f'anchor function {key} not found in {self.root}')
        return m.functions[qual]

    def cls(self, key):
        mod, _, name = key.partition('.')
        m = self.modules.get(mod)
        if m is None or name not in m.classes:
            raise AnchorMissing(f'anchor class {key} not found in {self.root}')
        return m.classes[name]

    def has_func(self, key):
        mod, _, qual = key.partition('.')
        return mod in self.modules and qual in self.modules[mod].functions

    def all_functions(self):
        seen = set()
        for m in self.modules.values():
            for f in m.functions.values():
                if id(f.node) not in seen:
                    seen.add(id(f.node))
                    yield f

    def digest(self, modules=None):
        h = hashlib.sha256()
        for name in sorted(modules or self.modules):
            h.update(self.modules[name].digest.encode())
        return h.hexdigest()[:16]

    def public_functions(self):
        """Functions/methods not starting with '_' (dunder methods count as
        public) whose module/class are not private."""
        for f in self.all_functions():
            nm = f.name
            if nm.startswith('_') and not (nm.startswith('__') and nm.endswith('__')):
                continue
            if f.cls is not None and f.cls.name.startswith('_'):
                continue
            yield f


_KNOWN_SPEC = None


def _known_spec():
    global _KNOWN_SPEC
    if _KNOWN_SPEC is None:
        import json
        path = os.path.join(os.path.dirname(os.path.dirname(os.path.abspath(__file__))), 'specs', 'known_functions.json')
        try:
            with open(path) as fh:
                _KNOWN_SPEC = json.load(fh)
        except OSError:
            _KNOWN_SPEC = {}
    return _KNOWN_SPEC


def call_site_texts(caller, name, params):
    """For every call of a function called `name` in the body of `caller`: the source text handed over for each of
    `params` (None where the site leaves it out).  Used to tell a parameter that was merely renamed from a position
    that now carries something else."""
    out = []
    for node in ast.walk(caller.node):
        if not isinstance(node, ast.Call):
            continue
        d = _dotted(node.func)
        if d is None or d.split('.')[-1] != name or any(isinstance(a, ast.Starred) for a in node.args):
            continue
        ps = list(params)
        if ps and ps[0] in ('self', 'cls') and len(d.split('.')) > 1:
            ps = ps[1:]
        texts = {}
        for p_, a in zip(ps, node.args):
            texts[p_] = ast.unparse(a)
        for k in node.keywords:
            if k.arg is not None:
                texts[k.arg] = ast.unparse(k.value)
        out.append([texts.get(p_) for p_ in params])
    return out


def callees_of(repo, f):
    """Keys of the package functions called (by resolvable name) in the body of f."""
    out = set()
    m = f.module
    selfname = f.params()[0][0] if f.cls is not None and f.params() and not f.is_static else None
    for node in ast.walk(f.node):
        if not isinstance(node, ast.Call):
            continue
        d = _dotted(node.func)
        if d is None:
            continue
        parts = d.split('.')
        if selfname and parts[0] == selfname and len(parts) == 2 and f.cls is not None:
            t = f.cls.find_method(parts[1]) if hasattr(f.cls, 'find_method') else None
            if isinstance(t, FuncInfo):
                out.add(t.key)
            continue
        try:
            t = repo.resolve_name(m, d)
        except Exception:
            t = None
        if isinstance(t, FuncInfo):
            out.add(t.key)
        elif isinstance(t, ClassInfo):
            init = t.find_method('__init__') if hasattr(t, 'find_method') else None
            if isinstance(init, FuncInfo):
                out.add(init.key)
    return out


def fingerprint(f):
    """Name-independent description of a function body: node kinds, constants, attribute names, called names that are
    not locals/parameters.  Used to tell renamed private helpers apart."""
    from collections import Counter
    params = {p[0] for p in f.params()}
    local = set(params)
    for n in ast.walk(f.node):
        if isinstance(n, ast.Name) and isinstance(n.ctx, ast.Store):
            local.add(n.id)
    c = Counter()
    for n in ast.walk(f.node):
        if n is f.node:
            continue
        if isinstance(n, ast.Constant) and isinstance(n.value, (str, int, float, complex, bool)) and not \
                (isinstance(getattr(n, 'value', None), str) and len(n.value) > 60):
            c[f'k:{n.value!r}'] += 1
        elif isinstance(n, ast.Attribute):
            c[f'a:{n.attr}'] += 1
        elif isinstance(n, ast.Name) and n.id not in local:
            c[f'n:{n.id}'] += 1
        elif isinstance(n, (ast.If, ast.For, ast.While, ast.Return, ast.Raise, ast.Compare, ast.BinOp, ast.Subscript, ast.Call,
                            ast.IfExp, ast.ListComp, ast.BoolOp)):
            c[f't:{type(n).__name__}'] += 1
    return dict(c)


def similarity(fp1, fp2):
    from collections import Counter
    a, b = Counter(fp1), Counter(fp2)
    # module-level / private names may have been renamed along with the function: do not count them
    drop = [k for k in set(a) | set(b) if k.startswith('n:_')]
    for k in drop:
        a.pop(k, None)
        b.pop(k, None)
    inter = sum((a & b).values())
    union = sum((a | b).values())
    return inter / union if union else 0.0
