"""Call-binding checker (engine B): resolved internal call sites with the
parameter each syntactic argument is bound to."""
import ast

from .model import ClassInfo, FuncInfo, dotted
from .interp import Interp
from .state import PathLimit


class Site:
    def __init__(self, caller, node, callee, binding, star):
        self.caller = caller        # FuncInfo
        self.node = node            # ast.Call
        self.callee = callee        # FuncInfo
        self.binding = binding      # param name -> ast node of the argument
        self.star = star            # call uses *args / **kwargs

    def loc(self):
        return self.caller.loc(self.node)


def sites(repo, caller, types=None):
    """Resolved internal call sites in ``caller`` (deduplicated by node)."""
    ip = Interp(repo, types=types, max_paths=512)
    try:
        paths = ip.run(caller)
    except PathLimit:
        paths = []
    seen, out = set(), []
    for p in paths:
        for e in p.events:
            if e.kind != 'call' or e.depth != 0 or id(e.node) in seen:
                continue
            key = e.data.get('callee', '')
            if not isinstance(e.node, ast.Call) or key.startswith(('ext:', 'method:', 'missing:', '?')):
                continue
            if not repo.has_func(key):
                continue
            callee = repo.func(key)
            seen.add(id(e.node))
            out.append(_site(repo, caller, e.node, callee, bool(e.data.get('new'))))
    return out


def _site(repo, caller, node, callee, is_ctor):
    params = callee.params()
    pos = [p[0] for p in params if p[2] == 'pos']
    skip_self = False
    if callee.cls is not None and not callee.is_static and pos:
        unbound = False
        if isinstance(node.func, ast.Attribute):
            t = repo.resolve_name(caller.module, dotted(node.func.value) or '')
            unbound = isinstance(t, ClassInfo) and not callee.is_classmethod
        skip_self = not unbound
    if skip_self:
        pos = pos[1:]
    binding = {}
    star = False
    old = getattr(callee, 'old_name', lambda x: x)        # renamed parameters keep the name the rules use
    args, keywords = list(node.args), list(node.keywords)
    if isinstance(node.func, ast.Name):
        # name = functools.partial(f, *a, **k); name(*b, **m)  binds like  f(*a, *b, **k, **m)
        scope = caller.node
        if not any(n is node for n in ast.walk(scope)):
            # the call sits in a helper that was followed as part of the caller: the name is bound there
            for g in repo.all_functions():
                if any(n is node for n in ast.walk(g.node)):
                    scope = g.node
                    break
        defs = [n for n in ast.walk(scope) if isinstance(n, ast.Assign) and len(n.targets) == 1
                and isinstance(n.targets[0], ast.Name) and n.targets[0].id == node.func.id]
        if len(defs) == 1 and isinstance(defs[0].value, ast.Call) and (dotted(defs[0].value.func) or '').split('.')[-1] == 'partial' \
                and defs[0].value.args:
            args = list(defs[0].value.args[1:]) + args
            keywords = list(defs[0].value.keywords) + keywords
    for i, a in enumerate(args):
        if isinstance(a, ast.Starred):
            star = True
            break
        if i < len(pos):
            binding[old(pos[i])] = a
    for k in keywords:
        if k.arg is None:
            star = True
        else:
            binding[old(k.arg)] = k.value
    return Site(caller, node, callee, binding, star)


def b3_mismatches(site, names=None):
    """Bare-name argument ``x`` bound to parameter ``p != x`` while ``x`` is the
    name of a different parameter of the same callee."""
    old = getattr(site.callee, 'old_name', lambda x: x)
    pnames = {old(p) for p in site.callee.param_names()}
    out = []
    for p, a in site.binding.items():
        if isinstance(a, ast.Name) and a.id != p and a.id in pnames:
            if names is None or a.id in names or p in names:
                out.append((p, a.id))
    return out
