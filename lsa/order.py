"""Predicates that touch their integer arguments only through comparisons take one
value per *ordering* of those arguments: two such predicates are equal iff they
agree on every consistent truth assignment to the atomic comparisons they read.
This module decides that over normal-form terms (and/or/not over <, <=, ==, != of
integer differences): the atomic comparisons are enumerated, inconsistent
assignments are discarded by a difference-constraint check (negative cycles),
and the two predicates are compared on the rest.  No program code is run."""
import itertools
from fractions import Fraction

from . import nf
from .nf import Poly, Const, TRUE, FALSE

MAX_ATOMIC = 14
ZERO_NODE = ('zero',)


class NotOrderTerm(Exception):
    pass


def _difference(d):
    """d = u - v + c with integer c (u or v may be missing) -> (u, v, c)"""
    u = v = None
    c = 0
    for m, k in d.terms:
        k = Fraction(k)
        if not m:
            if k.denominator != 1:
                raise NotOrderTerm('fractional offset')
            c = int(k)
            continue
        if len(m) != 1 or m[0][1] != 1 or k not in (1, -1):
            raise NotOrderTerm('comparison is not between two plain integers')
        if k == 1:
            if u is not None:
                raise NotOrderTerm('comparison of a sum')
            u = m[0][0]
        else:
            if v is not None:
                raise NotOrderTerm('comparison of a sum')
            v = m[0][0]
    return (u or ZERO_NODE), (v or ZERO_NODE), c


def _collect(v, out):
    if isinstance(v, Const):
        if v in (TRUE, FALSE):
            return
        raise NotOrderTerm(f'constant {v!r}')
    if not isinstance(v, Poly):
        raise NotOrderTerm(type(v).__name__)
    a = v.single_atom()
    if a is None or a[0] != 'app':
        if v.const_value() is not None:
            return
        raise NotOrderTerm('truth value of a non-comparison')
    name, args = a[1], a[2]
    if name in ('and', 'or', 'not'):
        for x in args:
            _collect(x, out)
        return
    if name in ('lt', 'le', 'eq', 'ne') and len(args) == 2 and all(isinstance(x, Poly) for x in args):
        d = args[0] - args[1]
        if d.const_value() is None:
            _difference(d)
            out.setdefault(nf.vkey(v), (name, d))
        return
    raise NotOrderTerm(f'{name}(...) is not a comparison')


def truth(v, val):
    if isinstance(v, Const):
        return v == TRUE
    a = v.single_atom()
    if a is None:
        return v.const_value() != 0
    name, args = a[1], a[2]
    if name == 'and':
        return all(truth(x, val) for x in args)
    if name == 'or':
        return any(truth(x, val) for x in args)
    if name == 'not':
        return not truth(args[0], val)
    d = args[0] - args[1]
    cv = d.const_value()
    if cv is not None:
        return {'lt': cv < 0, 'le': cv <= 0, 'eq': cv == 0, 'ne': cv != 0}[name]
    return val[nf.vkey(v)]


def _constraints(name, d, value):
    """alternatives, each a list of (x, y, w) meaning x - y <= w, under which `name(d, 0)` has truth `value`"""
    u, v, c = _difference(d)
    lt = [(u, v, -c - 1)]
    le = [(u, v, -c)]
    gt = [(v, u, c - 1)]
    ge = [(v, u, c)]
    if name == 'lt':
        return [lt] if value else [ge]
    if name == 'le':
        return [le] if value else [gt]
    if (name == 'eq') == bool(value):
        return [le + ge]
    return [lt, gt]


def _solve(cons):
    """Bellman-Ford over the difference constraints -> a satisfying integer assignment or None"""
    nodes = {ZERO_NODE}
    for x, y, w in cons:
        nodes.add(x)
        nodes.add(y)
    dist = {n: 0 for n in nodes}
    for _ in range(len(nodes) + 1):
        changed = False
        for x, y, w in cons:        # x <= y + w
            if dist[y] + w < dist[x]:
                dist[x] = dist[y] + w
                changed = True
        if not changed:
            z = dist[ZERO_NODE]
            return {n: dist[n] - z for n in nodes if n != ZERO_NODE}
    return None


class P:
    """a (conditions, result) pair standing for one path of a function"""
    def __init__(self, conds, ret):
        self.conds, self.ret = conds, ret


def _select(paths, val):
    for p in paths:
        if all(truth(c, val) == bool(pol) for c, pol, _ in p.conds):
            return p
    return None


def _is_order_term(v):
    try:
        _collect(v, {})
        return True
    except NotOrderTerm:
        return False


def _minmax_axioms(atomic):
    """min(...) / max(...) unknowns read by the comparisons are tied to their arguments"""
    seen, alts = set(), []
    for name, d in atomic.values():
        for a in _difference(d)[:2]:
            if a in seen or a == ZERO_NODE:
                continue
            seen.add(a)
            if a[0] == 'app' and a[1] in ('min', 'max', 'minimum', 'maximum') and all(isinstance(x, Poly) for x in a[2]):
                args = []
                for x in a[2]:
                    u, v, c = _difference(x)            # x = u + c
                    if v != ZERO_NODE:
                        raise NotOrderTerm('min/max of a difference')
                    args.append((u, c))
                    seen.discard(u)
                lo = a[1] in ('min', 'minimum')
                one = []
                for k, (u, c) in enumerate(args):
                    # a == u + c, and a <= / >= every other argument
                    cons = [(a, u, c), (u, a, -c)]
                    for j, (w, cw) in enumerate(args):
                        if j != k:
                            cons.append((a, w, cw) if lo else (w, a, -cw))
                    one.append(cons)
                alts.append(one)
            elif a[0] == 'app':
                raise NotOrderTerm(f'comparison reads {a[1]}(...)')
    return alts


def compare_paths(fpaths, gpaths, result_equal=None):
    """Do the two functions (each a list of paths that partitions the inputs) agree on every ordering of the integers
    their conditions compare?  Results are truth values (result_equal None) or values compared by result_equal.
    -> (True, None) | (False, witness assignment) | (None, reason)"""
    try:
        atomic = {}
        for p in list(fpaths) + list(gpaths):
            for c, pol, _ in p.conds:
                _collect(c, atomic)
            if result_equal is None:
                _collect(p.ret, atomic)
        keys = sorted(atomic)
        if len(keys) > MAX_ATOMIC:
            return None, f'{len(keys)} atomic comparisons'
        axioms = _minmax_axioms(atomic)
        for bits in itertools.product((True, False), repeat=len(keys)):
            val = dict(zip(keys, bits))
            alts = [_constraints(atomic[k][0], atomic[k][1], val[k]) for k in keys] + axioms
            for choice in itertools.product(*alts):
                sol = _solve([c for part in choice for c in part])
                if sol is None:
                    continue
                pf, pg = _select(fpaths, val), _select(gpaths, val)
                if pf is None and pg is None:
                    break           # neither returns for this ordering (both raise)
                if pf is None or pg is None:
                    same = False
                elif result_equal is None:
                    same = truth(pf.ret, val) == truth(pg.ret, val)
                else:
                    same = result_equal(pf.ret, pg.ret)
                if not same:
                    from .rules import fmt
                    return False, {fmt(Poly.atom(a)): v for a, v in sorted(sol.items(), key=repr)
                                   if a[0] != 'app'}
                break
        return True, None
    except NotOrderTerm as e:
        return None, str(e)


def compare(paths, want):
    """Is the boolean function given by `paths` the predicate `want` (a term)?"""
    return compare_paths(paths, [P([], want)])
