"""Helpers shared by the per-property rule modules."""
import ast

from . import nf
from .nf import Poly, Tup, Const, Slice, app, NONE, TRUE, FALSE
from .interp import Interp
from .model import AnalysisError, dotted
from .state import PathLimit

VIEW_APPS = {'T', 'cast', 'm:ravel', 'm:reshape', 'm:squeeze', 'squeeze', 'ravel', 'reshape',
             'broadcast_to', 'setitem', 'real', 'imag', 'm:view', 'transpose', 'm:transpose',
             'atleast_1d', 'atleast_2d'}


def pair(name, base=None):
    b = base if base is not None else nf.sym(name)
    return Tup([nf.index(b, Poly.const(0)), nf.index(b, Poly.const(1))], 'vec')


def quad(name):
    b = nf.sym(name)
    return Tup([nf.index(b, Poly.const(i)) for i in range(4)], 'tuple')


def comp(name, i):
    return nf.index(nf.sym(name), Poly.const(i))


def S(name):
    return nf.sym(name)


def C(x):
    return Poly.const(x)


def run(repo, key, inline=(), config=None, facts=None, types=None, max_paths=256,
        inline_ctor=(), symbolic_globals=False, unroll=False, literal_tables=False):
    f = repo.func(key) if isinstance(key, str) else key
    ip = Interp(repo, inline=inline, facts=facts, types=types, max_paths=max_paths,
                inline_ctor=inline_ctor, symbolic_globals=symbolic_globals, unroll=unroll, literal_tables=literal_tables)
    try:
        paths = ip.run(f, config=config)
    except PathLimit as e:
        raise AnalysisError(str(e))
    return f, paths, ip


def returns(paths):
    return [p for p in paths if p.status == 'return']


def fmt(v):
    s = nf.fmt(v)
    return s if len(s) < 400 else s[:400] + '…'


def conds_str(p):
    return ' & '.join(('' if pol else 'not ') + fmt(c) for c, pol, _ in p.conds) or 'always'


# ------------------------------------------------------------ term queries
def monomial_atoms(m):
    return {a for a, _ in m}


def factor_exponent(term, atom):
    """Minimum exponent of ``atom`` over the monomials of ``term`` (0 if some
    monomial lacks it; None for the zero polynomial)."""
    if not isinstance(term, Poly) or not term.terms:
        return None
    exps = []
    for m, _ in term.terms:
        e = dict(m).get(atom, 0)
        exps.append(e)
    return min(exps)


def has_factor(term, pred):
    """Every monomial of term contains (with positive exponent) an atom
    satisfying pred."""
    if not isinstance(term, Poly) or not term.terms:
        return False
    for m, _ in term.terms:
        if not any(e > 0 and pred(a) for a, e in m):
            return False
    return True


def atoms_of(v):
    return nf.value_atoms(v)


def mentions(v, pred):
    return any(pred(a) for a in atoms_of(v))


def mentions_sym(v, name):
    return ('sym', name) in atoms_of(v)


def is_app(a, name=None):
    return isinstance(a, tuple) and a and a[0] == 'app' and (name is None or a[1] == name
                                                            or (isinstance(name, (set, tuple, list)) and a[1] in name))


def find_apps(v, name):
    return [a for a in atoms_of(v) if is_app(a, name)]


def split_monomial(term):
    """term must be a single monomial -> (coeff, {atom: exp})."""
    if not isinstance(term, Poly) or len(term.terms) != 1:
        return None
    m, c = term.terms[0]
    return c, dict(m)


def alias_root(v):
    """Root atom when ``v`` denotes (a view of) an existing object, else None
    (fresh value)."""
    if isinstance(v, Poly):
        a = v.single_atom()
        while a is not None:
            k = a[0]
            if k in ('sym', 'fresh', 'iter', 'loop'):
                return a
            if k == 'attr':
                if a[2] in ('T', 'real', 'imag', 'flat'):
                    a = a[1]
                    continue
                return a
            if k == 'idx':
                key = a[2]
                if _basic_index(key):
                    a = a[1]
                    continue
                if a[1][0] == 'sym' and '.' in str(a[1][1]) and not str(a[1][1]).startswith('lentil.'):
                    # TABLE[key] of a module-level container: the element itself, not a copy of it
                    a = a[1]
                    continue
                return None if _fancy(key) else a
            if k == 'app':
                if a[1].startswith('call:') or a[1].startswith('new:'):
                    return a
                if a[1] in VIEW_APPS or a[1].startswith('mut:'):
                    arg = a[2][0] if a[2] else None
                    if isinstance(arg, Poly):
                        a = arg.single_atom()
                        continue
                return None
            if k == 'val':
                return None
            return None
    return None


def _basic_index(key):
    """slices / ints / newaxis / Ellipsis only (numpy basic indexing = view)."""
    items = key.items if isinstance(key, Tup) else (key,)
    for it in items:
        if isinstance(it, Slice):
            continue
        if isinstance(it, Const) and (it.value is None or it.value is Ellipsis):
            continue
        return False
    return True


def _fancy(key):
    items = key.items if isinstance(key, Tup) else (key,)
    for it in items:
        if isinstance(it, Poly):
            a = it.single_atom()
            if it.const_value() is not None:
                continue
            if a is not None and a[0] in ('iter', 'sym'):
                continue   # integer index -> view of a row / element
            return True
        if isinstance(it, Tup):
            return True
    return False


def root_sym(v):
    """Name of the parameter symbol a value is a view of, else None.  An
    element of a container (x[i]) counts as reaching into that container."""
    a = alias_root(v)
    while a is not None:
        if a[0] == 'sym':
            return a[1]
        if a[0] in ('attr', 'idx'):
            a = a[1]
            continue
        return None
    return None


def root_chain(v):
    """(root atom, [attr/index steps]) for view chains, following attr/idx."""
    a = alias_root(v)
    steps = []
    while a is not None and a[0] in ('attr', 'idx'):
        steps.append(a[2] if a[0] == 'attr' else '[]')
        a = a[1]
    return a, list(reversed(steps))


# ------------------------------------------------------------- AST helpers
def calls_in(node, name_pred):
    out = []
    for n in ast.walk(node):
        if isinstance(n, ast.Call):
            d = dotted(n.func)
            if d is not None and name_pred(d):
                out.append(n)
    return out


def kwarg(call, name):
    for k in call.keywords:
        if k.arg == name:
            return k.value
    return None


def seg(func, node):
    s = func.module.segment(node)
    return ' '.join(s.split())[:200]


def stmts_of(func):
    return [s for s in func.node.body
            if not (isinstance(s, ast.Expr) and isinstance(s.value, ast.Constant))]


def run_snippet(repo, module, src, env=None, inline=(), inline_ctor=(), facts=None, types=None, unroll=True,
                max_paths=512):
    """Abstractly execute a synthetic statement list in the context of
    ``module`` (used to compose several repository functions symbolically)."""
    from .state import State
    from .model import FuncInfo
    tree = ast.parse(src)
    fn = ast.parse('def __snippet__():\n    pass').body[0]
    fn.body = tree.body
    fi = FuncInfo(repo.modules[module], '__snippet__', fn)
    ip = Interp(repo, inline=inline, inline_ctor=inline_ctor, facts=facts, types=types, unroll=unroll,
                max_paths=max_paths)
    ip.cur = fi
    ip.stack.append('<snippet>')
    st = State()
    st.env.update(env or {})
    try:
        cont, done = ip.exec_block(tree.body, [st])
    except PathLimit as e:
        raise AnalysisError(str(e))
    return cont, done, ip


def minmax_cases(*values, limit=6):
    """Consistent case splits for two-argument max/min applications occurring in
    the values.  Applications are grouped by the (sign-normalised) difference of
    their arguments, so max(x, 0), max(-x, 0) and min(x + c, c) share one case
    variable: either the difference is >= 0 or it is <= 0.  Returns a list of
    substitution mappings (at most 2**limit); an identity that holds under every
    mapping holds for all inputs (no path condition is solved: both signs of every
    difference are always considered)."""
    import itertools
    groups = {}
    for v in values:
        for a in nf.value_atoms(v):
            if is_app(a, ('max', 'min', 'maximum', 'minimum')) and len(a[2]) == 2 and all(isinstance(x, Poly) for x in a[2]):
                x, y = a[2]
                d = x - y
                if d.is_zero():
                    continue
                c, q = d.content()
                groups.setdefault(q.key, []).append((a, 1 if c > 0 else -1))
            elif is_app(a, ('where', 'ifexp')) and len(a[2]) == 3 and all(isinstance(x, Poly) for x in a[2]):
                # a selection on a comparison of two integers: where(x <= y, p, q) is p in the case x - y <= 0, q otherwise
                ca = a[2][0].single_atom()
                if ca is not None and is_app(ca, ('le', 'lt')) and len(ca[2]) == 2 and all(isinstance(x, Poly) for x in ca[2]):
                    d = ca[2][0] - ca[2][1]
                    if d.is_zero():
                        continue
                    c, q = d.content()
                    groups.setdefault(q.key, []).append((a, 1 if c > 0 else -1))
    keys = sorted(groups)
    if not keys:
        return [{}]
    if len(keys) > limit:
        return None
    out = []
    for choice in itertools.product((1, -1), repeat=len(keys)):
        m = {}
        for k, ch in zip(keys, choice):
            for a, sgn in groups[k]:
                if a[1] in ('where', 'ifexp'):
                    # the comparison x <= y (x < y): true in the case x - y <= 0.  At x == y the two kinds of comparison
                    # differ, so a selection is only resolved when both branches agree there or the case is strict enough:
                    # the case "x - y >= 0" makes `lt` false for sure, the case "x - y <= 0" makes `le` true for sure
                    ca = a[2][0].single_atom()
                    x_ge_y = (sgn * ch) > 0
                    if ca[1] == 'le' and not x_ge_y:
                        m[a] = a[2][1]
                    elif ca[1] == 'lt' and x_ge_y:
                        m[a] = a[2][2]
                    elif ca[1] == 'le':
                        m[a] = a[2][2] if a[2][1] != a[2][2] else a[2][1]      # x > y (the tie belongs to the other case)
                    else:
                        m[a] = a[2][1]                                          # x < y
                    continue
                x, y = a[2]
                x_ge_y = (sgn * ch) > 0          # sign of x - y under this case
                big, small = (x, y) if x_ge_y else (y, x)
                m[a] = big if a[1] in ('max', 'maximum') else small
        out.append(m)
    return out


def _case_feasible(m, conds):
    """can the max/min case `m` (atom -> the argument it takes) occur under the comparison literals of `conds`?
    Decided in the linear domain; anything that is not linear counts as possible."""
    from . import linear
    try:
        cons = []
        for c, pol in literals(conds):
            a = c.single_atom() if isinstance(c, Poly) else None
            if a is None or not is_app(a, ('lt', 'le', 'eq')) and not (is_app(a, 'ne') and not pol):
                continue
            try:
                alts = linear.from_condition(c, pol)
            except linear.NotLinear:
                continue
            if len(alts) == 1:
                cons += alts[0]
        for a, chosen in m.items():
            if not (a[0] == 'app' and a[1] in ('max', 'maximum', 'min', 'minimum') and len(a[2]) == 2):
                continue
            x, y = a[2]
            other = y if chosen == x else x
            big, small = (chosen, other) if a[1] in ('max', 'maximum') else (other, chosen)
            try:
                # a tie belongs to the case that takes the first argument (either choice gives the same number there)
                if chosen == x:
                    cons.append(linear.le(linear.linearise(small), linear.linearise(big)))
                else:
                    cons.append(linear.lt(linear.linearise(small), linear.linearise(big)))
            except linear.NotLinear:
                continue
        return linear.satisfiable(cons)
    except Exception:
        return True


def identity_holds(lhs, rhs, conds=None):
    """lhs == rhs as normal forms, or under every consistent max/min case split (cases that contradict the path conditions
    `conds`, when given, are not considered)."""
    if lhs == rhs:
        return True
    cases = minmax_cases(lhs, rhs)
    if not cases or cases == [{}]:
        return False
    if conds:
        cases = [m for m in cases if _case_feasible(m, conds)] or cases
    for m in cases:
        a, b = nf.subst_value(lhs, m), nf.subst_value(rhs, m)
        # nested max/min may reappear after substitution: one more round
        if a != b:
            inner = minmax_cases(a, b)
            if not inner or inner == [{}] or not all(nf.subst_value(a, mm) == nf.subst_value(b, mm) for mm in inner):
                return False
    return True


def none_state(p, name):
    """True / False when the path decided ``name is None`` / ``is not None``; None when it never tested it."""
    for c, pol, _ in p.conds:
        a = c.single_atom() if isinstance(c, Poly) else None
        if a is not None and is_app(a, ('is', 'isnot', 'eq', 'ne')) and len(a[2]) == 2:
            x, y = a[2]
            none = (NONE, Poly.atom(('val', NONE)))
            if y == S(name) and x in none:
                x, y = y, x
            if x == S(name) and y in none:
                return pol if a[1] in ('is', 'eq') else (not pol)
    return None




def literals(conds):
    """Path conditions as canonical (term, truth) literals: not/and/or flattened, `ne` turned into a negated `eq`."""
    from .interp import _literals
    out = []
    for c, pol, _ in conds:
        _literals(c, pol, out)
    canon = []
    for c, pol in out:
        a = c.single_atom() if isinstance(c, Poly) else None
        if a is not None and is_app(a, 'ne') and len(a[2]) == 2:
            c, pol = nf.app('eq', a[2][0], a[2][1]), not pol
        canon.append((c, pol))
    return canon
